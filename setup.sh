#!/bin/sh
# Offline setup: hypothesis into /venv if missing; atheris into /verif/.deps (optional, thorough tiers only).
set -u
cd "$(dirname "$0")"
/venv/bin/python -c "import hypothesis" 2>/dev/null || \
  /venv/bin/pip install --no-index --find-links /opt/veriftools/wheels hypothesis || exit 1
if [ ! -d .deps/atheris ]; then
  /venv/bin/pip install --no-index --find-links /opt/veriftools/wheels --target .deps atheris >/dev/null 2>&1 || \
    echo "setup: atheris not installable; C17/C27 fall back to the Hypothesis fuzzers" >&2
fi
/venv/bin/python -c "import hypothesis, sys; sys.path.insert(0,'/repo'); import problog" || exit 1
exit 0
