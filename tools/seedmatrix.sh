#!/bin/sh
# For every stored seeded change: fresh worktree at /repo HEAD + patch, run the property's own check (quick, given
# seed), print "<id> <check> DETECTED|MISSED|NOAPPLY", remove the worktree.   usage: tools/seedmatrix.sh [seed] [ids...]
cd "$(dirname "$0")/.." || exit 2
SEED="${1:-1}"; [ $# -gt 0 ] && shift
IDS="$*"; [ -z "$IDS" ] && IDS=$(ls seeded | grep "^S-" | sort)
for ID in $IDS; do
  P=$(echo "$ID" | sed 's/^S-\(C[0-9]*\)-.*/\1/')
  T=$(tools/seedtree.sh "$ID" 2>/dev/null | tail -1)
  if [ ! -d "$T" ]; then echo "$ID $P NOAPPLY"; git -C /repo worktree prune; rm -rf "/tmp/seedtree_$ID"; continue; fi
  out=$(VERIF_SEED=$SEED tools/seedrun.sh "$T" "$P" 2>&1 | grep -v "^KNOWN")
  if echo "$out" | grep -q "^VIOLATION"; then echo "$ID $P DETECTED $(echo "$out" | grep 'failure:' | head -1 | cut -c1-160)"; else echo "$ID $P MISSED $(echo "$out" | tail -1 | cut -c1-120)"; fi
  git -C /repo worktree remove --force "$T" >/dev/null 2>&1
done
