#!/usr/bin/env python3
"""Write FINDINGS.md from known_findings.json (human-readable index; known_findings.json stays the source)."""
import json, os
ROOT = os.path.dirname(os.path.dirname(os.path.abspath(__file__)))
F = json.load(open(os.path.join(ROOT, "known_findings.json")))["findings"]
out = ["# Findings on ML-KULeuven/problog", "",
       "Generated from `known_findings.json` by `tools/mkfindings.py`.  *known* = genuine defect recorded, not repaired (the check prints",
       "`KNOWN-FINDING:` for it and excludes failures matching BOTH its signature and its case class); *fixed* = repaired by one `fix:`",
       "commit in /repo (suppresses nothing; its witness under `replay/` must pass).", ""]
known = [e for e in F if e["status"] == "known"]
fixed = [e for e in F if e["status"] == "fixed"]
out += ["## Known findings (%d)" % len(known), "", "| id | properties | what fails | why it is not repaired | witness |", "|---|---|---|---|---|"]
for e in known:
    props = ", ".join([e["property"]] + list(e.get("also", [])))
    out.append("| %s | %s | %s | %s | `%s` |" % (e["id"], props, e["what"].replace("|", "\\|"), (e.get("root_cause") or "").replace("|", "\\|"), e.get("witness")))
out += ["", "## Repaired defects (%d fix: commits)" % len(fixed), "", "| id | properties | commit | what failed | witness |", "|---|---|---|---|---|"]
for e in fixed:
    props = ", ".join([e["property"]] + list(e.get("also", [])))
    out.append("| %s | %s | %s | %s | `%s` |" % (e["id"], props, e.get("commit"), e["what"].replace("|", "\\|"), e.get("witness")))
open(os.path.join(ROOT, "FINDINGS.md"), "w").write("\n".join(out) + "\n")
print(len(known), "known", len(fixed), "fixed")
