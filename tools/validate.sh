#!/bin/sh
# Validate MANIFEST.json and every evidence file against the schemas (needs python3-vt with jsonschema).
cd "$(dirname "$0")/.." || exit 2
python3-vt - <<'PY'
import json, jsonschema, glob, sys
ok = True
man = json.load(open('MANIFEST.json'))
jsonschema.validate(man, json.load(open('/root/.vp/MANIFEST.schema.json')))
sch = json.load(open('/root/.vp/EVIDENCE.schema.json'))
claimed = [c['property_id'] for c in man['checks']]
for pid in claimed:
    fn = 'evidence/%s.json' % pid
    try:
        ev = json.load(open(fn))
        jsonschema.validate(ev, sch)
        c = ev['coverage']
        print('%s ok tier=%s evals=%s nontrivial=%s violations=%s wall=%s' % (pid, ev['tier'], c.get('evaluations'), c.get('distinct_nontrivial'), ev.get('violations'), ev['wall_s']))
        if ev.get('violations'):
            ok = False
        if not c.get('evaluations'):
            print('   !! zero evaluations'); ok = False
    except Exception as e:
        ok = False
        print('%s INVALID: %s' % (pid, str(e)[:300]))
sys.exit(0 if ok else 1)
PY
