#!/usr/bin/env python
"""seeded/MATRIX.md from the output of tools/seedmatrix.sh (one line per stored change).
usage: tools/mkmatrix.py <matrix log> [<seed>]"""
import subprocess
import sys

log = sys.argv[1]
seed = sys.argv[2] if len(sys.argv) > 2 else "1"
head = subprocess.check_output(["git", "-C", "/repo", "log", "--format=%h", "-1"]).decode().strip()
rows = []
for line in open(log):
    parts = line.rstrip("\n").split(" ", 3)
    if len(parts) < 3 or not parts[0].startswith("S-"):
        continue
    rows.append((parts[0], parts[1], parts[2], parts[3].strip() if len(parts) > 3 else ""))
det = sum(1 for r in rows if r[2] == "DETECTED")
out = ["# Detection matrix", "",
       "Every stored seeded change applied to a fresh worktree of /repo at %s, the property's own check run against it "
       "(quick tier, VERIF_SEED=%s) by `tools/seedmatrix.sh`.  %d of %d detected in this run; changes missed here and "
       "what else catches them are discussed in DESIGN.md 8.4 and in each `meta.json` (`detected_by`)." % (head, seed, det, len(rows)),
       "", "| change | check | result | first failure reported |", "|---|---|---|---|"]
for r in rows:
    out.append("| %s | %s | %s | %s |" % (r[0], r[1], r[2].lower(), r[3].replace("|", "\\|")[:150] if r[2] == "DETECTED" else ""))
open("seeded/MATRIX.md", "w").write("\n".join(out) + "\n")
print("%d rows, %d detected" % (len(rows), det))
