#!/usr/bin/env python3
"""Write seeded/README.md: one row per seeded change (from seeded/*/meta.json)."""
import glob, json, os
ROOT = os.path.dirname(os.path.dirname(os.path.abspath(__file__)))
rows = []
for d in sorted(glob.glob(os.path.join(ROOT, "seeded", "S-*"))):
    mp = os.path.join(d, "meta.json")
    if not os.path.exists(mp):
        continue
    m = json.load(open(mp))
    det = "; ".join("%s: %s" % (k, v) for k, v in sorted(m.get("detected_by", {}).items()))
    conf = m.get("confirmed", {})
    rows.append("| %s | %s | %s | %s | %s / demo rc %s -> %s | %s |" % (
        m["id"], m.get("property"), (m.get("summary") or "").replace("|", "\\|").replace("\n", " ")[:400],
        (m.get("needs") or "").replace("|", "\\|").replace("\n", " ")[:300],
        conf.get("suite_with_change", "?").split(",")[0], conf.get("demo_exit_on_repo_head"), conf.get("demo_exit_on_changed_tree"),
        det.replace("|", "\\|")))
out = ["# Seeded changes", "",
       "Each directory holds `patch.diff` (the change, authored by a fresh sub-agent that saw only the property text and its own",
       "worktree), `demo.py` (hand-derived expectation; exit 0 on the unchanged tree, 1 with the change), `meta_author.json` (the",
       "author's description) and `meta.json` (what was confirmed here: the pinned suite passes WITH the change, the demo flips, and",
       "which checks detect it). Apply with `git -C /repo apply seeded/<id>/patch.diff`, run the checks, undo with",
       "`git -C /repo checkout -- .`; or use `tools/seedrun.sh <worktree> <ID>` against a scratch worktree.", "",
       "| id | property | change | needs | suite with change / demo | detection |", "|---|---|---|---|---|---|"] + rows
open(os.path.join(ROOT, "seeded", "README.md"), "w").write("\n".join(out) + "\n")
print(len(rows), "rows")
