#!/bin/sh
# Run every claimed check (quick tier) with the given seeds and print one line per run.
# usage: tools/runall.sh "1 2 3" [ID ...]
cd "$(dirname "$0")/.." || exit 2
SEEDS="${1:-1}"; shift
IDS="$*"
[ -z "$IDS" ] && IDS="C01 C02 C03 C04 C05 C06 C07 C08 C09 C10 C11 C12 C13 C14 C15 C16 C17 C18 C19 C20 C21 C22 C23 C24 C25 C26 C27 C28 C29 C30 C31 C32 C33 C34"
for s in $SEEDS; do
  for c in $IDS; do
    out=$(VERIF_SEED=$s ./check $c 2>&1 | grep -v "^KNOWN"); rc=$?
    echo "seed=$s $c $(echo "$out" | tail -1 | cut -c1-200)"
    echo "$out" | grep -B1 "^VIOLATION\|HARNESS" | cut -c1-900
  done
done
