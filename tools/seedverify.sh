#!/bin/sh
# Confirm a seeded change in its scratch worktree: suite passes with the change, demo PASS on /repo, FAIL on the changed tree.
# usage: tools/seedverify.sh <PROP> [seed-number] [worktree]   (worktree /tmp/seed_<PROP>, stored as seeded/S-<PROP>-<n>)
P="$1"; N="${2:-1}"; WT="${3:-/tmp/seed_$P}"; D="/verif/seeded/S-$P-$N"
cd "$WT" || exit 2
git -C "$WT" diff --quiet -- problog && { echo "no change applied in $WT"; exit 2; }
SUITE=$(cd "$WT" && PYTHONPATH="$WT" timeout 1800 /venv/bin/python -m pytest -q -p no:cacheprovider -n 6 problog/test 2>&1 | tail -1)
ORIG=$(cd "$D" && PYTHONPATH=/repo timeout 300 /venv/bin/python demo.py >/dev/null 2>&1; echo $?)
CHG=$(cd "$D" && PYTHONPATH="$WT" timeout 300 /venv/bin/python demo.py >/dev/null 2>&1; echo $?)
BASE=$(git -C "$WT" log --format=%h -1)
/venv/bin/python - "$D" "$SUITE" "$ORIG" "$CHG" "$BASE" <<'PY'
import json, sys, os
d, suite, orig, chg, base = sys.argv[1:6]
a = json.load(open(os.path.join(d, "meta_author.json")))
m = {"id": os.path.basename(d), "property": a.get("property"), "summary": a.get("summary"), "needs": a.get("needs"),
     "files": a.get("files"), "base_commit": base,
     "confirmed": {"suite_with_change": suite, "demo_exit_on_repo_head": int(orig), "demo_exit_on_changed_tree": int(chg)}}
old = {}
if os.path.exists(os.path.join(d, "meta.json")):
    old = json.load(open(os.path.join(d, "meta.json")))
m["detected_by"] = old.get("detected_by", {})
json.dump(m, open(os.path.join(d, "meta.json"), "w"), indent=1)
print(os.path.basename(d), suite, "demo orig rc", orig, "changed rc", chg)
PY
