#!/usr/bin/env python3
"""Regenerate MANIFEST.json from the table in tools/checks_table.py (keeps it schema-valid).
Usage: /venv/bin/python tools/mkmanifest.py   (validates with jsonschema when python3-vt is available)"""
import json
import os
import subprocess
import sys

ROOT = os.path.dirname(os.path.dirname(os.path.abspath(__file__)))
sys.path.insert(0, os.path.join(ROOT, "tools"))
import checks_table  # noqa

ALL = ["C%02d" % i for i in range(1, 35)]


def main():
    checks = []
    for pid in ALL:
        e = checks_table.CHECKS.get(pid)
        if e is None:
            continue
        checks.append({
            "property_id": pid,
            "quick_cmd": "./check %s --tier quick" % pid,
            "thorough_cmd": "./check %s --tier thorough" % pid,
            "evidence_file": "evidence/%s.json" % pid,
            "replay_cmd_template": "./check %s --replay {path}" % pid,
            "engine": "pbt",
            "level_claimed": {"category": e["level"], "text": e["text"], "design_ref": "DESIGN.md section 5, %s" % pid},
            "level_note": e["note"],
            "technique": e["technique"],
        })
    na = []
    for pid in ALL:
        if pid not in checks_table.CHECKS:
            na.append({"property_id": pid, "reason": checks_table.NOT_APPLICABLE.get(
                pid, "check not built yet in this tree; the property is not claimed")})
    man = {
        "version": 1,
        "setup_cmd": "./setup.sh",
        "hooks": {
            "guard": "ML_KULEUVEN_PROBLOG_VERIF",
            "enable": "no hooks in /repo: every check imports the working tree directly (PYTHONPATH=/repo, fresh process); "
                      "the C03 schedule permutation uses the documented init_message_stack extension point from the harness side",
            "baseline_off_cmd": "cd /repo && /venv/bin/python -m pytest -ra -q -p no:cacheprovider --timeout=900 --continue-on-collection-errors",
            "source_commits": [],
            "add_only": True,
        },
        "engines": [{"name": "pbt", "path": "pbt/", "serves_properties": [c["property_id"] for c in checks],
                     "kind_free_text": "Hypothesis strategies + bounded-exhaustive enumeration against reference models / "
                                       "metamorphic relations, sharded over 16 processes; atheris for the byte-level fuzz tiers"}],
        "checks": checks,
        "notes": checks_table.NOTES,
        "not_applicable": na,
    }
    path = os.path.join(ROOT, "MANIFEST.json")
    with open(path, "w") as f:
        json.dump(man, f, indent=1)
    code = ("import json,jsonschema,sys; jsonschema.validate(json.load(open(%r)), json.load(open('/root/.vp/MANIFEST.schema.json'))); print('MANIFEST valid: %d checks, %d not_applicable')"
            % (path, len(checks), len(na)))
    try:
        subprocess.check_call(["python3-vt", "-c", code])
    except FileNotFoundError:
        print("python3-vt not found; schema validation skipped")


if __name__ == "__main__":
    main()
