#!/bin/sh
# (Re)create a scratch worktree of /repo HEAD with a stored seeded change applied.
# usage: tools/seedtree.sh S-C07-1   -> /tmp/seedtree_S-C07-1     (remove with: git -C /repo worktree remove --force <dir>)
ID="$1"; D="/tmp/seedtree_$ID"
git -C /repo worktree add -q "$D" HEAD && git -C "$D" apply "/verif/seeded/$ID/patch.diff" && echo "$D"
