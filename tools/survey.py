#!/usr/bin/env python3
"""Run a sub-check over its enumeration (or N hypothesis examples) WITHOUT stopping at failures and print the
failure signature per case, bucketed.  usage: survey.py C04 corpus [n_examples] [seed]"""
import importlib, json, os, sys, collections
sys.path.insert(0, os.path.dirname(os.path.dirname(os.path.abspath(__file__))))
from multiprocessing import Pool

def run(args):
    pid, subname, case = args
    from pbt.core import worker, findings
    mod = importlib.import_module("pbt.props.%s" % pid.lower())
    sub = [s for s in mod.SUBCHECKS if s.name == subname][0]
    st = worker.ShardState()
    out, f, known = worker.run_case(mod, sub, case, sub.timeout["quick"], st, count=False)
    return case, (f.sig if f else None), (f.detail[:300] if f else None), known, out.inconclusive

def main():
    pid, subname = sys.argv[1], sys.argv[2]
    n = int(sys.argv[3]) if len(sys.argv) > 3 else 300
    seed = int(sys.argv[4]) if len(sys.argv) > 4 else 1
    mod = importlib.import_module("pbt.props.%s" % pid.lower())
    sub = [s for s in mod.SUBCHECKS if s.name == subname][0]
    if sub.enumerate is not None:
        cases = list(sub.enumerate("quick"))
    else:
        import hypothesis
        from hypothesis import given, settings, HealthCheck, Phase
        cases = []
        @hypothesis.seed(seed)
        @settings(max_examples=n, database=None, deadline=None, suppress_health_check=list(HealthCheck), phases=[Phase.generate])
        @given(sub.strategy())
        def t(c): cases.append(c)
        t()
    with Pool(14) as p:
        res = p.map(run, [(pid, subname, c) for c in cases], chunksize=1)
    buckets = collections.defaultdict(list)
    for case, sig, detail, known, inc in res:
        if inc: buckets["INCONCLUSIVE:" + inc].append(case)
        elif sig: buckets[("KNOWN[%s] " % known if known else "") + sig].append((case, detail))
    print("cases", len(cases))
    for k, v in sorted(buckets.items(), key=lambda kv: -len(kv[1])):
        print(len(v), k)
        for item in v[:int(os.environ.get("SHOW", "2"))]:
            print("    ", json.dumps(item)[:int(os.environ.get("WIDTH", "400"))])
main()
