#!/usr/bin/env python3
"""Print a replay/violation file in readable form."""
import json, sys, os
sys.path.insert(0, os.path.dirname(os.path.dirname(os.path.abspath(__file__))))
from pbt.ref import semantics as sem
for p in sys.argv[1:]:
    r = json.load(open(p))
    print("==", p, r.get("subcheck"))
    c = r["case"]
    if isinstance(c, dict) and "prog" in c:
        print(sem.render_program(c["prog"]))
        print({k: v for k, v in c.items() if k != "prog"})
    else:
        print(json.dumps(c))
    print("failure:", r.get("failure"))
