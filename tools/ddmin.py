#!/usr/bin/env python3
"""Statement-level minimisation of a program case, preserving the failure signature.
usage: PYTHONPATH=/repo:/verif /venv/bin/python tools/ddmin.py <violation.json> [out.json]"""
import importlib, json, os, sys
sys.path.insert(0, os.path.dirname(os.path.dirname(os.path.abspath(__file__))))
from pbt.core import worker
from pbt.ref import semantics as sem

def main():
    rec = json.load(open(sys.argv[1]))
    mod = importlib.import_module("pbt.props.%s" % rec["property"].lower())
    sub = [s for s in mod.SUBCHECKS if s.name == rec["subcheck"]][0]
    st = worker.ShardState()
    case = rec["case"]
    def fails(c):
        out, f, known = worker.run_case(mod, sub, c, 20, st, count=False)
        return f is not None and f.sig == rec["failure"]["sig"]
    assert fails(case), "does not reproduce"
    prog = list(case["prog"])
    changed = True
    while changed:
        changed = False
        for i in range(len(prog)):
            cand = prog[:i] + prog[i+1:]
            c2 = dict(case); c2["prog"] = cand
            if fails(c2):
                prog = cand; changed = True; break
        if changed: continue
        # shrink bodies / heads
        for i, s in enumerate(prog):
            if s[0] in ("rule", "ad") and len(s[2]) > 0:
                for j in range(len(s[2])):
                    s2 = [s[0], s[1], s[2][:j] + s[2][j+1:]]
                    if s[0] == "rule" and not s2[2]:
                        s2 = ["fact", s[1]]
                    cand = prog[:i] + [s2] + prog[i+1:]
                    c2 = dict(case); c2["prog"] = cand
                    try:
                        if fails(c2):
                            prog = cand; changed = True; break
                    except Exception:
                        pass
                if changed: break
            if s[0] == "ad" and len(s[1]) > 1:
                for j in range(len(s[1])):
                    s2 = ["ad", s[1][:j] + s[1][j+1:], s[2]]
                    cand = prog[:i] + [s2] + prog[i+1:]
                    c2 = dict(case); c2["prog"] = cand
                    try:
                        if fails(c2):
                            prog = cand; changed = True; break
                    except Exception:
                        pass
                if changed: break
    case = dict(case); case["prog"] = prog
    rec["case"] = case
    print(sem.render_program(prog))
    if len(sys.argv) > 2:
        json.dump(rec, open(sys.argv[2], "w"), indent=1)

main()
