#!/bin/sh
# Run checks against a tree other than /repo (a scratch worktree with a seeded change applied).
# usage: tools/seedrun.sh <tree> <ID> [pbt.run args...]
TREE="$1"; shift
HERE="$(cd "$(dirname "$0")/.." && pwd)"
cd "$HERE" || exit 2
PYTHONPATH="$TREE:$HERE:$HERE/.deps" PYTHONDONTWRITEBYTECODE=1 PYTHONHASHSEED=0 PYTHONWARNINGS=ignore \
  VERIF_EVIDENCE_DIR="$HERE/scratch/seed_evidence" exec /venv/bin/python -m pbt.run "$@"
