"""Table of claimed checks (source of MANIFEST.json; run tools/mkmanifest.py after editing)."""

NOTES = ("All checks: ./check <ID> [--tier quick|thorough]; seed from VERIF_SEED; exit 0/1/2 = held / VIOLATION / harness "
         "error. known_findings.json lists genuine defects (known / fixed); replay/<ID>/ holds committed regression "
         "inputs run before every search. Run-time counterexamples are written to violations/<ID>/.")

NOT_APPLICABLE = {}

CHECKS = {
 "C01": {
  "level": "exploration",
  "technique": "property-based testing: Hypothesis-generated programs vs an independent possible-world enumerator (exact rationals)",
  "text": "Thousands of generated programs per run in the stated fragment (facts, probabilistic facts, ADs, rules, stratified negation, "
          "positive recursion, ground/non-ground/negated queries, evidence) are evaluated by ProbLog and by an independent "
          "reference semantics; every reported probability, every unreported instance and the inconsistent-evidence verdict are compared.",
  "note": "Trusts pbt/ref/semantics.py as the distribution semantics; programs are small (<=3 constants, <=10/13 relevant choices); "
          "hangs are inconclusive; four listed engine defects (F-ENG-1..4) are excluded by (signature, case class) and counted.",
 },
 "C34": {
  "level": "exploration",
  "technique": "model-based property testing: Hypothesis operation histories vs reference container models, step-wise comparison",
  "text": "Random operation histories over OrderedSet, UHeap and BitVector are replayed against reference models with "
          "every observable compared after every step; thousands of histories per run, shrunk to a minimal history on failure.",
  "note": "Trusts the reference models (dict / set) and the harness's reading of 'first-insertion order'; '&' result order of OrderedSet is not compared.",
 },
}
