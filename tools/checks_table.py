"""Table of claimed checks (source of MANIFEST.json; run tools/mkmanifest.py after editing)."""

NOTES = ("All checks: ./check <ID> [--tier quick|thorough]; seed from VERIF_SEED; exit 0/1/2 = held / VIOLATION / harness "
         "error. known_findings.json lists genuine defects (known / fixed); replay/<ID>/ holds committed regression "
         "inputs run before every search. Run-time counterexamples are written to violations/<ID>/.")

NOT_APPLICABLE = {}

CHECKS = {
 "C21": {
  "level": "exploration",
  "technique": "property-based testing: generated decision-theoretic programs vs brute-force expected utility of every strategy (reference semantics); MAP vs brute force of its documented objective",
  "text": "Exhaustive search must return a strategy of maximal expected utility with the reported score equal to its EU; local search must return a strategy no single flip improves; MAP must return an evidence-consistent assignment maximising the documented objective with the reported score.",
  "note": "Decisions that alias other atoms, decision ADs with irrelevant heads and MAP's missing consistency check are listed findings (F-C21-4..9).",
 },
 "C31": {
  "level": "exploration",
  "technique": "property-based testing: generated acyclic programs, the exported Bayesian network multiplied out by an independent evaluator (exact rationals) vs ProbLog's and the reference's marginals",
  "text": "For every generated acyclic evidence-free program the network built by the bn task (run through bayesnet.main) must define a joint whose marginals on the exported query variables equal the query probabilities.",
  "note": "Networks are enumerated up to 2^16 assignments; aliased atoms (one node, several names) and unnamed body disjunctions are listed findings.",
 },
 "C13": {
  "level": "exploration",
  "technique": "property-based testing of generated deterministic Prolog programs against a reference SLD interpreter (ordered answers with duplicates) and a semi-naive least-model evaluator",
  "text": "Non-recursive programs: ProbLog's answer set equals SLD's and findall/3 returns SLD's list (order and duplicates); recursive Datalog: the answer set equals the least Herbrand model; first-argument indexing is targeted with interleaved ground / variable clause heads and repeated calls on one prepared database.",
  "note": "No SWI-Prolog in the sandbox: the two reference evaluators are the oracle (cross-checked against each other). findall's node-order reconstruction (F-C13-2/3) is a listed finding.",
 },
 "C17": {
  "level": "exploration",
  "technique": "token-level Hypothesis fuzzing + mutation of corpus/generated statements (and an atheris coverage-guided campaign in the thorough tier) for parser totality; AST print/parse round trip over the parser's operator table",
  "text": "Every generated or mutated text must parse or raise a ProbLogError; every term built from supported syntax must print to text that parses back to an equal term (probabilities compared explicitly).",
  "note": "Eight printer round-trip families are listed findings (a precedence-aware printer exists as an unapplied larger patch); Term.from_string's own ValueError for 0 or 2+ statements is treated as documented.",
 },
 "C19": {
  "level": "exploration",
  "technique": "property-based testing: generated findall/all programs over probabilistic goals vs per-world ordered solution lists computed by a reference SLD interpreter with exact world weights",
  "text": "For each generated program the probability of every reported result list must equal the total weight of the worlds whose ordered solution list (Prolog order, duplicates) is that list; all/3 excludes the empty list.",
  "note": "all/3 keeps one element per distinct answer substitution (documented behaviour, stated in ASSUMPTIONS); node-order findings shared with C13.",
 },
 "C20": {
  "level": "exploration",
  "technique": "property-based testing: generated programs with evidence vs brute-force MPE over all worlds; validity predicate (consistent with evidence, probability maximal within the MaxSAT quantisation), both MPE modes",
  "text": "The returned literals must extend to a world that satisfies the evidence, the probability of the reported assignment must be maximal among evidence-consistent assignments (tolerance derived from the weight quantisation; 1e-9 for the semiring mode) and equal the reported probability; unsatisfiable evidence must be reported as such.",
  "note": "The semiring mode is wrong on non-decomposable formulas and ADs (F-C20-3, a wide class: most non-trivial semiring cases are excluded for it).",
 },
 "C22": {
  "level": "exploration",
  "technique": "property-based testing with Hypothesis-drawn RNG seeds: per-sample validity against the reference worlds + Hoeffding test of frequencies (delta 1e-9) against the reference conditional probabilities",
  "text": "Each sample must be a world consistent with the evidence whose printed probability is the product of the choices made; query frequencies (and estimate) must lie within the Hoeffding bound of the reference conditional probability.",
  "note": "Statistical part detects gross errors only (n = 1500 quick / 10000 thorough samples per program).",
 },
 "C23": {
  "level": "exploration",
  "technique": "property-based testing: k-best bounds and explain proofs of generated evidence-free programs vs the reference probability",
  "text": "KBestFormula must return the reference probability or an interval containing it; explain's proofs must be mutually exclusive, carry their recomputed probability and sum to the reference probability of each query.",
  "note": "maxsatz costs ~0.4 s per call: small budgets. Queries that share a ground node are a listed finding for explain (F-C23-1).",
 },
 "C24": {
  "level": "exploration",
  "technique": "property-based testing: generated learnable programs and datasets sampled from the reference distribution; EM invariants (monotone log-likelihood, valid parameters, AD sums) and closed-form complete-data MLE",
  "text": "LFIProblem.prepare()/step() is driven k times: the log-likelihood sequence must not decrease, every weight must be a probability, AD weights must sum to <= 1, and with complete observations one step must give the relative frequencies.",
  "note": "Monotonicity without normalisation for learnable ADs (F-C24-1) and ADs mixing fixed and tunable heads (F-C24-3) are listed findings.",
 },
 "C27": {
  "level": "exploration",
  "technique": "property-based fuzzing: every registered builtin with generated argument shapes, ill-formed probabilistic constructs and token-level fuzzed programs through full inference; outcome must be results or a ProbLogError",
  "text": "Any program text run through inference must return results or raise a ProbLogError subclass; internal Python exceptions are failures bucketed by call site.",
  "note": "Resource exhaustion is inconclusive. 27 crash sites were repaired; the state builtins' AssertionError after the import repair is a listed finding.",
 },
 "C09": {
  "level": "translation_validation",
  "technique": "translation validation of every cycle-breaking / Clark-completion instance from generated programs, exhaustively over all atom assignments (bitmask truth tables, least-model semantics of the cyclic formula)",
  "text": "For each ground program the engine produces (with and without evidence propagation) every query/evidence node of the LogicDAG must have the least-model truth table of the cyclic LogicFormula; the CNF's definitional clauses must have exactly one extension per atom assignment, equal to the DAG's values; constraint clauses, weights and names must be carried over.",
  "note": "Exhaustive per instance up to 14 atoms / 150 nodes (larger instances counted as oversize); with evidence propagation query tables are compared on the assignments where the evidence holds.",
 },
 "C10": {
  "level": "translation_validation",
  "technique": "translation validation of every d-DNNF compiled by the bundled dsharp from generated CNFs: node-by-node decomposability/determinism/smoothness + truth-table equivalence with the CNF",
  "text": "Every compiled circuit is checked node by node (AND children share no variables, OR children have disjoint truth tables and the same variables) and its root table must equal the CNF's over all variables (<= 18 exhaustive, sampled beyond); labels, weights and constraints must be carried over.",
  "note": "Trusts the harness's own truth-table evaluator; compilation instances above 120 formula nodes are skipped and counted.",
 },
 "C11": {
  "level": "exploration",
  "technique": "model-based property testing: bounded-exhaustive and Hypothesis histories of builder calls vs a symbolic Boolean model (bitmask truth tables, least fixpoint for positive cycles)",
  "text": "Histories of add_atom/add_and/add_or/add_disjunct/negate/add_name under drawn builder options; after every step every key returned so far must still denote its modelled Boolean function in the real node table. All call sequences of length <= 3 (quick) / 4 (thorough) over two atoms are enumerated.",
  "note": "Deterministic atoms under keep_all / folded 0-1 weights are compared only on the worlds where they take their deterministic value.",
 },
 "C26": {
  "level": "exploration",
  "technique": "property-based testing: generated programs with a deterministic subquery/2,3 wrapper vs the reference conditional probability (and ProbLog's own top-level inference)",
  "text": "A wrapper w(Args,P) :- subquery(Goal,P[,EvidenceList]) is added to generated programs; every answer must have probability 1 and bind P to the reference (conditional) probability of the goal instance; every instance with positive probability must be answered. Sub-check sequence: 2-4 subqueries (with and without evidence lists) in one grounding, each compared with the reference value of its own goal under its own evidence.",
  "note": "Reference semantics for the expected value; program-level evidence statements are removed (the statement relates subquery/3 to its own evidence list).",
 },
 "C29": {
  "level": "exploration",
  "technique": "model-based property testing over histories of extend / add-clause / query on parent and child databases vs preparing the union from scratch",
  "text": "Histories of extend(), += fact/probabilistic fact/rule/AD on extensions (new and parent-defined predicates) and interleaved queries on parents and children; every query must equal the same query on a from-scratch preparation of the base plus the clauses added along the chain.",
  "note": "A database is treated as frozen once it has been extended; each query uses a fresh engine (an engine that raised keeps a dirty stack, which is outside this property).",
 },
 "C30": {
  "level": "exploration",
  "technique": "property-based testing: generated programs with probabilities inside/on/outside [0,1] (literals, arithmetic, flexible) and AD sums around 1; accept/reject classification oracle",
  "text": "Programs whose relevant annotations are invalid must raise InvalidValue under the probability and log-probability semirings; programs with valid annotations only must not.",
  "note": "Relevance is computed syntactically on a restricted program shape; over-full ADs that are only partially grounded are a listed finding (F-C30-1).",
 },
 "C32": {
  "level": "exploration",
  "technique": "property-based testing against the closed-form distribution (exact rationals) of select_weighted/4,5 and select_uniform/4, single and joint selections",
  "text": "For random lists (with equal elements), weights and identifiers the reported distribution over (element, rest) must be w_i/sum(w) per position with the rest list in order; two selections with the same identifier must coincide, with different identifiers be independent.",
  "note": "Closed form with exact rationals, tolerance 1e-9.",
 },
 "C08": {
  "level": "exploration",
  "technique": "model-based property testing over call histories: shared target / shared prepared database vs fresh single-query grounding",
  "text": "Operation histories (ground query, ground evidence +/-, engine.query, fresh target) over one prepared ClauseDB and one shared target; after every step each query's probabilities must equal those of grounding it alone with the same evidence. Steps may use a new engine instance on the same database and target; sub-check collect-wrappers grounds two all/3 | findall/3 wrapper clauses through different engine instances.",
  "note": "Differential between two uses of the same engine code; probability mode.",
 },
 "C14": {
  "level": "exploration",
  "technique": "bounded-exhaustive enumeration of term pairs + Hypothesis terms against a reference Robinson unifier (=/2, \\=/2, clause-head resolution, two call levels)",
  "text": "Every pair of terms up to size 5 over a small signature (sampled in the quick tier, exhaustive in thorough) is unified by =/2, refuted by \\=/2 and resolved against clause heads; answers must be the mgu instance modulo renaming, non-unifiable pairs must fail, occurs-check pairs must fail or raise.",
  "note": "Five listed findings (F-C14-1..5) are excluded by (signature, class computed by the reference unifier).",
 },
 "C18": {
  "level": "exploration",
  "technique": "bounded-exhaustive enumeration of term pairs/triples built with the public constructors and the parser: equivalence laws, hash consistency, equality vs engine unification",
  "text": "All pairs of a 716-term universe (and sampled triples): == reflexive/symmetric/transitive, equal terms hash equally and collide as dict keys, ground terms are equal iff they unify in the engine.",
  "note": "Seven listed design-level findings (F-C18-1..7) excluded by (signature, class computed from the construction recipes).",
 },
 "C25": {
  "level": "translation_validation",
  "technique": "translation validation of every export instance: to_prolog() re-parsed and re-evaluated, DIMACS re-read and compared by model tables",
  "text": "For each generated program the ground program is exported as the ground task does (LogicFormula and LogicDAG routes), re-evaluated and compared with the original; CNF.to_dimacs() is re-read by an independent reader and must have the internal CNF's models.",
  "note": "Re-evaluation uses ProbLog itself; the LogicDAG export of recursive programs with ADs is a listed finding (F-C25-3).",
 },
 "C05": {
  "level": "exploration",
  "technique": "property-based differential testing: every available back end x {prob, logprob, harness-defined, NSP, symbolic} semiring vs the default configuration and the reference semantics",
  "text": "Generated programs are evaluated by every evaluatable that is available at run time under five semirings (the symbolic expression is evaluated numerically); all must agree with the default, which is anchored to the independent reference.",
  "note": "PARTIAL: PySDD/dd are not installed, so sdd/sddx/fsdd/bdd/fbdd cannot run in this sandbox; only the d-DNNF route (default and 'ddnnf') is exercised. The check discovers back ends dynamically and lists the ones that ran.",
 },
 "C12": {
  "level": "exploration",
  "technique": "bounded-exhaustive grid + Hypothesis floats against the semiring laws, the log/probability homomorphism, numeric evaluation of symbolic expressions and the documented base-class defaults",
  "text": "Commutativity, associativity, identities, annihilation, distributivity on a grid of probabilities (exhaustive triples) and random floats; log-probability as the logarithmic image of probability for plus/times/negate/normalize/value/ad_complement; symbolic expressions evaluated numerically; Semiring base defaults through minimal subclasses.",
  "note": "Float tolerance 1e-9 abs+rel, respecting the code's documented thresholds (value < 1e-9 -> zero).",
 },
 "C16": {
  "level": "exploration",
  "technique": "bounded-exhaustive enumeration of documented arithmetic functions/operators and builtin call modes + Hypothesis expression trees against a reference returning the set of results admissible in SWI-Prolog 9 / Yap 6",
  "text": "Every documented function over small ints / selected floats (all argument pairs), comparisons, and every supported mode of between/succ/plus/length/functor/arg/=../atom_number and the type tests are compared with a reference that admits both SWI and Yap where they differ; raw Python exceptions and complex results are failures.",
  "note": "No SWI/Yap binary in the sandbox: the reference is a transcription of their documented semantics; everything uncertain is listed in UNCHECKED and not asserted. is_list on partial lists is a listed finding (pinned test expects it).",
 },
 "C28": {
  "level": "exploration",
  "technique": "round-trip property testing (pl2py . py2pl = id) over enumerated and Hypothesis values + differential check of problog_export functions called from generated programs",
  "text": "Nested lists/tuples (length != 1) of ints, floats and strings incl. quotes go through py2pl/pl2py and must come back identical (types included); generated exported Python functions called via use_module must be seen from ProbLog as returning py2pl of their result.",
  "note": "For -str outputs the atom whose name is the Python string is accepted as well as py2pl's string constant (what the repository's own extern test expects). Float rounding to 15 decimals and tuple-in-tail flattening are listed findings.",
 },
 "C02": {
  "level": "exploration",
  "technique": "property-based testing: generated programs with cycles through negation, 3-way classification by a reference well-founded semantics",
  "text": "Generated programs with negation inside recursive SCCs are classified by the reference (must-reject / must-answer / either) from "
          "the well-founded model of every world; ProbLog must raise a GroundingError, answer with the reference numbers, or either.",
  "note": "Trusts the reference WFS (alternating fixpoint over world bitmasks); must-reject is conservative; listed engine defects F-ENG-1..5 are excluded by (signature, class).",
 },
 "C03": {
  "level": "exploration",
  "technique": "property-based testing over schedules: seeded permutation of sibling eval-message batches, differential vs the unpermuted run",
  "text": "For each generated program several Hypothesis-drawn schedule seeds permute every all-'e' message batch of the buffered engine "
          "(through the documented init_message_stack extension point); probabilities, reported instances and error class must equal the unpermuted run.",
  "note": "Differential between two runs of the real engine; the permutation acts where the engine pushes sibling goals. Order-dependent NegativeCycle/AssertionError (F-ENG-1/2) are listed findings.",
 },
 "C04": {
  "level": "exploration",
  "technique": "property-based differential testing: unbuffered / rc-first / seeded random-order engines vs the default engine, plus the repository corpus",
  "text": "Generated programs and every test/*.pl file are evaluated with the unbuffered, rc-first and documented random-order engines and compared with the default engine (instance mode, lists as multisets).",
  "note": "The unbuffered modes are broken for recursive programs on the unchanged tree (F-UNB-1, about 3.5% of generated programs) and on 7 corpus files (F-UNB-2); those classes are excluded for accept/reject mismatches only.",
 },
 "C06": {
  "level": "exploration",
  "technique": "metamorphic property-based testing: option sets and evidence-syntax rewrites vs the run without options",
  "text": "Each generated program is evaluated under several drawn option sets (propagate_evidence, propagate_weights, label_all, avoid_name_clash, keep_order, keep_all, "
          "keep_duplicates, hide_builtins, logspace, evidence syntax) and must give the same probabilities and accept/reject decision; keep_all is additionally checked on its documented route (ground, export, re-evaluate).",
  "note": "Probability mode (zero entries dropped). Direct evaluation of keep_all formulas is a listed finding (F-OPT-1).",
 },
 "C07": {
  "level": "exploration",
  "technique": "metamorphic property-based testing: permuted statements and rule bodies vs the original text",
  "text": "Statement order and body-literal order (negative literals kept after their binders) of generated programs are permuted; probabilities, reported instances and accept/reject must not change.",
  "note": "Metamorphic between two runs of the real code; engine findings F-ENG-1..4 excluded by (signature, class).",
 },
 "C15": {
  "level": "exploration",
  "technique": "bounded-exhaustive enumeration of term pairs/triples + Hypothesis lists against a reference standard-order comparator and order laws",
  "text": "All ordered pairs of a 237-term universe through the 7 comparison builtins and compare/3 against the reference order; all triples of a 51-term universe for "
          "totality/antisymmetry/transitivity; enumerated and random lists through sort/2.",
  "note": "Reference comparator is a transcription of the ISO/SWI standard order (no SWI binary in the sandbox); strings excluded; quoted-atom findings F-C15-3/4 excluded by class.",
 },
 "C33": {
  "level": "exploration",
  "technique": "property-based testing: generated indexed rule sets vs the first-applicable-rule reference (numeric index order)",
  "text": "Rule sets r(I,...) with indices 1..15 in shuffled file order, applicability by head constants and body tests; cut/1 and cut/2 must give the answers (and index) of the applicable rule with the smallest index.",
  "note": "'answers of rule I' are taken from the direct call r(I,Args) in the same program; clause/2 crash on repeated call variables is a listed finding (F-C33-1).",
 },
 "C01": {
  "level": "exploration",
  "technique": "property-based testing: Hypothesis-generated programs vs an independent possible-world enumerator (exact rationals)",
  "text": "Thousands of generated programs per run in the stated fragment (facts, probabilistic facts, ADs, rules, stratified negation, "
          "positive recursion, ground/non-ground/negated queries, evidence) are evaluated by ProbLog and by an independent "
          "reference semantics; every reported probability, every unreported instance and the inconsistent-evidence verdict are compared.",
  "note": "Trusts pbt/ref/semantics.py as the distribution semantics; programs are small (<=3 constants, <=10/13 relevant choices); "
          "hangs are inconclusive; four listed engine defects (F-ENG-1..4) are excluded by (signature, case class) and counted.",
 },
 "C34": {
  "level": "exploration",
  "technique": "model-based property testing: Hypothesis operation histories vs reference container models, step-wise comparison",
  "text": "Random operation histories over OrderedSet, UHeap and BitVector are replayed against reference models with "
          "every observable compared after every step; thousands of histories per run, shrunk to a minimal history on failure.",
  "note": "Trusts the reference models (dict / set) and the harness's reading of 'first-insertion order'; '&' result order of OrderedSet is not compared.",
 },
}
