"""C33 - the soft-cut library (problog/library/cut.pl) picks the applicable rule with the smallest index.

Generated programs: an indexed rule set r(I, A1..Ak) (the index is the first argument of the head, as documented in
docs/source/prolog.rst), rules written in shuffled file order, applicability decided by head constants, repeated
head variables and body tests, called as cut(r(Args)) and cut(r(Args), I).

Oracle: "the answers of rule I" are the answers of the direct call r(I, Args) in the same program (so that engine
defects unrelated to the cut library cannot raise a false alarm); the rules are tried in NUMERIC index order, the
first one with at least one answer is the applicable rule; cut/1 must return exactly its answers, cut/2 the same
answers each paired with that index; when no rule has an answer both fail.  An independent reference interpreter
for the small rule language (unification over constants/variables, left-to-right conjunction) computes the same
thing without ProbLog: it decides non-triviality, the features and the known-finding classes, and its agreement
with the direct calls is recorded per case (outcome class direct-call-agrees/differs-from-reference).

Failure.sig = 'cut-mismatch:<cause>' with cause
  index-string-order  ProbLog's answers are those of the rule chosen when the indices are ordered as strings
                      (10 before 2) - the root cause shared with C15 (sort/2 on unequal numbers)
  other               anything else
"""
import warnings

from hypothesis import strategies as st

from pbt.core.api import Failure, Outcome, SubCheck
from pbt.core import plrun

PROPERTY_ID = "C33"
LEVEL = "exploration"
RULE = ("Hypothesis-generated deterministic programs: 2-7 rules r(I, A1..Ak), k in 1..3, pairwise distinct indices "
        "drawn from 1..15 and listed in the drawn (shuffled) file order; head arguments are constants a/b/c or "
        "variables X/Y (repeats allowed); bodies are 0-3 literals from V = t, V \\= t, d(V) (d = {a,b,c}), e(V,W) "
        "(a fixed binary relation), true, fail over the head variables, one extra variable and constants; the "
        "call's arguments are constants or variables Q0/Q1 (repeats allowed). A second sub-check enumerates all "
        "assignments of 3 fixed rule shapes to ordered index triples from {1,2,3,9,10,11,15}. Both cut(r(Args)) "
        "and cut(r(Args), I) are queried and compared with the direct calls r(I, Args). Non-trivial: (at least two "
        "rules are applicable (have an answer for the call), or the applicable rule of smallest index is preceded "
        "in index order by a rule whose head unifies with the call but whose body fails) and the direct calls "
        "agree with the reference interpreter. Distinct = distinct program + call.")
ASSUMPTIONS = ["a rule is 'applicable' iff the direct call r(I, Args) has at least one answer; ProbLog's answers of the "
               "direct calls are trusted as the answers of the rules (cases where they differ from the reference "
               "interpreter of this module are counted, not failed, and are not counted as non-trivial)",
               "indices are pairwise distinct, so 'the rule with the smallest index' is unique",
               "cut/2 is only called with an unbound index (the documented use)",
               "answers are compared as sets, non-ground answers up to variable renaming"]

CONSTS = ["a", "b", "c"]
D_FACTS = ["a", "b", "c"]
E_FACTS = [("a", "b"), ("b", "c"), ("c", "c"), ("a", "a")]


# ------------------------------------------------------------------------------------------------ rendering

def _t(t):
    return str(t[1])


def _lit(l):
    op = l[0]
    if op in ("=", "\\="):
        return "%s %s %s" % (_t(l[1]), op, _t(l[2]))
    if op == "d":
        return "d(%s)" % _t(l[1])
    if op == "e":
        return "e(%s,%s)" % (_t(l[1]), _t(l[2]))
    if op in ("true", "fail"):
        return op
    raise ValueError(l)


def call_vars(case):
    out = []
    for t in case["call"]:
        if t[0] == "v" and t[1] not in out:
            out.append(t[1])
    return out


def render(case):
    lines = [":- use_module(library(cut))."]
    lines += ["d(%s)." % c for c in D_FACTS]
    lines += ["e(%s,%s)." % p for p in E_FACTS]
    for r in case["rules"]:
        head = "r(%s)" % ",".join([str(r["idx"])] + [_t(t) for t in r["head"]])
        if r["body"]:
            lines.append("%s :- %s." % (head, ", ".join(_lit(l) for l in r["body"])))
        else:
            lines.append(head + ".")
    qv = call_vars(case)
    call = "r(%s)" % ",".join(_t(t) for t in case["call"])
    lines.append("q0(%s) :- r(%s)." % (",".join(["I"] + qv), ",".join(["I"] + [_t(t) for t in case["call"]])))
    lines.append("%s :- cut(%s)." % ("q1(%s)" % ",".join(qv) if qv else "q1", call))
    lines.append("q2(%s) :- cut(%s, I)." % (",".join(["I"] + qv), call))
    return "\n".join(lines) + "\n"


# ------------------------------------------------------------------------------------------------ reference

def _walk(t, s):
    while t[0] == "v" and t[1] in s:
        t = s[t[1]]
    return t


def _unify(x, y, s):
    x, y = _walk(x, s), _walk(y, s)
    if x[0] == "v":
        if y[0] == "v" and y[1] == x[1]:
            return s
        s2 = dict(s)
        s2[x[1]] = y
        return s2
    if y[0] == "v":
        s2 = dict(s)
        s2[y[1]] = x
        return s2
    return s if (x[0] == y[0] and x[1] == y[1]) else None


def _solve(lits, s):
    if not lits:
        yield s
        return
    l, rest = lits[0], lits[1:]
    op = l[0]
    if op == "true":
        nexts = [s]
    elif op == "fail":
        nexts = []
    elif op == "=":
        s2 = _unify(l[1], l[2], s)
        nexts = [] if s2 is None else [s2]
    elif op == "\\=":
        nexts = [s] if _unify(l[1], l[2], s) is None else []
    elif op == "d":
        nexts = [s2 for s2 in (_unify(l[1], ["a", c], s) for c in D_FACTS) if s2 is not None]
    elif op == "e":
        nexts = []
        for x, y in E_FACTS:
            s2 = _unify(l[1], ["a", x], s)
            if s2 is not None:
                s2 = _unify(l[2], ["a", y], s2)
            if s2 is not None:
                nexts.append(s2)
    else:
        raise ValueError(l)
    for s2 in nexts:
        for s3 in _solve(rest, s2):
            yield s3


def _rename(t, prefix):
    return ["v", prefix + t[1]] if t[0] == "v" else t


def _head_subst(rule, call):
    """Substitution after unifying the call with the (renamed) head, or None."""
    s = {}
    for h, c in zip(rule["head"], call):
        s = _unify(_rename(h, "R_"), c, s)
        if s is None:
            return None
    return s


def _canon(values):
    """Tuple of printable values with variables renamed in order of first occurrence."""
    names = {}
    out = []
    for v in values:
        if v[0] == "v":
            out.append(names.setdefault(v[1], "_%d" % len(names)))
        else:
            out.append(str(v[1]))
    return tuple(out)


def rule_answers(rule, case):
    """Set of canonical answers (values of the call's distinct variables) of one rule for the call."""
    s = _head_subst(rule, case["call"])
    if s is None:
        return None  # head does not unify
    body = [[l[0]] + [_rename(t, "R_") for t in l[1:]] for l in rule["body"]]
    qv = call_vars(case)
    out = set()
    for s2 in _solve(body, s):
        out.add(_canon([_resolve(["v", v], s2) for v in qv]))
    return out


def _resolve(t, s):
    return _walk(t, s)


def reference(case, key=None):
    """(index, answers) of the applicable rule that comes first when the indices are ordered by `key`
    (default numeric), or (None, empty set).  Also returns per-rule information."""
    info = {}
    for r in case["rules"]:
        info[r["idx"]] = rule_answers(r, case)
    order = sorted(info, key=key)
    for idx in order:
        if info[idx]:
            return idx, info[idx], info
    return None, set(), info


# ------------------------------------------------------------------------------------------------ check

def _pl_value(v, names):
    from problog.logic import Constant, Term, Var

    if v is None or isinstance(v, int):
        return names.setdefault(("i", v), "_%d" % len(names))
    if isinstance(v, Var):
        return names.setdefault(("n", v.name), "_%d" % len(names))
    if isinstance(v, Constant):
        return str(v.functor)
    if isinstance(v, Term) and v.arity == 0:
        return str(v.functor)
    raise ValueError("unexpected answer value %r" % (v,))


def _pl_answers(results):
    out = []
    for r in results:
        names = {}
        out.append(tuple(_pl_value(v, names) for v in r))
    return out


def class_index_string_order(case, failure=None):
    """Ordering the indices of the rules whose head unifies with the call as decimal STRINGS selects a different
    applicable rule than ordering them as numbers (e.g. rules 2 and 10 both applicable)."""
    num = reference(case)
    strg = reference(case, key=_string_key)
    return num[0] != strg[0]


def _string_key(idx):
    return str(idx)


def class_repeated_call_var_distinct_head_vars(case, failure=None):
    """The call repeats an unbound variable at two argument positions where the head of some rule that unifies
    with the call has two DISTINCT variables (cut(r(Q,Q)) with r(1,X,Z)): clause/2, which cut.pl uses to collect
    the indices, raises TypeError on that combination."""
    call = case["call"]
    for r in case["rules"]:
        head = r["head"]
        if _head_subst(r, call) is None:
            continue
        for i in range(len(call)):
            for j in range(i + 1, len(call)):
                if call[i][0] == "v" and call[i] == call[j] and head[i][0] == "v" and head[j][0] == "v" \
                        and head[i] != head[j]:
                    return True
    return False


KNOWN_CLASSES = {"index_string_order": class_index_string_order,
                 "repeated_call_var_distinct_head_vars": class_repeated_call_var_distinct_head_vars}


def _pick(per_rule, key=None):
    """(index, answers) of the first rule with answers when the indices are ordered by key (default numeric)."""
    for idx in sorted(per_rule, key=key):
        if per_rule[idx]:
            return idx, per_rule[idx]
    return None, set()


def check(case):
    from problog.program import PrologString
    from problog.engine import DefaultEngine
    from problog.logic import Term

    ref_idx, ref_answers, info = reference(case)
    matching = sorted(i for i in info if info[i] is not None)
    applicable = sorted(i for i in info if info[i])
    fallthrough = ref_idx is not None and any(i < ref_idx for i in matching)
    nontrivial = len(applicable) >= 2 or fallthrough
    qv = call_vars(case)
    feats = ["arity:%d" % len(case["call"]), "rules:%d" % len(case["rules"]),
             "applicable:%s" % (len(applicable) if len(applicable) < 3 else "3+"),
             "call-vars:%d" % len(qv)]
    if fallthrough:
        feats.append("fallthrough")
    if ref_idx is None:
        feats.append("no-applicable-rule")
    if len(ref_answers) > 1:
        feats.append("multi-answer")
    if any(v.startswith("_") for a in ref_answers for v in a):
        feats.append("nonground-answer")
    if ref_idx is not None and ref_idx >= 10:
        feats.append("picked-two-digit")
    if class_index_string_order(case):
        feats.append("string-order-differs")
    if len(qv) < sum(1 for t in case["call"] if t[0] == "v"):
        feats.append("repeated-call-var")
    file_first = [r["idx"] for r in case["rules"] if info[r["idx"]]]
    if file_first and file_first[0] != ref_idx:
        feats.append("file-order-differs")
    src = render(case)
    plrun.reset_state()
    try:
        with warnings.catch_warnings():
            warnings.simplefilter("ignore")
            with plrun.captured_output():
                eng = DefaultEngine()
                db = eng.prepare(PrologString(src))
                # the rules called directly: what "the answers of rule I" are for this engine
                try:
                    direct = eng.query(db, Term("q0", *([None] * (len(qv) + 1))))
                except plrun.RESOURCE_ERRORS:
                    raise
                except Exception as exc:
                    return Outcome(inconclusive="direct-call-raises:%s" % type(exc).__name__, features=feats)
                got1 = _pl_answers(eng.query(db, Term("q1", *([None] * len(qv)))))
                got2 = _pl_answers(eng.query(db, Term("q2", *([None] * (len(qv) + 1)))))
    except plrun.RESOURCE_ERRORS as exc:
        return Outcome(inconclusive=type(exc).__name__, features=feats)
    except Exception as exc:
        kind = "error" if plrun.is_problog_error(exc) else "crash"
        return Outcome(nontrivial=nontrivial, features=feats, sample=src, failure=Failure(
            kind, "program\n%s\nraised %r" % (src, exc), sig="%s:%s" % (kind, plrun.exc_signature(exc))))
    per_rule = dict((r["idx"], set()) for r in case["rules"])
    try:
        for r in direct:
            per_rule[int(r[0])].add(_pl_answers([r[1:]])[0])
    except (KeyError, TypeError, ValueError) as exc:
        return Outcome(inconclusive="direct-call-unreadable", features=feats)
    classes = []
    agrees = all(per_rule[i] == (info[i] or set()) for i in per_rule)
    classes.append("direct-call-agrees-with-reference" if agrees else "direct-call-differs-from-reference")
    exp_idx, exp_answers = _pick(per_rule)
    exp1 = sorted(exp_answers)
    exp2 = sorted((str(exp_idx),) + a for a in exp_answers)
    # in q2 the index is the first value and is bound in a correct answer, so variable numbering is unaffected
    g1, g2 = sorted(set(got1)), sorted(set(got2))
    ok1, ok2 = g1 == exp1, g2 == exp2
    failure = None
    if not (ok1 and ok2):
        s_idx, s_answers = _pick(per_rule, key=_string_key)
        s1 = sorted(s_answers)
        s2 = sorted((str(s_idx),) + a for a in s_answers)
        cause = "other"
        if s_idx != exp_idx and (ok1 or g1 == s1) and (ok2 or g2 == s2):
            cause = "index-string-order"
        failure = Failure(
            "cut-mismatch",
            "program\n%s\nanswers of the rules called directly: %s\n"
            "cut/1: expected the answers of rule %s = %s, got %s\ncut/2: expected %s, got %s"
            % (src, dict((i, sorted(per_rule[i])) for i in sorted(per_rule)), exp_idx, exp1, g1, exp2, g2),
            sig="cut-mismatch:" + cause)
    classes.append("cut-fails" if exp_idx is None else "cut-succeeds")
    return Outcome(nontrivial=nontrivial and agrees, features=feats, failure=failure, classes=classes, sample=src)


# ------------------------------------------------------------------------------------------------ generators

def _const():
    return st.sampled_from(CONSTS).map(lambda c: ["a", c])


def _var(names):
    return st.sampled_from(names).map(lambda n: ["v", n])


def _rule_strategy(k):
    hv = ["X", "Y"]
    term = st.one_of(_const(), _var(hv + ["Z"]))
    vterm = _var(hv + ["Z"])
    lit = st.one_of(
        st.tuples(st.just("="), vterm, term),
        st.tuples(st.just("="), vterm, _const()),
        st.tuples(st.just("\\="), vterm, _const()),
        st.tuples(st.just("\\="), vterm, term),
        st.tuples(st.just("d"), vterm),
        st.tuples(st.just("e"), term, term),
        st.tuples(st.just("true")),
        st.tuples(st.just("fail")),
    ).map(list)
    head = st.lists(st.one_of(_const(), _const(), _var(hv)), min_size=k, max_size=k)
    body = st.lists(lit, min_size=0, max_size=3)
    return st.tuples(head, body)


def _strategy():
    def build(k):
        idxs = st.lists(st.integers(1, 15), min_size=2, max_size=7, unique=True)
        call = st.lists(st.one_of(_const(), _var(["Q0", "Q1"])), min_size=k, max_size=k)

        def with_idx(ix):
            return st.tuples(st.just(ix), st.lists(_rule_strategy(k), min_size=len(ix), max_size=len(ix)), call)

        return idxs.flatmap(with_idx).map(lambda t: {
            "rules": [{"idx": i, "head": hb[0], "body": hb[1]} for i, hb in zip(t[0], t[1])],
            "call": t[2]})

    return st.integers(1, 3).flatmap(build)


# bounded-exhaustive: three rule shapes (always applicable / applicable for b only / applicable through a body
# test), every ordered assignment of three distinct indices from a set with one- and two-digit numbers, every file
# order, three calls
_SHAPES = [
    {"head": [["v", "X"], ["a", "a"]], "body": []},
    {"head": [["a", "b"], ["v", "Y"]], "body": [["=", ["v", "Y"], ["a", "b"]]]},
    {"head": [["v", "X"], ["v", "Y"]], "body": [["d", ["v", "X"]], ["\\=", ["v", "X"], ["a", "a"]],
                                                  ["=", ["v", "Y"], ["a", "c"]]]},
]
_ENUM_IDX = [1, 2, 3, 9, 10, 11, 15]
_ENUM_CALLS = [[["v", "Q0"], ["v", "Q1"]], [["a", "b"], ["v", "Q0"]], [["a", "a"], ["v", "Q0"]]]


def _enumerate(tier):
    import itertools

    for idx in itertools.permutations(_ENUM_IDX, 3):
        for order in itertools.permutations(range(3)):
            if tier == "quick" and order not in ((0, 1, 2), (2, 1, 0), (1, 2, 0)):
                continue
            for call in _ENUM_CALLS:
                rules = [{"idx": idx[j], "head": _SHAPES[j]["head"], "body": _SHAPES[j]["body"]} for j in order]
                yield {"rules": rules, "call": call}


SUBCHECKS = [
    SubCheck("generated", check, strategy=_strategy, render=render,
             budget={"quick": 2500, "thorough": 60000}, timeout={"quick": 10, "thorough": 20}),
    SubCheck("shapes", check, enumerate=_enumerate, render=render, exhaustive_tiers=("thorough",),
             timeout={"quick": 10, "thorough": 20},
             exhaustive="3 fixed rule shapes x every ordered triple of distinct indices from {1,2,3,9,10,11,15} x "
                        "file orders (quick: 3 of 6) x 3 calls"),
]
