"""C18 - term equality is an equivalence consistent with hashing (problog/logic.py).

A case is a pair / triple of *recipes*: JSON descriptions of how a term is built with the public constructors or
obtained from the parser.  check() builds the terms and tests reflexivity, symmetry, transitivity, hash and
dict-key agreement and, for ground terms the engine accepts, `a == b  <=>  a = b succeeds`."""
import itertools
import os

from hypothesis import strategies as st

from pbt.core.api import Failure, Outcome, SubCheck
from pbt.core import plrun

PROPERTY_ID = "C18"
LEVEL = "exploration"
RULE = ("Terms are described by recipes (Term(functor,*args), Constant(value), Var(name), Not(functor,child), "
        "And, Or, Clause, list2term / '.'-chains, raw int / None engine variables as arguments, or text handed to "
        "the parser). The bounded-exhaustive universe (716 recipes) takes 75 abstract terms (atoms a, b, 'q a', []; 1, 1.0, -1, "
        "0.0, -0.0; \"a\"; variables A, B, _; atom '1'; f/1, g/2 over them; \\+/not; conjunction, disjunction, "
        "clause; lists with and without tail; two levels of nesting) and builds each in every way the API offers "
        "(plain / quoted functor, Constant vs Term, Var vs Term vs Constant, Not('\\+') / Not('not') / Term('\\+'), And vs "
        "Term(','), list2term vs '.'-chain, parsed text vs constructed; argument style varied uniformly). "
        "Sub-check pairs: all ordered pairs of the universe (quick: seed-dependent sample) plus Hypothesis pairs of "
        "two random concretisations of one random abstract term of depth <= 4 (or of two different ones). Sub-check "
        "triples: every ordered triple inside each cluster of same-shape recipes (shape = text with quotes, "
        "constructor kinds and number formatting erased), a sample of arbitrary triples, and Hypothesis triples. "
        "Non-trivial pair: two different recipes of the same shape, or a pair that compares equal; non-trivial "
        "triple: a == b and b == c hold with at least two different recipes. The unification clause is evaluated "
        "with engine_unify.unify_value on every ground engine-valid pair and additionally through the engine "
        "(t :- A = B) on same-shape / equal / unifying pairs and a 1-in-16 sample of the others. Distinct = distinct "
        "recipes.")
ASSUMPTIONS = [
    "a term is 'valid for the engine' when it is ground and built only from Term with a str functor, Constant with "
    "int / float / double-quoted-string value, Not, And, Or, Clause, lists (no Var, no Constant holding an unquoted "
    "string, no Term whose functor is an unquoted capitalised or numeric text)",
    "'ProbLog's unification treats them as identical' is read as: the goal A = B succeeds for the two ground terms "
    "(engine route), cross-checked with engine_unify.unify_value",
    "parsed terms are cached per text inside a shard (parsing is a pure function of the text)",
    "root-cause labels in Failure.sig and the KNOWN_CLASSES predicates are computed from the recipes alone; that "
    "the recipe recorded next to a parsed text describes the parser's output is verified when the text is parsed",
]

# ------------------------------------------------------------------------------------------------ recipes
#
#   ["T", functor, [recipe, ...]]      Term(functor, *args)           functor text is used verbatim
#   ["C", value]                       Constant(value)
#   ["V", name]                        Var(name)
#   ["N", functor, recipe]             Not(functor, child)
#   ["A", l, r] ["O", l, r] ["Cl", h, b]   And / Or / Clause
#   ["L", [recipe, ...]]               list2term([...])
#   ["I", n]                           raw int (engine variable), only as an argument
#   ["None"]                           raw None (anonymous engine variable), only as an argument
#   ["P", text, recipe]                the term the parser returns for `text`; recipe = equivalent construction
#                                      (only used for the shape)

_PARSE_CACHE = {}


def parse(text):
    from problog.program import PrologString

    if text not in _PARSE_CACHE:
        clause = list(PrologString("w(%s)." % text))[0]
        _PARSE_CACHE[text] = clause.args[0]
    return _PARSE_CACHE[text]


def build(r):
    from problog.logic import Term, Constant, Var, Not, And, Or, Clause, list2term

    k = r[0]
    if k == "T":
        return Term(r[1], *[build(x) for x in r[2]])
    if k == "C":
        return Constant(r[1])
    if k == "V":
        return Var(r[1])
    if k == "N":
        return Not(r[1], build(r[2]))
    if k == "A":
        return And(build(r[1]), build(r[2]))
    if k == "O":
        return Or(build(r[1]), build(r[2]))
    if k == "Cl":
        return Clause(build(r[1]), build(r[2]))
    if k == "L":
        return list2term([build(x) for x in r[1]])
    if k == "I":
        return r[1]
    if k == "None":
        return None
    if k == "P":
        t = parse(r[1])
        if r[1] not in _PARSE_VERIFIED:
            # harness self-test: the recipe recorded next to the text must describe the parser's output
            if not _same_structure(t, build(r[2])):
                raise AssertionError("parse(%r) is not %s" % (r[1], render_recipe(r[2])))
            _PARSE_VERIFIED.add(r[1])
        return t
    raise ValueError(r)


_PARSE_VERIFIED = set()


def _same_structure(x, y):
    from problog.logic import Term

    if not isinstance(x, Term) or not isinstance(y, Term):
        return type(x) is type(y) and x == y
    if type(x) is not type(y) or type(x.functor) is not type(y.functor) or repr(x.functor) != repr(y.functor) \
            or x.arity != y.arity:
        return False
    return all(_same_structure(a, b) for a, b in zip(x.args, y.args))


def _strip(s):
    s = str(s)
    if len(s) >= 2 and s[0] == s[-1] and s[0] in "'\"":
        return s[1:-1]
    return s


def _numshape(v):
    try:
        return repr(float(v) + 0.0) if float(v) != 0 else "0.0"
    except (TypeError, ValueError):
        return None


def shape(r):
    """Text of the recipe with quotes, constructor kinds and number formats erased (no problog involved)."""
    k = r[0]
    if k == "T":
        f = _strip(r[1])
        if f in ("\\+", "not") and len(r[2]) == 1:
            return "neg(%s)" % shape(r[2][0])
        if not r[2]:
            n = _numshape(f)
            return n if n is not None else f
        return "%s(%s)" % (f, ",".join(shape(x) for x in r[2]))
    if k == "C":
        v = r[1]
        n = _numshape(_strip(v) if isinstance(v, str) else v)
        return n if n is not None else _strip(v)
    if k == "V":
        return r[1]
    if k == "N":
        return "neg(%s)" % shape(r[2])
    if k == "A":
        return ",(%s,%s)" % (shape(r[1]), shape(r[2]))
    if k == "O":
        return ";(%s,%s)" % (shape(r[1]), shape(r[2]))
    if k == "Cl":
        return ":-(%s,%s)" % (shape(r[1]), shape(r[2]))
    if k == "L":
        s = "[]"
        for x in reversed(r[1]):
            s = ".(%s,%s)" % (shape(x), s)
        return s
    if k == "I":
        return "_G%d" % r[1]
    if k == "None":
        return "_"
    if k == "P":
        return shape(r[2])
    raise ValueError(r)


def _plain_atom(f):
    return bool(f) and f[0].islower() and all(c.isalnum() or c == "_" for c in f)


_SYMBOLIC = {"[]", ".", ",", ";", ":-", "\\+", "+", "-", "="}


def engine_valid(r):
    """Ground term the engine accepts as data (see ASSUMPTIONS)."""
    k = r[0]
    if k == "T":
        f = r[1]
        if not isinstance(f, str):
            return False
        ok = _plain_atom(f) or f in _SYMBOLIC or (len(f) >= 2 and f[0] == "'" and f[-1] == "'" and "'" not in f[1:-1])
        return ok and all(engine_valid(x) for x in r[2])
    if k == "C":
        v = r[1]
        if isinstance(v, bool):
            return False
        if isinstance(v, (int, float)):
            return True
        return isinstance(v, str) and len(v) >= 2 and v[0] == '"' and v[-1] == '"'
    if k == "N":
        return r[1] in ("\\+", "not") and engine_valid(r[2])
    if k in ("A", "O", "Cl"):
        return engine_valid(r[1]) and engine_valid(r[2])
    if k == "L":
        return all(engine_valid(x) for x in r[1])
    if k == "P":
        return engine_valid(r[2])
    return False  # V, I, None


def render_recipe(r):
    k = r[0]
    if k == "T":
        return "Term(%r%s)" % (r[1], "".join(", " + render_recipe(x) for x in r[2]))
    if k == "C":
        return "Constant(%r)" % (r[1],)
    if k == "V":
        return "Var(%r)" % r[1]
    if k == "N":
        return "Not(%r, %s)" % (r[1], render_recipe(r[2]))
    if k in ("A", "O", "Cl"):
        return "%s(%s, %s)" % ({"A": "And", "O": "Or", "Cl": "Clause"}[k], render_recipe(r[1]), render_recipe(r[2]))
    if k == "L":
        return "list2term([%s])" % ", ".join(render_recipe(x) for x in r[1])
    if k == "I":
        return repr(r[1])
    if k == "None":
        return "None"
    if k == "P":
        return "parse(%r)" % r[1]
    raise ValueError(r)


# ------------------------------------------------------------------------------------------------ abstract terms
#
#   ["atom", name] ["int", n] ["float", x] ["str", s] ["var", Name] ["cmp", functor, [args]] ["neg", child]
#   ["and", l, r] ["or", l, r] ["clause", h, b] ["list", [elems], tail|None] ["ivar", n] ["anon"]

def _atom_text(name, quoted=False):
    if name == "[]":
        return "[]"
    if not quoted and _plain_atom(name):
        return name
    return "'%s'" % name


def text_of(a, quoted=False):
    """Prolog text of an abstract term (None when it has no text: raw engine variables)."""
    k = a[0]
    if k == "atom":
        return _atom_text(a[1], quoted)
    if k == "int":
        return str(a[1])
    if k == "float":
        return repr(float(a[1]))
    if k == "str":
        return '"%s"' % a[1]
    if k == "var":
        return a[1]
    if k in ("ivar", "anon"):
        return None
    if k == "cmp":
        args = [text_of(x, quoted) for x in a[2]]
        if None in args:
            return None
        return "%s(%s)" % (_atom_text(a[1], quoted), ",".join(args))
    if k == "neg":
        c = text_of(a[1], quoted)
        return None if c is None else "\\+(%s)" % c
    if k in ("and", "or", "clause"):
        l, r = text_of(a[1], quoted), text_of(a[2], quoted)
        if l is None or r is None:
            return None
        if k == "clause" and a[1][0] not in ("atom", "cmp"):
            return None  # the parser rejects clauses whose head is not a plain term
        return "(%s%s%s)" % (l, {"and": ",", "or": ";", "clause": ":-"}[k], r)
    if k == "list":
        es = [text_of(x, quoted) for x in a[1]]
        t = None if a[2] is None else text_of(a[2], quoted)
        if None in es or (a[2] is not None and t is None):
            return None
        return "[%s%s]" % (",".join(es), "" if t is None else "|" + t)
    raise ValueError(a)


def canonical(a):
    """The plain constructor recipe of an abstract term."""
    return concretise(a, [0], [0])


def as_parsed(a, quoted=False, neg_functor="\\+"):
    """The constructor recipe of what the parser builds for text_of(a, quoted) (checked by the self-test in
    check_pair: a parsed term and its recipe must be structurally identical)."""
    k = a[0]
    if k == "atom":
        return ["T", _atom_text(a[1], quoted), []]
    if k in ("int", "float"):
        return ["C", a[1]]
    if k == "str":
        return ["C", '"%s"' % a[1]]
    if k == "var":
        return ["V", a[1]]
    if k == "cmp":
        return ["T", _atom_text(a[1], quoted), [as_parsed(x, quoted) for x in a[2]]]
    if k == "neg":
        return ["N", neg_functor, as_parsed(a[1], quoted)]
    if k in ("and", "or", "clause"):
        return [{"and": "A", "or": "O", "clause": "Cl"}[k], as_parsed(a[1], quoted), as_parsed(a[2], quoted)]
    if k == "list":
        tail = ["T", "[]", []] if a[2] is None else as_parsed(a[2], quoted)
        for e in reversed(a[1]):
            tail = ["T", ".", [as_parsed(e, quoted), tail]]
        return tail
    raise ValueError(a)


def n_variants(a):
    return {"atom": 5, "int": 2, "float": 2, "str": 2, "var": 4, "cmp": 4, "neg": 6, "and": 4, "or": 4,
            "clause": 4, "list": 4, "ivar": 1, "anon": 1}[a[0]]


def concretise(a, bits, pos):
    """Build a recipe for the abstract term; the list `bits` (consumed cyclically) chooses the variant at
    every node."""
    b = bits[pos[0] % len(bits)] % n_variants(a)
    pos[0] += 1
    k = a[0]

    def sub(x):
        return concretise(x, bits, pos)

    def parsed(quoted=False):
        txt = text_of(a, quoted)
        if txt is None:
            return None
        if k == "neg" and quoted:
            if a[1][0] in ("and", "or", "clause", "neg") or text_of(a[1]) is None:
                return None
            return ["P", "not %s" % text_of(a[1]), ["N", "not", as_parsed(a[1])]]
        return ["P", txt, as_parsed(a, quoted)]

    if k == "atom":
        name = a[1]
        if b == 1 and name != "[]":
            return ["T", "'%s'" % name, []]
        if b == 2:
            return ["C", name]
        if b == 3:
            return parsed()
        if b == 4 and name != "[]":
            return parsed(True)
        return ["T", name if (_plain_atom(name) or name == "[]") else "'%s'" % name, []]
    if k in ("int", "float"):
        if b == 1:
            return parsed()
        return ["C", a[1]]
    if k == "str":
        if b == 1:
            return parsed()
        return ["C", '"%s"' % a[1]]
    if k == "var":
        if b == 1:
            return parsed()
        if b == 2:
            return ["T", a[1], []]
        if b == 3:
            return ["C", a[1]]
        return ["V", a[1]]
    if k == "ivar":
        return ["I", a[1]]
    if k == "anon":
        return ["None"]
    if k == "cmp":
        if b == 2:
            p = parsed()
            if p is not None:
                return p
        if b == 3:
            p = parsed(True)
            if p is not None:
                return p
        f = a[1] if _plain_atom(a[1]) else "'%s'" % a[1]
        if b == 1:
            f = "'%s'" % a[1]
        return ["T", f, [sub(x) for x in a[2]]]
    if k == "neg":
        if b == 3:
            p = parsed()
            if p is not None:
                return p
        if b == 4:
            p = parsed(True)
            if p is not None:
                return p
        if b == 1:
            return ["N", "not", sub(a[1])]
        if b == 2:
            return ["T", "\\+", [sub(a[1])]]
        if b == 5:
            return ["T", "not", [sub(a[1])]]
        return ["N", "\\+", sub(a[1])]
    if k in ("and", "or", "clause"):
        if b == 2:
            p = parsed()
            if p is not None:
                return p
        op = {"and": ",", "or": ";", "clause": ":-"}[k]
        if b == 1:
            return ["T", op, [sub(a[1]), sub(a[2])]]
        if b == 3:
            return ["T", "'%s'" % op, [sub(a[1]), sub(a[2])]]
        return [{"and": "A", "or": "O", "clause": "Cl"}[k], sub(a[1]), sub(a[2])]
    if k == "list":
        if b == 2:
            p = parsed()
            if p is not None:
                return p
        elems = [sub(x) for x in a[1]]
        if b == 0 and a[2] is None and not any(e[0] in ("I", "None") for e in elems):
            return ["L", elems]  # (list2term converts raw ints to Constant and rejects None)
        tail = ["T", "[]", []] if a[2] is None else sub(a[2])
        for e in reversed(elems):
            tail = ["T", "." if b != 3 else "'.'", [e, tail]]
        return tail
    raise ValueError(a)


# ------------------------------------------------------------------------------------------------ universe

def _abstract_universe():
    at = lambda n: ["atom", n]
    a, b = at("a"), at("b")
    leaves = [a, b, at("q a"), at("[]"), at("1"), ["int", 1], ["float", 1.0], ["int", -1], ["float", 0.0],
              ["float", -0.0], ["str", "a"], ["var", "A"], ["var", "B"], ["var", "_"]]
    out = list(leaves)
    for x in leaves:
        out.append(["cmp", "f", [x]])
    for x in (a, ["var", "A"], ["int", 1]):
        out.append(["neg", x])
        out.append(["cmp", "q a", [x]])
        for y in (a, b, ["var", "A"]):
            out.append(["cmp", "g", [x, y]])
    for k in ("and", "or", "clause"):
        for x, y in ((a, b), (a, a), (["var", "A"], a)):
            out.append([k, x, y])
    out.append(["cmp", "+", [a, b]])
    out.append(["cmp", "=", [a, ["var", "A"]]])
    for es, tl in (([a], None), ([a, b], None), ([a, a], None), ([["int", 1], ["float", 1.0]], None),
                   ([a], ["var", "A"]), ([["var", "A"], ["var", "B"]], None), ([a, b], ["var", "B"]), ([], None)):
        out.append(["list", es, tl])
    out.append(["cmp", "f", [["ivar", -1]]])
    out.append(["cmp", "f", [["ivar", -2]]])
    out.append(["cmp", "f", [["anon"]]])
    out.append(["cmp", "g", [["ivar", -1], ["anon"]]])
    out.append(["cmp", "g", [["cmp", "f", [a]], b]])
    out.append(["cmp", "g", [["cmp", "f", [["var", "A"]]], ["list", [a], None]]])
    out.append(["cmp", "f", [["neg", a]]])
    out.append(["neg", ["neg", a]])
    out.append(["neg", ["and", a, b]])
    out.append(["cmp", "f", [["and", a, b]]])
    out.append(["clause", a, ["and", b, ["neg", a]]])
    out.append(["cmp", "f", [["cmp", "f", [["cmp", "f", [at("a")]]]]]])
    out.append(["list", [["list", [a], None], b], None])
    return out


_UNIVERSE = [None]


def universe():
    """All recipes: every abstract term with every root variant and uniformly varied argument styles."""
    if _UNIVERSE[0] is None:
        seen = set()
        out = []
        for a in _abstract_universe():
            for root in range(n_variants(a)):
                for style in range(5):
                    r = concretise(a, [root, style], [0])
                    key = repr(r)
                    if key not in seen:
                        seen.add(key)
                        out.append(r)
        _UNIVERSE[0] = out
    return _UNIVERSE[0]


def _seed():
    try:
        return int(os.environ.get("VERIF_SEED", "1"))
    except ValueError:
        return 1


QUICK_PAIR_STRIDE = 4


def enumerate_pairs(tier):
    u = universe()
    shapes = [shape(r) for r in u]
    seed = _seed()
    i = 0
    for x, sx in zip(u, shapes):
        for y, sy in zip(u, shapes):
            i += 1
            if tier == "quick" and sx != sy and \
                    ((i * 2654435761 + seed * 40503) >> 5) % QUICK_PAIR_STRIDE != 0:
                continue
            yield {"a": x, "b": y}


def enumerate_triples(tier):
    u = universe()
    seed = _seed()
    clusters = {}
    for r in u:
        clusters.setdefault(shape(r), []).append(r)
    for key in sorted(clusters):
        members = clusters[key]
        if len(members) > 10 and tier == "quick":
            members = members[:10]
        for x, y, z in itertools.product(members, repeat=3):
            yield {"a": x, "b": y, "c": z}
    # arbitrary triples (deterministic sample)
    n = len(u)
    count = 10000 if tier == "quick" else 400000
    state = 12345 + seed
    for _ in range(count):
        state = (state * 6364136223846793005 + 1442695040888963407) % (1 << 64)
        i = (state >> 33) % n
        state = (state * 6364136223846793005 + 1442695040888963407) % (1 << 64)
        j = (state >> 33) % n
        state = (state * 6364136223846793005 + 1442695040888963407) % (1 << 64)
        k = (state >> 33) % n
        yield {"a": u[i], "b": u[j], "c": u[k]}


# ------------------------------------------------------------------------------------------------ Hypothesis

def _abs_leaf():
    return st.sampled_from([["atom", "a"], ["atom", "b"], ["atom", "q a"], ["atom", "[]"], ["atom", "1"],
                            ["atom", "A"], ["int", 1], ["int", 0], ["int", -1], ["float", 1.0], ["float", 0.0],
                            ["float", -0.0], ["float", 2.5], ["str", "a"], ["str", "s"], ["var", "A"],
                            ["var", "B"], ["var", "_"], ["ivar", -1], ["ivar", -2], ["anon"]])


def _abs_term(depth):
    if depth <= 1:
        return _abs_leaf()
    sub = _abs_term(depth - 1)
    return st.one_of(
        _abs_leaf(),
        sub.map(lambda x: ["cmp", "f", [x]]),
        st.tuples(sub, sub).map(lambda p: ["cmp", "g", list(p)]),
        sub.map(lambda x: ["cmp", "q a", [x]]),
        sub.map(lambda x: ["neg", x]),
        st.tuples(st.sampled_from(["and", "or", "clause"]), sub, sub).map(
            # a clause head must be callable: a variable, number, string or anonymous head is not a clause the
            # public API documents (the parser rejects it and Clause.__repr__ assumes head.functor)
            lambda p: [p[0], ["cmp", "f", [p[1]]] if p[0] == "clause" and p[1][0] in ("var", "ivar", "anon", "int", "float", "str")
                       else p[1], p[2]]),
        st.tuples(st.lists(sub, min_size=0, max_size=3), st.one_of(st.none(), st.just(["var", "T"]), sub)).map(
            lambda p: ["list", p[0], p[1] if p[0] else None]),
    )


_bits = st.lists(st.integers(0, 11), min_size=1, max_size=8)


def _pair_strategy():
    same = st.tuples(_abs_term(4), _bits, _bits).map(
        lambda p: {"a": concretise(p[0], p[1], [0]), "b": concretise(p[0], p[2], [0])})
    diff = st.tuples(_abs_term(3), _abs_term(3), _bits, _bits).map(
        lambda p: {"a": concretise(p[0], p[2], [0]), "b": concretise(p[1], p[3], [0])})
    return st.one_of(same, same, same, diff)


def _triple_strategy():
    return st.tuples(_abs_term(4), _bits, _bits, _bits).map(
        lambda p: {"a": concretise(p[0], p[1], [0]), "b": concretise(p[0], p[2], [0]),
                   "c": concretise(p[0], p[3], [0])})


# ------------------------------------------------------------------------------------------------ root causes

def _ctext(c):
    """Text of a normalised constant node ("C", type name, value)."""
    return c[2] if c[1] == "str" else str(c[2])


def difference(ra, rb):
    """Root-cause labels of all structural differences between the terms two recipes build, joined by ','.
    Computed from the recipes alone (normalise(r, ()) mirrors the structure of the built term; for parsed
    text this is verified in build())."""
    labels = set()
    stack = [(normalise(ra, ()), normalise(rb, ()))]
    while stack:
        s, t = stack.pop()
        ks, kt = s[0], t[0]
        if ks in ("I", "None") or kt in ("I", "None"):
            if s != t:
                labels.add("engine-variable")
            continue
        if ks == "V" or kt == "V":
            if ks == kt:
                if s[1] != t[1]:
                    labels.add("different-symbols")
                continue
            v, o = (s, t) if ks == "V" else (t, s)
            if o[0] == "C" and o[1] == "str" and o[2] == v[1]:
                labels.add("var-vs-constant")
            elif o[0] == "T" and not o[2] and o[1] == v[1]:
                labels.add("var-vs-term")
            else:
                labels.add("different-symbols")
            continue
        if ks == "C" and kt == "C":
            if s[1] == t[1]:
                if s[2] != t[2]:
                    if s[1] == "float" and float(s[2]) == float(t[2]):
                        labels.add("negative-zero")
                    else:
                        labels.add("different-symbols")
            elif _ctext(s) == _ctext(t):
                labels.add("constant-value-type")
            else:
                labels.add("different-symbols")
            continue
        if ks == "C" or kt == "C":
            c, o = (s, t) if ks == "C" else (t, s)
            if o[0] == "T" and not o[2] and _strip(_ctext(c)) == _strip(o[1]):
                if c[1] == "str":
                    labels.add("constant-vs-term")
                    if _ctext(c) != o[1]:
                        labels.add("quoted-vs-unquoted-atom")
                else:
                    labels.add("atom-vs-number")
            else:
                labels.add("different-symbols")
            continue
        # compound / atom nodes: T, N, A, O, Cl
        if len(s[2]) != len(t[2]):
            labels.add("different-symbols")
            continue
        fs, ft = s[1], t[1]
        if fs != ft:
            if ks == "N" and kt == "N":
                labels.add("not-functor")
            elif _strip(fs) == _strip(ft):
                labels.add("quoted-vs-unquoted-atom")
            elif {_strip(fs), _strip(ft)} == {"\\+", "not"} and len(s[2]) == 1:
                labels.add("not-functor")
            else:
                labels.add("different-symbols")
                continue
        if ks != kt:
            labels.add("operator-class-vs-term")
        stack.extend(zip(s[2], t[2]))
    return ",".join(sorted(labels)) if labels else "identical-structure"


# ------------------------------------------------------------------------------------------------ known classes
#
# Computed from the recipes alone.  A pair belongs to class X when the two recipes become identical once every
# *listed* kind of discrepancy is erased, and do not become identical when all of them except X are erased.

ALL_DISCREPANCIES = ("quote", "not", "opclass", "const", "var", "num", "negzero")


def _is_numeric_text(txt):
    try:
        float(txt)
        return True
    except (TypeError, ValueError):
        return False


def _num(v, erase):
    val = float(v)
    return ("C", "num", repr(val + 0.0 if ("negzero" in erase and val == 0.0) else val))


def normalise(r, erase):
    """Recipe -> hashable tree with the discrepancies named in `erase` removed."""
    k = r[0]
    if k == "P":
        return normalise(r[2], erase)
    if k == "L":
        tail = ["T", "[]", []]
        for e in reversed(r[1]):
            tail = ["T", ".", [e, tail]]
        return normalise(tail, erase)
    if k == "T":
        f = r[1]
        bare = f.strip("'")
        if "quote" in erase:
            f = bare
        if not r[2]:
            if "num" in erase and _is_numeric_text(bare):
                return _num(bare, erase)
            if "var" in erase and (f[:1].isupper() or f[:1] == "_"):
                return ("V", f)
        if "not" in erase and "opclass" in erase and len(r[2]) == 1 and bare in ("not", "\\+"):
            f = "\\+"
        return ("T", f, tuple(normalise(x, erase) for x in r[2]))
    if k == "C":
        v = r[1]
        if isinstance(v, str):
            if len(v) >= 2 and v[0] == '"' and v[-1] == '"':
                return ("C", "str", v)
            if "num" in erase and _is_numeric_text(v):
                return _num(v, erase)
            if "var" in erase and (v[:1].isupper() or v[:1] == "_"):
                return ("V", v)
            if "const" in erase:
                return normalise(["T", v, []], erase)
            return ("C", "str", v)
        if "num" in erase:
            return _num(v, erase)
        if "negzero" in erase and isinstance(v, float) and v == 0.0:
            v = 0.0
        return ("C", type(v).__name__, repr(v))
    if k == "V":
        return ("V", r[1])
    if k == "N":
        f = "\\+" if "not" in erase else r[1]
        if "opclass" in erase:
            return ("T", f, (normalise(r[2], erase),))
        return ("N", f, (normalise(r[2], erase),))
    if k in ("A", "O", "Cl"):
        op = {"A": ",", "O": ";", "Cl": ":-"}[k]
        return ("T" if "opclass" in erase else k, op, (normalise(r[1], erase), normalise(r[2], erase)))
    if k == "I":
        return ("I", r[1])
    if k == "None":
        return ("None",)
    raise ValueError(r)


_LABELS = {
    "quote": ("quoted-vs-unquoted-atom",),
    "not": ("not-functor",),
    "opclass": ("operator-class-vs-term",),
    "const": ("constant-vs-term",),
    "var": ("var-vs-term", "var-vs-constant"),
    "num": ("constant-value-type", "atom-vs-number"),
    "negzero": ("negative-zero",),
}


def differs_by(case, what):
    """The two recipes describe the same term up to the listed discrepancies (ALL_DISCREPANCIES), and a
    discrepancy of kind `what` is among their structural differences."""
    ra, rb = case["a"], case["b"]
    if normalise(ra, ALL_DISCREPANCIES) != normalise(rb, ALL_DISCREPANCIES):
        return False
    labels = difference(ra, rb).split(",")
    return any(l in labels for l in _LABELS[what])


KNOWN_CLASSES = {
    "differs_by_quotes": lambda case, failure: differs_by(case, "quote"),
    "differs_by_not_functor": lambda case, failure: differs_by(case, "not"),
    "differs_by_operator_class": lambda case, failure: differs_by(case, "opclass"),
    "differs_by_constant_vs_term": lambda case, failure: differs_by(case, "const"),
    "differs_by_var_vs_term": lambda case, failure: differs_by(case, "var"),
    "differs_by_number_text": lambda case, failure: differs_by(case, "num"),
    "differs_by_negative_zero": lambda case, failure: differs_by(case, "negzero"),
}


# ------------------------------------------------------------------------------------------------ oracle

_ENGINE = [None]


def _engine():
    from problog.engine import DefaultEngine

    if _ENGINE[0] is None:
        _ENGINE[0] = DefaultEngine()
    return _ENGINE[0]


def engine_unifies(x, y):
    """True / False: does `t :- x = y.` have a proof; ('error', name) on a ProbLog error."""
    from problog.program import SimpleProgram
    from problog.logic import Term, Clause

    try:
        with plrun.captured_output():
            p = SimpleProgram()
            p.add_clause(Clause(Term("t"), Term("=", x, y)))
            eng = _engine()
            db = eng.prepare(p)
            return len(eng.query(db, Term("t"))) > 0
    except plrun.RESOURCE_ERRORS:
        _ENGINE[0] = None
        raise
    except Exception as exc:
        _ENGINE[0] = None
        return plrun.classify_exception(exc)
    except BaseException:  # watchdog timeout / interrupt: do not reuse the interrupted engine
        _ENGINE[0] = None
        raise


def direct_unifies(x, y):
    from problog.engine_unify import unify_value, UnifyError

    try:
        unify_value(x, y, {})
        return True
    except UnifyError:
        return False


def _fail(kind, cause, detail):
    return Failure(kind, detail, sig="%s:%s" % (kind, cause))


def _eq(x, y):
    return bool(x == y)


def _pair_failures(ra, rb, a, b, want_engine):
    """All oracle clauses for one ordered pair.  Returns (list of Failure, features, extra counters)."""
    fails = []
    feats = []
    extra = {}
    da, db = render_recipe(ra), render_recipe(rb)

    def why():
        return difference(ra, rb)

    # reflexive (same object, and a second build of the same recipe)
    for r, x, d in ((ra, a, da), (rb, b, db)):
        if not _eq(x, x):
            fails.append(_fail("not-reflexive", "same-object", "%s: x == x is False" % d))
        x2 = build(r)
        if not _eq(x, x2) or not _eq(x2, x):
            fails.append(_fail("not-reflexive", "rebuilt", "%s: two builds of the same recipe are not equal" % d))
        elif hash(x) != hash(x2):
            fails.append(_fail("equal-but-different-hash", "rebuilt", "%s: two builds of the same recipe hash differently" % d))
        if _eq(x, x) == bool(x != x):
            fails.append(_fail("ne-inconsistent", "same-object", "%s: == and != agree" % d))
    ab, ba = _eq(a, b), _eq(b, a)
    if ab != ba:
        fails.append(_fail("not-symmetric", why(), "a = %s, b = %s: a == b is %r but b == a is %r" % (da, db, ab, ba)))
    if bool(a != b) == ab:
        fails.append(_fail("ne-inconsistent", why(), "a = %s, b = %s: a == b is %r and a != b is %r" % (da, db, ab, bool(a != b))))
    if ab and ba:
        feats.append("equal")
        if ra != rb:
            feats.append("equal-different-recipes")
        if hash(a) != hash(b):
            fails.append(_fail("equal-but-different-hash", why(),
                               "a = %s, b = %s: a == b but hash(a) != hash(b)" % (da, db)))
        else:
            d = {a: 1}
            d[b] = 2
            if len(d) != 1 or b not in {a} or a not in {b}:
                fails.append(_fail("equal-but-distinct-dict-keys", why(),
                                   "a = %s, b = %s: equal, same hash, but do not collide as dict keys" % (da, db)))
    # ground terms: == iff unification
    if engine_valid(ra) and engine_valid(rb):
        feats.append("engine-valid-pair")
        du = direct_unifies(a, b)
        extra["unify_value_compared"] = 1
        use_engine = want_engine or ab or du or shape(ra) == shape(rb)
        eu = None
        if use_engine:
            eu = engine_unifies(a, b)
            extra["engine_eq_compared"] = 1
        if eu is not None and not isinstance(eu, bool):
            fails.append(_fail("unify-error", why(), "a = %s, b = %s: `a = b` raised %r" % (da, db, eu)))
        else:
            verdicts = [("unify_value", du)] + ([("engine =/2", eu)] if eu is not None else [])
            for name, u in verdicts:
                if u != ab:
                    kind = "equal-but-not-unifiable" if ab else "unifiable-but-not-equal"
                    fails.append(_fail(kind, why(), "a = %s, b = %s: a == b is %r but %s says %s"
                                       % (da, db, ab, name, "unifiable" if u else "not unifiable")))
                    break
    return fails, feats, extra


def _outcome(fails, feats, nontrivial, extra, sample):
    failure = None
    if fails:
        sigs = sorted(set(f.sig for f in fails))
        failure = Failure(fails[0].kind, "\n".join("[%s] %s" % (f.sig, f.detail) for f in fails), sig="+".join(sigs))
    return Outcome(nontrivial=nontrivial, features=sorted(set(feats)), failure=failure, extra=extra, sample=sample)


def _h(case):
    import hashlib
    import json

    return int(hashlib.sha1(json.dumps(case, sort_keys=True).encode("utf8")).hexdigest()[:8], 16)


def check_pair(case):
    ra, rb = case["a"], case["b"]
    try:
        a, b = build(ra), build(rb)
    except plrun.RESOURCE_ERRORS:
        raise
    except Exception as exc:
        if plrun.is_problog_error(exc):  # text rejected by the parser: not a term, nothing to compare
            return Outcome(classes=["rejected-by-parser"])
        return Outcome(failure=Failure("build-crash", "%s / %s: %r" % (render_recipe(ra), render_recipe(rb), exc),
                                       sig=plrun.exc_signature(exc)))
    try:
        fails, feats, extra = _pair_failures(ra, rb, a, b, _h(case) % 16 == 0)
    except plrun.RESOURCE_ERRORS:
        raise
    except Exception as exc:
        return Outcome(nontrivial=True, failure=Failure(
            "crash", "a = %s, b = %s: %r" % (render_recipe(ra), render_recipe(rb), exc),
            sig=plrun.exc_signature(exc)))
    same_shape = shape(ra) == shape(rb)
    if same_shape:
        feats.append("same-shape")
    nontrivial = (ra != rb) and (same_shape or "equal" in feats)
    return _outcome(fails, feats, nontrivial, extra, {"a": render_recipe(ra), "b": render_recipe(rb)})


def check_triple(case):
    rs = [case["a"], case["b"], case["c"]]
    try:
        a, b, c = [build(r) for r in rs]
    except plrun.RESOURCE_ERRORS:
        raise
    except Exception as exc:
        if plrun.is_problog_error(exc):
            return Outcome(classes=["rejected-by-parser"])
        return Outcome(failure=Failure("build-crash", "%r: %r" % (rs, exc), sig=plrun.exc_signature(exc)))
    fails = []
    feats = []
    try:
        ab, bc, ac = _eq(a, b), _eq(b, c), _eq(a, c)
    except plrun.RESOURCE_ERRORS:
        raise
    except Exception as exc:
        return Outcome(nontrivial=True, failure=Failure("crash", "%r: %r" % (rs, exc), sig=plrun.exc_signature(exc)))
    premises = ab and bc
    if premises:
        feats.append("premises-hold")
        if not ac:
            cause = "%s/%s" % (difference(rs[0], rs[1]), difference(rs[1], rs[2]))
            fails.append(_fail("not-transitive", cause, "a = %s, b = %s, c = %s: a == b and b == c but a != c"
                               % tuple(render_recipe(r) for r in rs)))
    distinct = len(set(repr(r) for r in rs))
    nontrivial = premises and distinct >= 2
    return _outcome(fails, feats, nontrivial, {}, dict(zip("abc", (render_recipe(r) for r in rs))))


def render_case(case):
    return dict((k, render_recipe(v)) for k, v in case.items())


SUBCHECKS = [
    SubCheck("pairs", check_pair, strategy=_pair_strategy, enumerate=enumerate_pairs, exhaustive_tiers=("thorough",),
             budget={"quick": 6000, "thorough": 300000}, timeout={"quick": 10, "thorough": 20},
             exhaustive="all ordered pairs of the recipe universe (quick: every same-shape pair and a 1-in-%d sample "
                        "of the others)" % QUICK_PAIR_STRIDE, render=render_case),
    SubCheck("triples", check_triple, strategy=_triple_strategy, enumerate=enumerate_triples, exhaustive_tiers=("thorough",),
             budget={"quick": 4000, "thorough": 200000}, timeout={"quick": 10, "thorough": 20},
             exhaustive="all ordered triples inside every same-shape cluster of the universe (quick: first 10 members "
                        "of a cluster) plus 10000 (thorough 400000) pseudo-random triples", render=render_case),
]
