"""C32 - weighted selection library predicates define the documented distribution."""
from fractions import Fraction

from hypothesis import strategies as st

from pbt.core.api import Failure, Outcome, SubCheck
from pbt.core import plrun

PROPERTY_ID = "C32"
LEVEL = "exploration"
RULE = ("Hypothesis-generated lists of length 1-6 over {a,b,c,1,2} (equal elements allowed) with positive integer / "
        "decimal weights, identifiers from {i1,i2,f(1)}; modes select_weighted/5, select_weighted/4 (list of "
        "(W,V) pairs) and select_uniform/4. Program 1: s(X,R) :- select(ID,...,X,R). query(s(X,R)): the reported "
        "distribution over (element, rest list) must be the closed form P = sum of w_i / sum(w) over the positions i "
        "that yield that pair (rest = list minus position i, order kept), total 1. Program 2: two selections in one "
        "conjunction, with the SAME identifier (joint distribution must be diagonal: same choice) and with "
        "DIFFERENT identifiers (joint = product). Non-trivial: length >= 3 and at least two different weights (or "
        "uniform with length >= 3). Distinct = distinct case.")
ASSUMPTIONS = ["closed-form oracle with exact rationals; tolerance 1e-9 (ProbLog rounds float constants to 15 decimals)"]

ELEMS = ["a", "b", "c", "1", "2"]
WEIGHTS = ["1", "2", "3", "5", "0.5", "0.25", "1.5", "10"]
IDS = ["i1", "i2", "f(1)"]


@st.composite
def _cases(draw):
    n = draw(st.integers(1, 6))
    values = [draw(st.sampled_from(ELEMS)) for _ in range(n)]
    weights = [draw(st.sampled_from(WEIGHTS)) for _ in range(n)]
    mode = draw(st.sampled_from(["w5", "w5", "w4", "uniform"]))
    return {"values": values, "weights": weights, "mode": mode, "id1": draw(st.sampled_from(IDS)),
            "id2": draw(st.sampled_from(IDS)), "joint": draw(st.booleans())}


def _call(case, ident, x, r):
    vals = "[%s]" % ",".join(case["values"])
    if case["mode"] == "w5":
        return "select_weighted(%s,[%s],%s,%s,%s)" % (ident, ",".join(case["weights"]), vals, x, r)
    if case["mode"] == "w4":
        pairs = ",".join("(%s,%s)" % (w, v) for w, v in zip(case["weights"], case["values"]))
        return "select_weighted(%s,[%s],%s,%s)" % (ident, pairs, x, r)
    return "select_uniform(%s,%s,%s,%s)" % (ident, vals, x, r)


def _dist(case):
    n = len(case["values"])
    ws = [Fraction(1)] * n if case["mode"] == "uniform" else [Fraction(w) for w in case["weights"]]
    tot = sum(ws)
    d = {}
    for i in range(n):
        rest = case["values"][:i] + case["values"][i + 1:]
        key = (case["values"][i], tuple(rest))
        d[key] = d.get(key, 0) + ws[i] / tot
    return d


def _parse_key(k, functor):
    # s(a,[b, c])  ->  ('a', ('b','c'))
    inner = k[len(functor) + 1:-1]
    x, rest = inner.split(",", 1)
    rest = rest.strip()
    assert rest[0] == "[" and rest[-1] == "]", k
    items = tuple(t.strip() for t in rest[1:-1].split(",") if t.strip())
    return x.strip(), items


def check(case):
    src = ":- use_module(library(lists)).\n"
    exp = _dist(case)
    if not case["joint"]:
        src += "s(X,R) :- %s.\nquery(s(X,R)).\n" % _call(case, case["id1"], "X", "R")
    else:
        src += "j(X,RX,Y,RY) :- %s, %s.\nquery(j(X,RX,Y,RY)).\n" % (
            _call(case, case["id1"], "X", "RX"), _call(case, case["id2"], "Y", "RY"))
    res = plrun.run_problog(src)
    if res[0] == "resource":
        return Outcome(inconclusive=res[1])
    failure = None
    feats = ["mode:" + case["mode"], "len:%d" % len(case["values"]), "joint" if case["joint"] else "single"]
    if case["joint"]:
        feats.append("same-id" if case["id1"] == case["id2"] else "different-id")
    if res[0] != "ok":
        failure = Failure("not-answered", "%r\n%s" % (res, src), sig="not-answered:%s" % plrun._sigpart(res))
    else:
        got = {}
        try:
            for k, v in res[1].items():
                if abs(float(v)) <= 1e-12:
                    continue
                if not case["joint"]:
                    got[_parse_key(k, "s")] = float(v)
                else:
                    # j(X,[..],Y,[..])
                    inner = k[2:-1]
                    parts, depth, cur = [], 0, ""
                    for ch in inner:
                        if ch == "[":
                            depth += 1
                        elif ch == "]":
                            depth -= 1
                        if ch == "," and depth == 0:
                            parts.append(cur.strip())
                            cur = ""
                        else:
                            cur += ch
                    parts.append(cur.strip())
                    kx = (parts[0], tuple(t.strip() for t in parts[1][1:-1].split(",") if t.strip()))
                    ky = (parts[2], tuple(t.strip() for t in parts[3][1:-1].split(",") if t.strip()))
                    got[(kx, ky)] = float(v)
        except Exception as exc:
            return Outcome(failure=Failure("unparsable-answer", "%r in %r" % (exc, res[1])))
        if not case["joint"]:
            expected = dict((k, float(v)) for k, v in exp.items())
        else:
            expected = {}
            same = case["id1"] == case["id2"]
            if same:
                # same identifier and same list: the same choices, hence the same position
                n = len(case["values"])
                ws = [Fraction(1)] * n if case["mode"] == "uniform" else [Fraction(w) for w in case["weights"]]
                tot = sum(ws)
                for i in range(n):
                    rest = tuple(case["values"][:i] + case["values"][i + 1:])
                    key = ((case["values"][i], rest), (case["values"][i], rest))
                    expected[key] = expected.get(key, 0.0) + float(ws[i] / tot)
            else:
                for kx, px in exp.items():
                    for ky, py in exp.items():
                        expected[(kx, ky)] = float(px * py)
        for k in sorted(set(got) | set(expected), key=str):
            if not plrun.close(got.get(k, 0.0), expected.get(k, 0.0), tol_abs=1e-9):
                failure = Failure("distribution-mismatch", "%s: problog %r expected %r\n%s" % (k, got.get(k, 0.0), expected.get(k, 0.0), src),
                                  sig="distribution-mismatch:%s" % ("joint-same-id" if case["joint"] and case["id1"] == case["id2"] else
                                                                     "joint-different-id" if case["joint"] else "single"))
                break
        if failure is None and not plrun.close(sum(got.values()), 1.0, tol_abs=1e-9):
            failure = Failure("total-not-one", "probabilities sum to %r\n%s" % (sum(got.values()), src))
    n = len(case["values"])
    nt = n >= 3 and (case["mode"] == "uniform" or len(set(case["weights"])) >= 2)
    return Outcome(nontrivial=nt, features=feats, failure=failure, sample={"program": src})


SUBCHECKS = [
    SubCheck("select", check, strategy=_cases, budget={"quick": 600, "thorough": 6000},
             timeout={"quick": 20, "thorough": 60}),
]
