"""C29 - extending a prepared database is equivalent to preparing the union."""
from hypothesis import strategies as st

from pbt.core.api import Failure, Outcome, SubCheck
from pbt.core import plrun
from pbt.gen import programs as gp
from pbt.ref import semantics as sem

PROPERTY_ID = "C29"
LEVEL = "exploration"
RULE = ("Histories (operation lists drawn by Hypothesis) over a prepared ClauseDB of a C01-style generated base "
        "program: extend(db_i) (children and grandchildren), db_j += fact | probabilistic fact | rule | annotated "
        "disjunction on new and on parent-defined predicates (j >= 1), query(db_i, atom) interleaved on parents and "
        "children. Model: the statement list of every database. Oracle after every query: probabilities "
        "(ground_all + evaluate) and deterministic answers (engine.query) on db_i equal those on "
        "prepare(base + statements added along the chain to db_i) built from scratch; in particular queries on a "
        "parent are unchanged by anything done to its extensions. Non-trivial: a clause was added to a child for a "
        "predicate that the parent already defines, and a query on that predicate was made on both parent and "
        "child afterwards. Distinct = distinct (base program, history).")
ASSUMPTIONS = ["differential oracle against a from-scratch preparation by the same code",
               "clauses are only added to databases that have not themselves been extended (a parent is frozen once "
               "extended; modifying it afterwards is outside the statement)"]


def _stmts(text):
    from problog.program import PrologString

    return list(PrologString(text))


def _term(atom):
    from problog.logic import Term, Var

    args = []
    for t in atom[1]:
        args.append(Var(t[1]) if t[0] == "v" else Term(str(t[1])))
    return Term(atom[0], *args)


def _prob(eng, db, term):
    from problog import get_evaluatable

    try:
        with plrun.captured_output():
            gp_ = eng.ground_all(db, queries=[term])
            res = get_evaluatable().create_from(gp_).evaluate()
        return ("ok", plrun.drop_zero(plrun.norm_result(res)))
    except plrun.CaseTimeout:
        raise
    except BaseException as exc:
        if isinstance(exc, (KeyboardInterrupt, SystemExit)):
            raise
        return plrun.classify_exception(exc)


def _det(eng, db, term):
    try:
        with plrun.captured_output():
            return ("ok", sorted(str(x) for x in eng.query(db, term)))
    except plrun.CaseTimeout:
        raise
    except BaseException as exc:
        if isinstance(exc, (KeyboardInterrupt, SystemExit)):
            raise
        return plrun.classify_exception(exc)


def check(case):
    from problog.program import PrologString
    from problog.engine import DefaultEngine

    base = case["base"]
    feats = gp.features(base)
    xbase = sem.expand(base)
    plrun.reset_state()
    eng = DefaultEngine()
    try:
        with plrun.captured_output():
            dbs = [eng.prepare(PrologString(sem.render_program(base)))]
    except Exception as exc:
        r = plrun.classify_exception(exc)
        return Outcome(failure=Failure("prepare-failed", repr(r), sig="prepare-failed:%s" % (r[1],)))
    models = [list(base)]
    parents = [None]
    base_preds = set()
    for s in xbase:
        if s[0] in ("fact", "rule"):
            base_preds.add(s[1][0])
        elif s[0] == "pfact":
            base_preds.add(s[2][0])
        elif s[0] == "ad":
            for _, a in s[1]:
                base_preds.add(a[0])
    touched = {}  # db index -> set of parent-defined predicates extended there
    queried = set()  # (db index, pred) after a touching add
    failure = None
    nontrivial = False
    for step, op in enumerate(case["ops"]):
        kind = op[0]
        if kind == "extend":
            i = op[1] % len(dbs)
            dbs.append(dbs[i].extend())
            models.append(list(models[i]))
            parents.append(i)
        elif kind == "add":
            if len(dbs) < 2:
                continue
            j = 1 + op[1] % (len(dbs) - 1)
            if j in parents:
                # a database that has been extended is treated as frozen: the statement covers clauses added to
                # an extension, not changes to a parent made after extending it
                continue
            stmt = op[2]
            try:
                with plrun.captured_output():
                    for t in _stmts(sem.render_statement(stmt)):
                        dbs[j] += t
            except plrun.CaseTimeout:
                raise
            except Exception as exc:
                r = plrun.classify_exception(exc)
                failure = Failure("add-failed", "step %d: adding %s raised %r" % (step, sem.render_statement(stmt), r),
                                  sig="add-failed:%s" % (r[1],))
                break
            # model: the statement is visible in db j and in every database extended from it LATER? No: extension
            # snapshots are live views of the parent, so descendants created earlier see it too.
            for k in range(len(dbs)):
                a = k
                while a is not None:
                    if a == j:
                        models[k].append(stmt)
                        break
                    a = parents[a]
            heads = [stmt[1]] if stmt[0] in ("fact", "rule", "rule_or") else ([stmt[2]] if stmt[0] == "pfact" else [a_ for _, a_ in stmt[1]])
            for h in heads:
                if h[0] in base_preds:
                    touched.setdefault(j, set()).add(h[0])
        elif kind == "query":
            i = op[1] % len(dbs)
            atom = op[2]
            term = _term(atom)
            # a fresh engine per query: an engine that raised keeps a dirty evaluation stack, which is not
            # what this property is about (the database is the object under test)
            r_p = _prob(DefaultEngine(), dbs[i], term)
            r_d = _det(DefaultEngine(), dbs[i], term)
            try:
                with plrun.captured_output():
                    eng2 = DefaultEngine()
                    scratch = eng2.prepare(PrologString(sem.render_program(models[i])))
            except Exception as exc:
                r = plrun.classify_exception(exc)
                failure = Failure("scratch-prepare-failed", repr(r), sig="scratch-prepare-failed:%s" % (r[1],))
                break
            e_p = _prob(DefaultEngine(), scratch, term)
            e_d = _det(DefaultEngine(), scratch, term)
            if "resource" in (r_p[0], r_d[0], e_p[0], e_d[0]):
                return Outcome(inconclusive="resource", features=feats)
            both_reject = (r_p[0] == "error" and e_p[0] == "error" and plrun.is_grounding_error(r_p[1])
                           and plrun.is_grounding_error(e_p[1]))
            if both_reject:
                continue  # both reject the query with a grounding error: no answers to compare
            if r_p[0] != e_p[0] or (r_p[0] != "ok" and r_p[1] != e_p[1]):
                failure = Failure("outcome-mismatch", "step %d query %s on db %d: extended %r, from scratch %r" % (
                    step, sem.render_atom(atom), i, r_p, e_p), sig="outcome-mismatch:%s/%s" % (plrun._sigpart(r_p), plrun._sigpart(e_p)))
                break
            if r_p[0] == "ok":
                for k in sorted(set(r_p[1]) | set(e_p[1])):
                    if not plrun.close(r_p[1].get(k, 0.0), e_p[1].get(k, 0.0)):
                        failure = Failure("prob-mismatch", "step %d db %d (%s): %s extended=%r from scratch=%r\nmodel:\n%s" % (
                            step, i, "base" if i == 0 else "extension", k, r_p[1].get(k, 0.0), e_p[1].get(k, 0.0),
                            sem.render_program(models[i])), sig="prob-mismatch:%s" % ("parent" if i == 0 else "child"))
                        break
                if failure is not None:
                    break
            if r_d != e_d:
                failure = Failure("answers-mismatch", "step %d engine.query(%s) on db %d: extended %r, from scratch %r" % (
                    step, sem.render_atom(atom), i, r_d, e_d), sig="answers-mismatch:%s" % ("parent" if i == 0 else "child"))
                break
            # non-trivial bookkeeping
            for j, preds in touched.items():
                if atom[0] in preds:
                    a = i
                    is_desc = False
                    while a is not None:
                        if a == j:
                            is_desc = True
                            break
                        a = parents[a]
                    queried.add((atom[0], "child" if is_desc else "other"))
            if (atom[0], "child") in queried and (atom[0], "other") in queried:
                nontrivial = True
    return Outcome(nontrivial=nontrivial, features=sorted(feats), failure=failure,
                   sample={"base": sem.render_program(base), "ops": [
                       [o[0], o[1], sem.render_statement(o[2]) if o[0] == "add" else (sem.render_atom(o[2]) if o[0] == "query" else None)]
                       for o in case["ops"]]})


@st.composite
def _cases(draw):
    prog = draw(gp.programs(min_queries=2, allow_neg_query=False, allow_evidence=False))
    base = [s for s in prog if s[0] not in ("query", "evidence")]
    qpool = [s[1] for s in prog if s[0] == "query"]
    # statements to add: taken from a second generated program over the same predicate names (so that they hit
    # parent-defined predicates), plus facts on new predicates
    extra = draw(gp.programs(min_queries=1, allow_neg_query=False, allow_evidence=False, max_preds=3))
    arity = {}
    for s in base:
        for h in ([s[1]] if s[0] in ("fact", "rule", "rule_or") else [s[2]] if s[0] == "pfact" else [a for _, a in s[1]]):
            arity[h[0]] = len(h[1])

    def ok(stmt):
        atoms = []
        if stmt[0] == "rule_or":
            atoms.append(stmt[1])
            atoms += [[l[1], l[2]] for l in stmt[2] + stmt[3] + stmt[4]]
            for l in stmt[2] + stmt[3] + stmt[4]:
                if l[1] not in arity:
                    return False
        if stmt[0] in ("fact", "rule"):
            atoms.append(stmt[1])
        elif stmt[0] == "pfact":
            atoms.append(stmt[2])
        elif stmt[0] == "ad":
            atoms += [a for _, a in stmt[1]]
        if stmt[0] in ("rule", "ad"):
            atoms += [[l[1], l[2]] for l in stmt[2]]
        for a in atoms:
            if a[0] in arity and arity[a[0]] != len(a[1]):
                return False
        # body predicates must be defined somewhere (base) to avoid UnknownClause noise
        if stmt[0] in ("rule", "ad"):
            for l in stmt[2]:
                if l[1] not in arity:
                    return False
        return True

    addpool = [s for s in extra if s[0] not in ("query", "evidence") and ok(s)]
    addpool.append(["fact", ["z", [["a", "a"]]]])
    addpool.append(["pfact", "0.5", ["z", [["a", "b"]]]])
    qpool.append(["z", [["v", "X"]]])
    ops = [["extend", 0]]
    n = draw(st.integers(3, 10))
    for _ in range(n):
        k = draw(st.sampled_from(["add", "add", "add", "add", "query", "query", "extend"]))
        if k == "extend":
            ops.append(["extend", draw(st.integers(0, 3))])
        elif k == "add":
            ops.append(["add", draw(st.integers(0, 3)), draw(st.sampled_from(addpool))])
        else:
            ops.append(["query", draw(st.integers(0, 3)), draw(st.sampled_from(qpool))])
    # always finish with queries on parent and child, preferably on a parent-defined predicate that was extended
    touched = []
    for o in ops:
        if o[0] == "add":
            st_ = o[2]
            heads = [st_[1]] if st_[0] in ("fact", "rule", "rule_or") else ([st_[2]] if st_[0] == "pfact" else [a for _, a in st_[1]])
            for h in heads:
                if h[0] in arity:
                    touched.append(h)
    if touched and draw(st.integers(0, 3)) != 0:
        h = draw(st.sampled_from(touched))
        if draw(st.booleans()):
            q = [h[0], [["v", VARS_[i]] for i in range(len(h[1]))]]
        else:
            q = [h[0], [t if t[0] != "v" else ["a", "a"] for t in h[1]]]
    else:
        q = draw(st.sampled_from(qpool))
    ops.append(["query", 0, q])
    ops.append(["query", 1, q])
    ops.append(["query", len(ops), q])
    return {"base": base, "ops": ops}


VARS_ = ["X", "Y", "Z"]


def _all_prog(case):
    return case["base"] + [o[2] for o in case["ops"] if o[0] == "add"]


KNOWN_CLASSES = {
    "cyclic_or_complement": lambda case, failure: gp.cyclic_body_disjunction_with_complement(_all_prog(case)),
    "negcycle_fp": lambda case, failure: gp.neg_on_cyclic_goal_under_active_cycle(_all_prog(case)),
    "neg_under_cycle": lambda case, failure: gp.neg_under_active_cycle(_all_prog(case)),
    "ad_cyclic_complement": lambda case, failure: gp.cyclic_multihead_ad_with_complementary_body(_all_prog(case)),
    "shared_var_call": lambda case, failure: gp.shared_var_call(_all_prog(case)),
}

SUBCHECKS = [
    SubCheck("histories", check, strategy=_cases, budget={"quick": 400, "thorough": 8000},
             timeout={"quick": 20, "thorough": 60}),
]
