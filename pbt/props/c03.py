"""C03 - grounding result is independent of the order sibling goals are explored (buffered engine)."""
from hypothesis import strategies as st

from pbt.core.api import Failure, Outcome, SubCheck
from pbt.core import plrun, engines
from pbt.gen import programs as gp
from pbt.ref import semantics as sem

PROPERTY_ID = "C03"
LEVEL = "exploration"
RULE = ("C01-style generated programs (stratified; facts, probabilistic facts, ADs, rules, negation, positive "
        "recursion, evidence, non-ground queries) x Hypothesis-drawn schedule seeds. Each schedule runs the default "
        "buffered engine with a MessageFIFO subclass (installed through the documented init_message_stack extension "
        "point) that permutes every appended batch consisting only of 'e' messages (>= 2) with random.Random(seed); "
        "oracle = differential vs the unpermuted run: same probabilities, same set of reported instances, same "
        "error class. Non-trivial: at least one schedule actually permuted a batch and the program has recursion or "
        "a predicate with >= 2 clauses. Distinct = distinct (program, schedule seeds). Sub-check 'findall': programs "
        "whose queries wrap findall/3 / all/3 over probabilistic goals (C19's generator) under 4 schedules each; "
        "result lists are compared as multisets (the element order is the one permitted difference). One program in "
        "five has one clause whose grounding raises a user error (the statement includes 'the same errors'), one in "
        "five comes from the evidence-biased family; one case in three grounds all runs with evidence propagation.")
ASSUMPTIONS = ["the permutation is applied at MessageFIFO.__iadd__, i.e. to the batches of sibling eval messages the "
               "engine pushes; cycle_exhausted/pop/buffering are the repository's",
               "differential oracle: both runs wrong in the same way is C01's business, not detected here"]


def check(case):
    prog = case["prog"]
    feats = gp.features(prog)
    src = sem.render_program(prog)
    ga = {"propagate_evidence": True} if case.get("propagate") else None
    if ga:
        feats.add("propagate_evidence")
    base = plrun.run_problog(src, ground_args=ga)
    if base[0] == "resource":
        return Outcome(inconclusive=base[1], features=feats)
    if base[0] == "crash":
        # the unpermuted run crashes: C01/C27 territory; still compare outcomes below
        pass
    permuted_any = False
    failure = None
    for seed in case["seeds"]:
        eng = engines.make_engine("shuffle", seed)
        res = plrun.run_problog(src, engine=eng, ground_args=ga)
        if res[0] == "resource":
            return Outcome(inconclusive=res[1], features=feats)
        if eng._stats["permuted"] > 0:
            permuted_any = True
        f = plrun.compare_instance_mode(base, res, "unpermuted", "schedule %d" % seed)
        if f is not None:
            failure = f
            break
    multi = any(x.startswith("rec:") for x in feats) or _multi_clause(prog)
    return Outcome(nontrivial=permuted_any and multi, features=sorted(feats), failure=failure,
                   classes=[base[0] if base[0] != "error" else "error:" + base[1]],
                   sample={"program": src, "seeds": case["seeds"]})


def _multi_clause(prog):
    prog = sem.expand(prog)
    cnt = {}
    for s in prog:
        if s[0] in ("fact", "rule"):
            h = s[1]
        elif s[0] == "pfact":
            h = s[2]
        elif s[0] == "ad":
            for _, a in s[1]:
                cnt[(a[0], len(a[1]))] = cnt.get((a[0], len(a[1])), 0) + 1
            continue
        else:
            continue
        cnt[(h[0], len(h[1]))] = cnt.get((h[0], len(h[1])), 0) + 1
    return any(v >= 2 for v in cnt.values())


def _strategy(nseeds):
    def f():
        progs = st.one_of(gp.programs(), gp.programs(), gp.programs(), gp.programs(error_clauses=True, max_preds=3),
                          gp.programs(evidence_bias=True), gp.programs(or_bias=True, max_preds=3),
                          gp.reach_programs())
        # one case in three grounds with evidence propagation (the command line's default) in all runs
        return st.tuples(progs, st.lists(st.integers(0, 2 ** 31), min_size=nseeds, max_size=nseeds),
                         st.integers(0, 2)).map(lambda t: {"prog": t[0], "seeds": t[1], "propagate": t[2] == 0})
    return f


# ------------------------------------------------------------------------------------------------ findall programs

def check_findall(case):
    """Programs whose queries wrap findall/3 or all/3 over probabilistic goals (generator of C19): the shuffled
    schedule may change the element ORDER inside the result lists, nothing else.  Result keys are compared with
    the contents of every list sorted (multiset comparison), probabilities of keys that coincide after sorting
    are added (they are exclusive worlds)."""
    from pbt.ref import c13_prolog as ref19
    from pbt.props.c04 import _normres

    src = ref19.render_program(case["prog"])
    base = plrun.run_problog(src)
    if base[0] == "resource":
        return Outcome(inconclusive=base[1])
    nbase = _normres(base)
    permuted_any = False
    failure = None
    for seed in case["seeds"]:
        eng = engines.make_engine("shuffle", seed)
        res = plrun.run_problog(src, engine=eng)
        if res[0] == "resource":
            return Outcome(inconclusive=res[1])
        if eng._stats["permuted"] > 0:
            permuted_any = True
        f = plrun.compare_instance_mode(nbase, _normres(res), "unpermuted", "schedule %d" % seed)
        if f is not None:
            f.sig = "findall|" + f.sig
            failure = f
            break
    lists = base[0] == "ok" and any("[" in k for k in base[1])
    return Outcome(nontrivial=permuted_any and lists, features=["findall-program"], failure=failure,
                   classes=["findall:" + (base[0] if base[0] != "error" else "error:" + base[1])],
                   sample={"program": src, "seeds": case["seeds"]})


def _findall_strategy():
    from pbt.gen import c13_prolog as gen19

    return st.tuples(gen19.findall_cases(nested=False), st.lists(st.integers(0, 2 ** 31), min_size=4, max_size=4)).map(
        lambda t: {"prog": t[0]["prog"], "seeds": t[1]})


KNOWN_CLASSES = {
    "cyclic_or_complement": lambda case, failure: gp.cyclic_body_disjunction_with_complement(case["prog"]),
    "zero_prob_or_complementary_body": lambda case, failure: gp.zero_prob_or_complementary_body(case["prog"]) or (
        # an atom that propagated evidence makes false behaves like a probability-0 annotation
        bool(case.get("propagate")) and any(s[0] == "evidence" for s in case["prog"])),
    "negcycle_fp": lambda case, failure: gp.neg_on_cyclic_goal_under_active_cycle(case["prog"]),
    "neg_under_cycle": lambda case, failure: gp.neg_under_active_cycle(case["prog"]),
    "ad_cyclic_complement": lambda case, failure: gp.cyclic_multihead_ad_with_complementary_body(case["prog"]),
    "shared_var_call": lambda case, failure: gp.shared_var_call(case["prog"]),
}

SUBCHECKS = [
    SubCheck("shuffle", check, strategy=_strategy(6), budget={"quick": 700, "thorough": 8000},
             timeout={"quick": 15, "thorough": 60}, render=lambda c: sem.render_program(c["prog"])),
    SubCheck("findall", check_findall, strategy=_findall_strategy, budget={"quick": 300, "thorough": 4000},
             timeout={"quick": 15, "thorough": 60}),
]
