"""C21 - DT-ProbLog (exhaustive / local search) and MAP return optimal strategies with the right score."""
import itertools
import os
import tempfile
from fractions import Fraction

from pbt.core.api import Failure, Outcome, SubCheck
from pbt.core import plrun
from pbt.gen import programs as gp
from pbt.gen import c21_dt as gen
from pbt.ref import semantics as sem

PROPERTY_ID = "C21"
LEVEL = "exploration"
RULE = ("dt-*: C01-style stratified programs (facts, probabilistic facts, ADs, probabilistic rules, negation) in which "
        "some probabilistic facts become decision facts '?::d.', some ADs / probabilistic rules become decision rules "
        "and decision ADs ('?::h :- body.', '?::a; ?::b.'), 0-2 fresh decision facts are used (also negated) in new or "
        "existing rule bodies, and 1-4 utility/2 facts on ground atoms and negated atoms (values -10..10, also 0 and "
        "both signs of one atom) are added; no queries, no evidence. A third of the dt-exhaustive and two thirds of the "
        "dt-local programs are instead small problems with interacting decisions: 2-3 decision facts, 0-2 chance "
        "facts, 2-4 derived atoms whose bodies combine two or three decisions with mixed polarity (and possibly a "
        "chance fact), utilities on the derived atoms, costs or small rewards on single decisions, all statements "
        "and body literals shuffled (so both declaration / grounding orders occur). Oracle: the reference possible-world semantics "
        "evaluates the program once with every decision as a uniform choice; EU(strategy) = sum utility * P(atom | "
        "strategy) exactly, for every strategy (decision fact: true/false; single-head decision rule instance: "
        "taken/not; multi-head decision AD instance: exactly one head, which is what DT-ProbLog's own constraint "
        "check enforces). dt-exhaustive: the returned assignment is over decisions, respects the AD constraint, "
        "score == EU(returned) and EU(returned) == max EU (1e-9; ties by value). dt-local: score == EU(returned) and "
        "no single flip of a decision improves EU; 'Local search does not support constraints' is accepted when the "
        "program has a multi-head decision AD. Decisions ProbLog leaves out must not matter (EU equal for all their "
        "values); decisions it returns that cannot influence a utility are ignored. A returned key that is not the "
        "name of a decision is resolved to the unique unassigned decision alternative that holds in exactly the same "
        "worlds (so that score and optimality are still checked) and is then reported as "
        "strategy-key-not-a-decision:alias. map: ground probabilistic facts as the only queries + rules + 0-3 evidence atoms, run through "
        "problog.tasks.map.main; documented objective = DT-ProbLog with the query facts as decisions and utilities "
        "P(q|e) on q and 1-P(q|e) on \\+q, i.e. objective(x) = sum_q (P(q|e) if x_q else 1-P(q|e)); the returned "
        "assignment covers exactly the query facts, is consistent with the evidence (P(e | facts set to x) > 0), "
        "score == objective(x), and no consistent assignment has a larger objective; P(e)=0 must be an error. "
        "Non-trivial: >= 2 relevant ground decisions (query facts) and two strategies (consistent assignments) with "
        "different EU (objective). Distinct = distinct program.")
ASSUMPTIONS = ["reference enumerator (pbt/ref/semantics.py) is the semantics; float tolerance 1e-9 (absolute+relative)",
               "a decision AD means 'exactly one alternative' (sum == 1 in ConstraintAD.check, test/dtproblog/mut_exl*): "
               "optimality is only required against exactly-one strategies, nothing is asserted about 'none'",
               "decision names: '?::d.' is reported as d, decision rules as choice(N,i,head,vars...) which main() "
               "prints as head; choice terms are matched to ground clause instances by head index, ground head and "
               "substitution, statement order preserved; ambiguous matches are skipped (inconclusive)",
               "programs with more than 64 strategies / 2^11 worlds are skipped (inconclusive)"]

MAX_STRATEGIES = 64
MAX_WORLDS = 1 << 11
TOL = 1e-9


# ------------------------------------------------------------------------------------------------ reference side

class DTRef(object):
    """Reference view of a decision-theoretic program: exact EU of every strategy."""

    def __init__(self, prog):
        self.prog = prog
        self.refprog, self.idxmap = gen.to_reference(prog)
        self.res = sem.evaluate(self.refprog, max_choices=14, max_worlds=MAX_WORLDS, want_masks=True)
        res = self.res
        self.atom_by_name = dict((sem.atom_str(a), a) for a in res.masks)
        # ground head of every (choice, value)
        self.head_of = {}
        for head, pos, neg, ch in res.gp.rules:
            if ch is not None:
                self.head_of[ch] = sem.atom_str(head)
        relevant_heads = set(ch for head, pos, neg, ch in res.rules if ch is not None)
        # decision choices that are relevant for some utility atom
        self.decisions = []  # dicts: ci, kind ('fact'|'rule'|'ad'), stmt (index in prog), nheads, subst, heads[]
        self.irrelevant = []  # same, for ground decisions that cannot influence any utility atom
        used = set(res.used_choices)
        for ci in range(len(res.gp.choices)):
            ridx, key = res.gp.choice_info[ci]
            s = prog[self.idxmap[ridx]]
            if s[0] == "dfact":
                kind, nheads = "fact", 1
            elif s[0] == "dad":
                nheads = len(s[1])
                kind = "ad" if nheads > 1 else "rule"
            else:
                continue
            (self.decisions if ci in used else self.irrelevant).append({
                "ci": ci, "kind": kind, "stmt": self.idxmap[ridx], "nheads": nheads,
                "subst": tuple(str(k[1]) for k in key),
                "heads": [self.head_of.get((ci, vi)) for vi in range(nheads)],
                "irrelevant": [vi for vi in range(nheads) if (ci, vi) not in relevant_heads]})
        self.utilities = []
        for s in prog:
            if s[0] == "utility":
                a = (s[1][0], tuple((t[0], t[1]) for t in s[1][1]))
                self.utilities.append((a, bool(s[2]), Fraction(s[3])))

    def allowed_values(self, d):
        """Values a strategy may give to decision d: index of the chosen head, or nheads for 'none'."""
        if d["kind"] == "ad":
            return list(range(d["nheads"]))
        return [0, 1]

    def n_strategies(self):
        n = 1
        for d in self.decisions:
            n *= len(self.allowed_values(d))
        return n

    def strategies(self):
        doms = [self.allowed_values(d) for d in self.decisions]
        for combo in itertools.product(*doms):
            yield dict((d["ci"], v) for d, v in zip(self.decisions, combo))

    def atom_probs(self, sigma):
        """P(atom | strategy) for every utility atom."""
        res = self.res
        m = res.posw
        for ci, v in sigma.items():
            m &= res.cmask[(ci, v)]
        z = sem._weight(m, res.weights)
        return tuple(Fraction(sem._weight(res.masks.get(a, 0) & m, res.weights), z) for a, _, _ in self.utilities)

    def decisions_without_influence(self):
        """(decision, head index) pairs reachable from a utility atom such that taking that alternative or taking
        none changes the probability of no utility atom, whatever the other decisions are."""
        out = []
        for d in self.decisions:
            others = [o for o in self.decisions if o is not d]
            doms = [self.allowed_values(o) for o in others]
            for vi in range(d["nheads"]):
                same = True
                for combo in itertools.product(*doms):
                    sg = dict((o["ci"], v) for o, v in zip(others, combo))
                    sg[d["ci"]] = vi
                    a = self.atom_probs(sg)
                    sg[d["ci"]] = d["nheads"]
                    if a != self.atom_probs(sg):
                        same = False
                        break
                if same:
                    out.append((d, vi))
        return out

    def eu(self, sigma):
        res = self.res
        m = res.posw
        for ci, v in sigma.items():
            m &= res.cmask[(ci, v)]
        z = sem._weight(m, res.weights)
        if z == 0:
            raise ValueError("strategy has weight zero")
        total = Fraction(0)
        for a, neg, val in self.utilities:
            if val == 0:
                continue
            am = res.masks.get(a, 0)
            if neg:
                am = res.full & ~am
            total += val * Fraction(sem._weight(am & m, res.weights), z)
        return total


# ------------------------------------------------------------------------------------------------ running DT-ProbLog

def run_dt(src, search):
    """('ok', (choices {Term: 0/1}, score, stats)) | ('error', Class, message) | ('crash', sig) | ('resource', name)"""
    from problog.program import PrologString
    from problog.tasks.dtproblog import dtproblog

    plrun.reset_state()
    try:
        with plrun.captured_output():
            result = dtproblog(PrologString(src), search=search)
        return ("ok", result)
    except plrun.CaseTimeout:
        raise
    except BaseException as exc:  # noqa
        if isinstance(exc, (KeyboardInterrupt, SystemExit)):
            raise
        r = plrun.classify_exception(exc)
        if r[0] == "error":
            return ("error", r[1], str(exc))
        return r


def _count_matchings(pl_keys, ref_keys, fits, limit=2):
    """Order-preserving injective maps pl_keys -> ref_keys with fits(pl, ref); returns up to `limit` of them."""
    out = []

    def rec(i, start, acc):
        if len(out) >= limit:
            return
        if i == len(pl_keys):
            out.append(list(acc))
            return
        for j in range(start, len(ref_keys)):
            if fits(pl_keys[i], ref_keys[j]):
                acc.append(ref_keys[j])
                rec(i + 1, j + 1, acc)
                acc.pop()

    rec(0, 0, [])
    return out


def map_strategy(ref, choices):
    """Translate DT-ProbLog's {Term: 0/1} into a reference strategy.

    Returns (sigma {ci: value} for the decisions ProbLog assigned, aliases [text], missing [decision], problem)
    where problem is None | ('failure', kind, detail) | ('inconclusive', reason)."""
    everything = ref.decisions + ref.irrelevant
    relevant_ci = set(d["ci"] for d in ref.decisions)
    by_ci = dict((d["ci"], d) for d in everything)
    fact_by_name = {}
    dup = set()
    for d in everything:
        if d["kind"] == "fact":
            name = d["heads"][0]
            if name in fact_by_name:
                dup.add(name)
            fact_by_name[name] = d
    got = {}  # ci -> {vi: 0/1}
    plain = []  # (name, value) that are not decision facts
    groups = {}  # N -> [(vi, head, subst, value)]
    for k, v in choices.items():
        v = int(v)
        if getattr(k, "functor", None) == "choice" and len(k.args) >= 3:
            try:
                n, vi = int(k.args[0]), int(k.args[1])
            except Exception:
                return None, None, None, ("failure", "strategy-key-not-a-decision", "unreadable choice term %s" % k)
            groups.setdefault(n, []).append((vi, str(k.args[2]), tuple(str(a) for a in k.args[3:]), v))
        else:
            name = str(k)
            if name in dup:
                return None, None, None, ("inconclusive", "ambiguous-decision-names")
            d = fact_by_name.get(name)
            if d is not None and d["ci"] not in got:
                got[d["ci"]] = {0: v}
                continue
            # head of a decision rule / AD instance reported under its own name (what main() prints anyway)
            hs = [(d2, vi) for d2 in everything if d2["kind"] != "fact"
                  for vi, h in enumerate(d2["heads"]) if h == name]
            if len(hs) == 1 and name not in fact_by_name and hs[0][0]["ci"] in relevant_ci:
                # only if the head atom really is that alternative (its body is certainly true); otherwise the name
                # stands for another decision that is equivalent to the head atom (handled as an alias below)
                atom = ref.atom_by_name.get(name)
                cm = ref.res.cmask[(hs[0][0]["ci"], hs[0][1])] & ref.res.posw
                if atom is not None and (ref.res.masks[atom] & ref.res.posw) != cm:
                    plain.append((name, v))
                else:
                    got.setdefault(hs[0][0]["ci"], {})[hs[0][1]] = v
            elif len(hs) == 1 and name not in fact_by_name:
                got.setdefault(hs[0][0]["ci"], {})[hs[0][1]] = v
            elif len(hs) > 1:
                return None, None, None, ("inconclusive", "ambiguous-decision-names")
            else:
                plain.append((name, v))
    # decision rules / ADs: match ProbLog's clause numbers to statements (order preserving)
    if groups:
        ref_stmts = sorted(set(d["stmt"] for d in everything if d["kind"] != "fact"))
        sig_of = {}
        for d in everything:
            if d["kind"] != "fact":
                for vi, h in enumerate(d["heads"]):
                    sig_of.setdefault(d["stmt"], {})[(vi, h, d["subst"])] = d["ci"]
        ns = sorted(groups)

        def fits(n, stmt):
            return all((vi, h, sub) in sig_of[stmt] for vi, h, sub, _ in groups[n])

        ms = _count_matchings(ns, ref_stmts, fits)
        if not ms:
            return None, None, None, ("failure", "strategy-key-not-a-decision",
                                      "choice terms %s match no decision clause instance" % sorted(
                                          str(k) for k in choices if getattr(k, "functor", None) == "choice"))
        if len(ms) > 1:
            return None, None, None, ("inconclusive", "ambiguous-decision-names")
        for n, stmt in zip(ns, ms[0]):
            for vi, h, sub, v in groups[n]:
                ci = sig_of[stmt][(vi, h, sub)]
                got.setdefault(ci, {})[vi] = v
    # names that are not decisions: DT-ProbLog reports a decision under the name of an atom that is equivalent to it
    aliases = []
    res = ref.res
    for name, v in plain:
        neg = name.startswith("\\+")
        atom = ref.atom_by_name.get(name[2:] if neg else name)
        cands = []
        if atom is not None:
            am = res.masks[atom] & res.posw
            if neg:
                am = (res.full & ~res.masks[atom]) & res.posw
            for d in ref.decisions:
                for vi in range(d["nheads"]):
                    if vi in got.get(d["ci"], {}):
                        continue
                    if (res.cmask[(d["ci"], vi)] & res.posw) == am:
                        cands.append((d, vi, v))
                    elif d["kind"] != "ad" and (res.cmask[(d["ci"], 1)] & res.posw) == am:
                        cands.append((d, vi, 1 - v))
        if len(cands) != 1:
            return None, None, None, ("failure", "strategy-key-not-a-decision",
                                      "'%s' is not a decision of the program and is not equivalent to exactly one "
                                      "unassigned decision (%d candidates)" % (name, len(cands)))
        d, vi, val = cands[0]
        got.setdefault(d["ci"], {})[vi] = val
        aliases.append("%s reported as '%s'" % (d["heads"][vi], name))
    sigma = {}
    for ci, vals in got.items():
        d = by_ci[ci]
        if ci not in relevant_ci:
            continue  # cannot influence any utility atom: any value will do
        ones = [vi for vi, v in vals.items() if v == 1]
        if len(ones) > 1:
            return None, None, None, ("failure", "ad-constraint-violated",
                                      "several alternatives of one decision AD are selected: %s" % (
                                          [d["heads"][vi] for vi in ones],))
        if ones:
            sigma[ci] = ones[0]
        elif d["kind"] != "ad":
            sigma[ci] = 1  # none
        else:
            rest = [vi for vi in range(d["nheads"]) if vi not in vals]
            if not rest:
                return None, None, None, ("failure", "ad-constraint-violated",
                                          "no alternative of the decision AD %s is selected" % (d["heads"],))
            sigma[ci] = rest[0]  # an alternative ProbLog considers irrelevant
    missing = [d for d in ref.decisions if d["ci"] not in sigma]
    return sigma, aliases, missing, None


def describe_sigma(ref, sigma):
    out = []
    for d in ref.decisions:
        v = sigma.get(d["ci"])
        if v is None:
            out.append("%s=?" % "/".join(str(h) for h in d["heads"]))
        elif d["kind"] == "ad":
            out.append("%s:=%s" % ("/".join(str(h) for h in d["heads"]), d["heads"][v]))
        else:
            out.append("%s=%d" % (d["heads"][0], 1 if v == 0 else 0))
    return ", ".join(out)


def make_dt_check(search):
    def check(case):
        prog = case["prog"]
        feats = gen.features(prog)
        src = gen.render_program(prog)
        try:
            ref = DTRef(prog)
        except sem.TooLarge:
            return Outcome(inconclusive="oversize", features=sorted(feats))
        nstrat = ref.n_strategies()
        if nstrat > MAX_STRATEGIES:
            return Outcome(inconclusive="oversize", features=sorted(feats))
        if ref.res.undefined_any:
            return Outcome(inconclusive="not-two-valued", features=sorted(feats))
        eus = [(ref.eu(s), s) for s in ref.strategies()]
        best = max(e for e, _ in eus)
        worst = min(e for e, _ in eus)
        nontrivial = len(ref.decisions) >= 2 and best != worst
        feats.add("decisions:%s" % ("0" if not ref.decisions else "1" if len(ref.decisions) == 1 else
                                    "2-3" if len(ref.decisions) < 4 else "4+"))
        sample = {"program": src, "search": search, "strategies": nstrat, "best": str(best), "worst": str(worst)}

        def done(failure=None, classes=(), inconclusive=None):
            return Outcome(nontrivial=nontrivial and inconclusive is None, features=sorted(feats), failure=failure,
                           classes=list(classes), sample=sample, inconclusive=inconclusive)

        res = run_dt(src, search)
        if res[0] == "resource":
            return done(inconclusive=res[1])
        if res[0] == "crash":
            return done(Failure("crash", "program:\n%s\nsearch=%s: internal exception %s" % (src, search, res[1]),
                                sig=res[1]), ["crash"])
        if res[0] == "error":
            if search == "local" and "Local search does not support constraints" in res[2] and \
                    gen.has_multihead_dad(prog):
                return done(classes=["rejected:constraints"])
            return done(Failure("unexpected-error", "program:\n%s\nsearch=%s: %s: %s; reference: %d strategies, "
                                "best EU %s" % (src, search, res[1], res[2], nstrat, best),
                                sig="unexpected-error:%s" % res[1]), ["error:" + res[1]])
        choices, score, stats = res[1]
        if choices is None or score is None:
            return done(Failure("no-strategy-returned", "program:\n%s\nsearch=%s returned %r; reference: %d "
                                "strategies, best EU %s" % (src, search, res[1], nstrat, best)), ["answered"])
        sample["returned"] = dict((str(k), v) for k, v in choices.items())
        sample["score"] = score
        try:
            score = float(score)
        except Exception:
            return done(Failure("non-numeric-score", "program:\n%s\nscore %r" % (src, score)), ["answered"])
        sigma, aliases, missing, problem = map_strategy(ref, choices)
        if problem is not None:
            if problem[0] == "inconclusive":
                return done(inconclusive=problem[1])
            return done(Failure(problem[1], "program:\n%s\nsearch=%s returned %s score %r: %s" % (
                src, search, sample["returned"], score, problem[2])), ["answered"])
        # decisions that ProbLog did not assign must not matter
        if len(missing) > 6:
            return done(inconclusive="oversize")
        comps = []
        for combo in itertools.product(*[ref.allowed_values(d) for d in missing]):
            s2 = dict(sigma)
            for d, v in zip(missing, combo):
                s2[d["ci"]] = v
            comps.append((ref.eu(s2), s2))
        lo = min(e for e, _ in comps)
        hi = max(e for e, _ in comps)
        head = "program:\n%s\nsearch=%s returned %s score %r; " % (src, search, sample["returned"], score)
        if missing:
            feats.add("decision-left-out")
        if not ref.decisions:
            feats.add("no-relevant-decision")
        if not plrun.close(float(lo), float(hi), TOL, TOL):
            return done(Failure("decision-left-out", head + "the decisions %s are not assigned but matter: EU ranges "
                                "over [%s, %s]" % ([d["heads"] for d in missing], lo, hi)), ["answered"])
        eu_ret, full = comps[0]
        what = describe_sigma(ref, full)
        if not plrun.close(score, float(eu_ret), TOL, TOL):
            sig = "score-mismatch" if choices else "score-mismatch:no-decision-found"
            return done(Failure("score-mismatch", head + "reference EU of that strategy (%s) is %s = %r; reference "
                                "best EU %s" % (what, eu_ret, float(eu_ret), best), sig=sig), ["answered"])
        if search == "exhaustive":
            if not plrun.close(float(eu_ret), float(best), TOL, TOL):
                bs = [s for e, s in eus if e == best][0]
                return done(Failure("not-optimal", head + "EU(%s) = %s but EU(%s) = %s" % (
                    what, eu_ret, describe_sigma(ref, bs), best)), ["answered"])
        else:
            for d in ref.decisions:
                if d["kind"] == "ad":
                    continue
                s2 = dict(full)
                s2[d["ci"]] = 1 - s2[d["ci"]]
                e2 = ref.eu(s2)
                if float(e2) > float(eu_ret) and not plrun.close(float(e2), float(eu_ret), TOL, TOL):
                    return done(Failure("flip-improves", head + "EU(%s) = %s but flipping %s gives %s" % (
                        what, eu_ret, d["heads"][0], e2)), ["answered"])
            if float(eu_ret) < float(best) and not plrun.close(float(eu_ret), float(best), TOL, TOL):
                feats.add("local-optimum-not-global")
        if aliases:
            return done(Failure("strategy-key-not-a-decision", head + "score and optimality are right, but the "
                                "strategy names atoms that are not decisions: %s" % "; ".join(aliases),
                                sig="strategy-key-not-a-decision:alias"), ["answered"])
        return done(classes=["answered"])

    return check


# ------------------------------------------------------------------------------------------------ MAP

def run_map(src):
    from problog.tasks import map as mapmod

    plrun.reset_state()
    fd, path = tempfile.mkstemp(suffix=".pl", prefix="c21_", dir=tempfile.gettempdir())
    try:
        with os.fdopen(fd, "w") as f:
            f.write(src)
        try:
            with plrun.captured_output():
                ok, val = mapmod.main([path])
        except plrun.CaseTimeout:
            raise
        except BaseException as exc:  # noqa
            if isinstance(exc, (KeyboardInterrupt, SystemExit)):
                raise
            ok, val = False, exc
    finally:
        try:
            os.unlink(path)
        except OSError:
            pass
    if ok:
        return ("ok", val)
    r = plrun.classify_exception(val)
    if r[0] == "error":
        return ("error", r[1], str(val))
    if r[0] == "crash":
        return ("crash", r[1], "%s: %s" % (type(val).__name__, val))
    return r


def map_query_is_ad_head(prog):
    qs = [s[1] for s in prog if s[0] == "query"]
    return any(s[0] == "ad" and len(s[1]) > 1 and any(a in qs for _, a in s[1]) for s in prog)


class MapRef(object):
    """Reference view of a MAP program: posterior marginals of the query facts, which assignments of the query
    facts can hold together with the evidence, and the documented objective of each."""

    def __init__(self, prog):
        self.queries = []
        for s in prog:
            if s[0] == "query" and s[1] not in self.queries:
                self.queries.append(s[1])
        self.qnames = [sem.render_atom(a) for a in self.queries]
        # (1) posterior marginals of the query facts in the program itself
        self.ref = sem.evaluate(prog, max_choices=12, max_worlds=MAX_WORLDS)
        # (2) the same program with uniform query facts: which assignments can be true together with the evidence
        qset = set((a[0], tuple(tuple(t) for t in a[1])) for a in self.queries)

        def isq(a):
            return (a[0], tuple(tuple(t) for t in a[1])) in qset

        uprog = []
        for s in prog:
            if s[0] == "pfact" and isq(s[2]):
                uprog.append(["pfact", "1/2", s[2]])
            elif s[0] == "ad" and any(isq(a) for _, a in s[1]):
                uprog.append(["ad", [["1/%d" % (len(s[1]) + 1), a] for _, a in s[1]], s[2]])
            else:
                uprog.append(s)
        self.uref = sem.evaluate(uprog, max_choices=12, max_worlds=MAX_WORLDS, want_masks=True)
        self.masks = {}
        for a, name in zip(self.queries, self.qnames):
            self.masks[name] = self.uref.masks.get((a[0], tuple((t[0], t[1]) for t in a[1])), 0)
        self.evidence_atoms = [(s[1][0], tuple((t[0], t[1]) for t in s[1][1])) for s in prog if s[0] == "evidence"]
        self.marg = None
        if not self.ref.inconsistent:
            self.marg = dict((k, self.ref.probs[k]) for k in self.qnames)

    def weight_of(self, x):
        u = self.uref
        m = u.emask & u.posw
        for name in self.qnames:
            m &= self.masks[name] if x[name] else (u.full & ~self.masks[name])
        return sem._weight(m, u.weights)

    def objective(self, x):
        return sum((self.marg[n] if x[n] else 1 - self.marg[n]) for n in self.qnames)

    def assignments(self):
        for bits in itertools.product([0, 1], repeat=len(self.qnames)):
            yield dict(zip(self.qnames, bits))


def map_evidence_on_query_fact(prog):
    """Some evidence atom is true in exactly the worlds in which one query fact is true (or false): it is the
    query fact itself or an alias of it such as 'c :- a.', so the evidence constraint is on a decision node."""
    try:
        mr = MapRef(prog)
    except Exception:
        return False
    u = mr.uref
    for e in mr.evidence_atoms:
        em = u.masks.get(e, 0) & u.posw
        for name in mr.qnames:
            qm = mr.masks[name] & u.posw
            if em == qm or em == ((u.full & ~mr.masks[name]) & u.posw):
                return True
    return False


def map_unconstrained_optimum_inconsistent(prog):
    """Some assignment of the query facts that cannot hold together with the evidence has an objective at least as
    large as the best consistent one (the search of map.py does not look at consistency)."""
    try:
        mr = MapRef(prog)
    except Exception:
        return False
    if mr.marg is None:
        return False
    cons, incons = [], []
    for x in mr.assignments():
        (cons if mr.weight_of(x) > 0 else incons).append(mr.objective(x))
    return bool(cons) and bool(incons) and max(incons) >= max(cons)


def check_map(case):
    prog = case["prog"]
    feats = set(x for x in gp.features(prog))
    src = sem.render_program(prog)
    try:
        mr = MapRef(prog)
    except sem.TooLarge:
        return Outcome(inconclusive="oversize", features=sorted(feats))
    ref, uref, qnames = mr.ref, mr.uref, mr.qnames
    if ref.undefined_any or uref.undefined_any:
        return Outcome(inconclusive="not-two-valued", features=sorted(feats))
    if map_query_is_ad_head(prog):
        feats.add("map:query-on-ad-head")
    sample = {"program": src}
    res = run_map(src)
    if res[0] == "resource":
        return Outcome(inconclusive=res[1], features=sorted(feats))
    if ref.inconsistent:
        if res[0] == "error":
            return Outcome(features=sorted(feats), classes=["rejected:" + res[1]], sample=sample,
                           nontrivial=ref.n_choices >= 1)
        if res[0] == "crash":
            return Outcome(features=sorted(feats), classes=["crash"], sample=sample, failure=Failure(
                "crash", "program:\n%s\nP(evidence)=0; map raised %s" % (src, res[2]), sig=res[1]))
        return Outcome(features=sorted(feats), classes=["answered"], sample=sample, failure=Failure(
            "inconsistent-evidence-not-rejected", "program:\n%s\nP(evidence)=0 but map returned %s" % (
                src, dict((str(k), v) for k, v in res[1][0].items()))))
    marg = mr.marg
    weight_of, objective = mr.weight_of, mr.objective

    consistent = []
    for x in mr.assignments():
        if weight_of(x) > 0:
            consistent.append((objective(x), x))
    if len(consistent) < (1 << len(qnames)):
        feats.add("map:some-assignment-inconsistent")
    objs = set(o for o, _ in consistent)
    nontrivial = len(qnames) >= 2 and len(objs) >= 2
    best = max(objs) if objs else None
    sample["marginals"] = dict((k, str(v)) for k, v in marg.items())

    def done(failure=None, classes=()):
        return Outcome(nontrivial=nontrivial, features=sorted(feats), failure=failure, classes=list(classes),
                       sample=sample)

    if res[0] == "crash":
        return done(Failure("crash", "program:\n%s\nmap raised %s" % (src, res[2]), sig=res[1]), ["crash"])
    if res[0] == "error":
        return done(Failure("unexpected-error", "program:\n%s\nmap raised %s: %s; reference marginals %s" % (
            src, res[1], res[2], sample["marginals"]), sig="unexpected-error:%s" % res[1]), ["error:" + res[1]])
    choices, score, stats = res[1]
    got = dict((str(k), int(v)) for k, v in choices.items())
    sample["returned"] = got
    sample["score"] = score
    head = "program:\n%s\nmap returned %s score %r; posterior marginals %s; " % (src, got, score, sample["marginals"])
    if sorted(got) != sorted(qnames):
        return done(Failure("wrong-assignment-domain", head + "the query facts are %s" % qnames), ["answered"])
    if weight_of(got) == 0:
        return done(Failure("assignment-inconsistent-with-evidence", head + "no possible world has these values of the "
                            "query facts and satisfies the evidence; best consistent assignment: %s" % (
                                [x for o, x in consistent if o == best][:1],)), ["answered"])
    obj = objective(got)
    if not plrun.close(float(score), float(obj), TOL, TOL):
        return done(Failure("score-mismatch", head + "documented objective of that assignment is %s = %r" % (
            obj, float(obj))), ["answered"])
    if not plrun.close(float(obj), float(best), TOL, TOL):
        return done(Failure("not-optimal", head + "objective %s, but the consistent assignment %s has %s" % (
            obj, [x for o, x in consistent if o == best][0], best)), ["answered"])
    return done(classes=["answered"])


# ------------------------------------------------------------------------------------------------ wiring

def _dt_strategy():
    from hypothesis import strategies as st

    # a third of the programs are small problems with interacting decisions
    return st.one_of(gen.dt_programs(), gen.dt_programs(), gen.dt_interacting_programs()).map(lambda p: {"prog": p})


def _dt_local_strategy():
    from hypothesis import strategies as st

    # local search: two thirds of the programs have interacting decisions (a flip that only pays off after another)
    return st.one_of(gen.dt_programs(), gen.dt_interacting_programs(), gen.dt_interacting_programs()).map(
        lambda p: {"prog": p})


def _map_strategy():
    return gen.map_programs().map(lambda p: {"prog": p})


def render_dt(case):
    return gen.render_program(case["prog"])


def render_map(case):
    return sem.render_program(case["prog"])


def _plain(case):
    prog = case["prog"]
    if any(s[0] in ("dfact", "dad", "utility") for s in prog):
        return gen.plain_view(prog)
    return prog


def _is_dt(case):
    return any(s[0] == "utility" for s in case["prog"])


def _no_relevant_decision(case, failure):
    """No ground decision alternative changes the probability of a utility atom."""
    if not _is_dt(case):
        return False
    try:
        ref = DTRef(case["prog"])
        if not ref.decisions:
            return True
        if ref.n_strategies() > MAX_STRATEGIES:
            return False
        dead = set((d["ci"], vi) for d, vi in ref.decisions_without_influence())
        return all((d["ci"], vi) in dead for d in ref.decisions for vi in range(d["nheads"]))
    except Exception:
        return False


def _decision_aliased(case, failure):
    """Some ground atom other than the decision itself is true in exactly the worlds in which a decision
    alternative is taken, or in exactly the others (DT-ProbLog then shares one node between them)."""
    if not _is_dt(case):
        return False
    try:
        ref = DTRef(case["prog"])
    except Exception:
        return False
    res = ref.res
    for d in ref.decisions:
        for vi in range(d["nheads"]):
            cm = res.cmask[(d["ci"], vi)] & res.posw
            for a, m in res.masks.items():
                if d["kind"] == "fact" and sem.atom_str(a) == d["heads"][0]:
                    continue
                if (m & res.posw) == cm or ((res.full & ~m) & res.posw) == cm:
                    return True
    return False


def _dad_with_irrelevant_head(case, failure):
    """Some instance of a multi-head decision AD has >= 2 alternatives that matter for the utilities and one that
    does not (DT-ProbLog then only considers strategies that pick one of the former)."""
    if not _is_dt(case):
        return False
    try:
        ref = DTRef(case["prog"])
    except Exception:
        return False
    return any(d["kind"] == "ad" and d["irrelevant"] and d["nheads"] - len(d["irrelevant"]) >= 2
               for d in ref.decisions)


def _decision_without_influence(case, failure):
    """The value of some ground decision alternative changes the probability of no utility atom (if DT-ProbLog's
    grounding reaches it, the compiled formula still does not contain it)."""
    if not _is_dt(case):
        return False
    try:
        ref = DTRef(case["prog"])
        if ref.n_strategies() > MAX_STRATEGIES:
            return False
        return bool(ref.irrelevant) or bool(ref.decisions_without_influence())
    except Exception:
        return False


KNOWN_CLASSES = {
    "dad_with_irrelevant_head": _dad_with_irrelevant_head,
    "decision_without_influence": _decision_without_influence,
    "map_unconstrained_optimum_inconsistent": lambda case, failure: not _is_dt(case) and
    map_unconstrained_optimum_inconsistent(case["prog"]),
    "negcycle_fp": lambda case, failure: gp.neg_on_cyclic_goal_under_active_cycle(_plain(case)),
    "neg_under_cycle": lambda case, failure: gp.neg_under_active_cycle(_plain(case)),
    "ad_cyclic_complement": lambda case, failure: gp.cyclic_multihead_ad_with_complementary_body(_plain(case)),
    "shared_var_call": lambda case, failure: gp.shared_var_call(_plain(case)),
    "utility_on_both_signs": lambda case, failure: _is_dt(case) and gen.utility_on_both_signs(case["prog"]),
    "decision_fact_with_other_clause": lambda case, failure: _is_dt(case) and gen.decision_fact_with_other_clause(
        case["prog"]),
    "decision_aliased": _decision_aliased,
    "no_relevant_decision": _no_relevant_decision,
    "map_query_is_ad_head": lambda case, failure: not _is_dt(case) and map_query_is_ad_head(case["prog"]),
    "map_evidence_on_query_fact": lambda case, failure: not _is_dt(case) and map_evidence_on_query_fact(case["prog"]),
}

SUBCHECKS = [
    SubCheck("dt-exhaustive", make_dt_check("exhaustive"), strategy=_dt_strategy,
             budget={"quick": 300, "thorough": 8000}, timeout={"quick": 15, "thorough": 40}, render=render_dt),
    SubCheck("dt-local", make_dt_check("local"), strategy=_dt_local_strategy,
             budget={"quick": 250, "thorough": 5000}, timeout={"quick": 15, "thorough": 40}, render=render_dt),
    SubCheck("map", check_map, strategy=_map_strategy,
             budget={"quick": 200, "thorough": 6000}, timeout={"quick": 15, "thorough": 40}, render=render_map),
]
