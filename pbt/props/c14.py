"""C14 - unification is sound and complete syntactic unification.

Every case is a pair of first-order terms (JSON, see pbt/ref/unify.py).  The pair is unified by ProbLog three
ways -- the builtin =/2, the builtin \\=/2 and resolution of a call against a clause head (fact, clause with a
body, with extra repeated head variables, and through two call levels) -- and the answers are compared with a
reference Robinson unifier with occurs check."""
import os

from hypothesis import strategies as st

from pbt.core.api import Failure, Outcome, SubCheck
from pbt.core import plrun
from pbt.ref import unify as ru

PROPERTY_ID = "C14"
LEVEL = "exploration"
RULE = ("Pairs of terms (T1,T2). Bounded-exhaustive: all ordered pairs from three universes -- WIDE: every term "
        "of size <= 3 over leaves {a, b, 1, 1.0, 'q a', \"s\", [], V0, V1, V2} and f/1, g/2, list cells (230 terms); "
        "DEEP: every term of size <= 5 (thorough: <= 6) over {a, V0, V1, V2}, f/1, g/2 (308 / 1112 terms); LISTS: every "
        "list-cell term of size <= 5 over {[], a, V0, V1} (148 terms); the quick tier takes a seed-dependent 1-in-16 "
        "sample of the pairs. Random: Hypothesis terms up to depth 4 over a larger signature (also -1, 0, 2.5, '1', "
        "'A', quoted a, \"a\", h/3, 'q a'/1, lists with tails, 4 variables), one third of the pairs independent, two thirds "
        "obtained by replacing subterms of a common base term by variables (so that most of them unify). Each pair "
        "is run as `T1 = T2` and `T1 \\= T2` in a clause body with shared variables (sub-check builtin) and as a "
        "call T2 against a head T1 whose variables are renamed apart: fact, clause with body, the same with every "
        "head and call variable repeated as an extra argument so that bindings of both sides are observed, and "
        "through an intermediate predicate (two call levels) (sub-check head). Oracle: reference Robinson mgu; "
        "answers are compared with the instance of the clause's variables under the mgu modulo a bijective "
        "renaming of variables. Non-trivial: the mgu binds >= 2 variables and one binding mentions another bound "
        "variable (triangular form of depth >= 2), or the pair is an occurs-check case. Distinct = distinct "
        "pair (T1,T2); a pair that is run by both sub-checks counts once.")
ASSUMPTIONS = [
    "pbt/ref/unify.py (Robinson with occurs check, cross-checked against a union-find unifier on every case) is "
    "the definition of 'has a most general unifier'",
    "standard Prolog identity of constants: 1, 1.0, '1' and \"1\" are pairwise different, a and 'a' are the same atom",
    "each anonymous (None) variable in an answer is a distinct fresh variable",
    "when a pair has both a symbol clash and a cyclic binding, failing and raising a ProbLogError are both accepted",
    "a fresh engine is created after every exception (an exception leaves the engine's stack non-empty)",
]

# ------------------------------------------------------------------------------------------------ terms


def V(i):
    return ["v", i]


def _quoted(name, force):
    plain = ru._atom_text(name)
    if force and not plain.startswith("'") and name != "[]":
        return "'%s'" % name
    return plain


def render(t, prefix="V"):
    """Prolog text of a JSON term; ["a", name, True] / ["c", functor, args, True] force quotes."""
    tag = t[0]
    if tag == "v":
        return "%s%s" % (prefix, t[1])
    if tag == "a":
        return _quoted(t[1], len(t) > 2 and t[2])
    if tag == "i":
        return str(t[1])
    if tag == "f":
        return repr(float(t[1]))
    if tag == "s":
        return '"%s"' % t[1]
    if tag == "c":
        return "%s(%s)" % (_quoted(t[1], len(t) > 3 and t[3]), ",".join(render(x, prefix) for x in t[2]))
    if tag == "l":
        inner = ",".join(render(x, prefix) for x in t[1])
        if t[2] is None:
            return "[%s]" % inner
        if not t[1]:
            return render(t[2], prefix)
        return "[%s|%s]" % (inner, render(t[2], prefix))
    raise ValueError(t)


def _norm(t):
    if t[0] == "l" and not t[1] and t[2] is not None:
        return _norm(t[2])
    if t[0] == "l":
        tail = ru.NIL if t[2] is None else _norm(t[2])
        for e in reversed(t[1]):
            tail = ("c", ".", (_norm(e), tail))
        return tail
    if t[0] == "c":
        return ("c", t[1], tuple(_norm(x) for x in t[2]))
    return ru.norm(t[:2])


def from_problog(t, counter):
    """Answer term of the engine -> internal reference term."""
    from problog.logic import Constant

    if t is None:
        counter[0] += 1
        return ("v", "_anon%d" % counter[0])
    if type(t) is int:
        return ("v", "_%d" % t)
    if isinstance(t, Constant):
        f = t.functor
        if type(f) is int:
            return ("k", "i", f)
        if type(f) is float:
            return ("k", "f", f)
        f = str(f)
        if len(f) >= 2 and f[0] == '"' and f[-1] == '"':
            return ("k", "s", f[1:-1])
        return ("k", "a", f)
    name = str(t.functor)
    if len(name) >= 2 and name[0] == "'" and name[-1] == "'":
        name = name[1:-1]
    if t.arity == 0:
        return ("k", "a", name)
    return ("c", name, tuple(from_problog(x, counter) for x in t.args))


# ------------------------------------------------------------------------------------------------ running

_ENGINE = [None]


def _engine():
    from problog.engine import DefaultEngine

    if _ENGINE[0] is None:
        _ENGINE[0] = DefaultEngine()
    return _ENGINE[0]


def run_queries(src, queries):
    """Prepare `src` once and run the queries [(name, functor, arity)].

    Returns {name: ('answers', [tuple of internal terms, ...]) | ('error', Class) | ('crash', sig)
                   | ('resource', name)}."""
    from problog.program import PrologString
    from problog.logic import Term

    out = {}
    db = None
    for name, functor, arity in queries:
        try:
            with plrun.captured_output():
                eng = _engine()
                if db is None:
                    db = eng.prepare(PrologString(src))
                res = eng.query(db, Term(functor, *([None] * arity)))
            answers = []
            for r in res:
                counter = [0]
                answers.append(tuple(from_problog(x, counter) for x in r))
            out[name] = ("answers", answers)
        except plrun.RESOURCE_ERRORS as exc:
            _ENGINE[0] = None
            db = None
            out[name] = ("resource", type(exc).__name__)
        except Exception as exc:
            _ENGINE[0] = None  # the stack of the engine is not unwound after an exception
            db = None
            out[name] = plrun.classify_exception(exc)
        except BaseException:  # watchdog timeout / interrupt: do not reuse the interrupted engine
            _ENGINE[0] = None
            raise
    return out


# ------------------------------------------------------------------------------------------------ oracle

def _case_vars(*terms):
    n = 0
    stack = list(terms)
    while stack:
        t = stack.pop()
        if t[0] == "v":
            n = max(n, t[1] + 1)
        elif t[0] == "c":
            stack.extend(t[2])
        elif t[0] == "l":
            stack.extend(t[1])
            if t[2] is not None:
                stack.append(t[2])
    return max(n, 1)


def _txt(ts):
    return "(" + ", ".join(ru.render(t, lambda n: "V%d" % n if isinstance(n, int) else str(n)) for t in ts) + ")"


def judge(route, got, prob, observed, lhs, rhs, negated=False):
    """Compare what the engine did on one route with the reference.

    got      : entry of run_queries
    prob     : ru.Problem of the unification actually posed on this route
    observed : tuple of internal variables whose instances the answer tuple reports
    lhs, rhs : the two sides of the posed problem (internal terms over `observed`' variables)
    Returns (kind, message) or None."""
    status = prob.status
    if got[0] == "resource":
        return ("resource", got[1])
    if got[0] == "crash":
        return ("crash", "%s raised a non-ProbLog exception %s" % (route, got[1]))
    if negated:
        # \= succeeds exactly when = fails
        if got[0] == "error":
            if status in ("cyclic", "clash+cyclic"):
                return None
            return ("unexpected-error", "\\= raised %s, reference: %s" % (got[1], status))
        succeeded = len(got[1]) > 0
        if status == "mgu" and succeeded:
            return ("neq-succeeds-on-unifiable", "\\= succeeded although the terms unify")
        if status in ("clash", "clash+cyclic") and not succeeded:
            return ("neq-fails-on-clash", "\\= failed although the terms do not unify")
        return None  # cyclic: compared with the behaviour of = by the caller
    if got[0] == "error":
        if status in ("cyclic", "clash+cyclic"):
            return None
        return ("unexpected-error", "%s raised %s, reference: %s" % (route, got[1], status))
    answers = got[1]
    if status in ("clash", "clash+cyclic"):
        if answers:
            return ("answer-on-clash", "reference: not unifiable (%s); engine answered %s"
                    % (status, "; ".join(_txt(a) for a in answers)))
        return None
    if status == "cyclic":
        if answers:
            return ("answer-on-occurs-check", "unifiable only with a cyclic binding; engine answered %s"
                    % "; ".join(_txt(a) for a in answers))
        return None
    # finite mgu
    expected = tuple(prob.instance(v) for v in observed)
    if not answers:
        return ("no-answer-on-unifiable", "reference mgu gives %s; engine has no answer" % _txt(expected))
    if len(answers) > 1:
        return ("multiple-answers", "reference mgu gives the single answer %s; engine answered %s"
                % (_txt(expected), "; ".join(_txt(a) for a in answers)))
    ans = answers[0]
    if ru.variant(ans, expected):
        return None
    # what kind of wrong answer?
    theta = dict(zip(observed, ans))
    l2, r2 = ru.resolve(lhs, theta), ru.resolve(rhs, theta)
    if l2 != r2:
        kind = "non-unifier"
        why = "the answer substitution does not make the two sides equal (%s vs %s)" % (_txt([l2]), _txt([r2]))
    else:
        kind = "not-most-general"
        why = "the answer substitution is a unifier but not a most general one"
    return (kind, "reference mgu gives %s; engine answered %s; %s" % (_txt(expected), _txt(ans), why))


def _features(prob, pref):
    feats = [pref + "status:" + prob.status]
    if prob.mgu is not None:
        cd = prob.chain_depth
        feats.append(pref + "chain:%s" % (cd if cd < 3 else "3+"))
        feats.append(pref + "bound:%s" % (len(prob.mgu) if len(prob.mgu) < 4 else "4+"))
    return feats


def _nontrivial(prob):
    if prob.status == "cyclic":
        return True
    return prob.mgu is not None and len(prob.mgu) >= 2 and prob.chain_depth >= 2


def _finish(case, prob, problems, feats, src):
    """problems: list of (route, kind, message)."""
    res = [p for p in problems if p[1] == "resource"]
    if res:
        return Outcome(inconclusive=res[0][2], features=feats)
    failure = None
    if problems:
        # deviation explained by identifying constants by their unquoted text?
        sig = "+".join(sorted(set("%s:%s" % (k, r) for r, k, _ in problems)))
        kind = problems[0][1]
        detail = "T1 = %s   T2 = %s   reference: %s\n%s\nprogram:\n%s" % (
            render(case["t1"]), render(case["t2"]), prob.status,
            "\n".join("[%s] %s: %s" % p for p in problems), src)
        failure = Failure(kind, detail, sig=sig)
    return Outcome(nontrivial=_nontrivial(prob), features=feats, failure=failure, classes=[prob.status],
                   sample={"t1": render(case["t1"]), "t2": render(case["t2"]), "reference": prob.status})


def _has_forced_quotes(t):
    if t[0] == "a":
        return len(t) > 2 and bool(t[2])
    if t[0] == "c":
        return (len(t) > 3 and bool(t[3])) or any(_has_forced_quotes(x) for x in t[2])
    if t[0] == "l":
        return any(_has_forced_quotes(x) for x in t[1]) or (t[2] is not None and _has_forced_quotes(t[2]))
    return False


def _unquote(t):
    """The same term with every optional pair of quotes removed (a and 'a' are the same atom)."""
    if t[0] == "a":
        return t[:2]
    if t[0] == "c":
        return [t[0], t[1], [_unquote(x) for x in t[2]]]
    if t[0] == "l":
        return ["l", [_unquote(x) for x in t[1]], None if t[2] is None else _unquote(t[2])]
    return t


def _quoting_deviation(check, case, outcome):
    """A failure that disappears when the optional quotes around atoms are removed is reported as the
    'quoted atom is a different atom' deviation, not as a failure of the unification algorithm."""
    if outcome.failure is None or not (_has_forced_quotes(case["t1"]) or _has_forced_quotes(case["t2"])):
        return outcome
    plain = check({"t1": _unquote(case["t1"]), "t2": _unquote(case["t2"])}, _relabel=False)
    if plain.failure is None and not plain.inconclusive:
        f = outcome.failure
        outcome.failure = Failure("quoted-atom-is-different-atom", f.detail, sig="+".join(
            sorted(set("quoted-atom-is-different-atom:" + part.split(":", 1)[1] for part in f.sig.split("+")))))
    return outcome


def _constant_deviation(t1, t2, problems, rejudge):
    """If the failures disappear when constants are identified by their unquoted text (ProbLog compares
    'functor/arity' signatures with the quotes stripped: 1 and '1' get the same signature), report them as
    the constant-identity deviation instead of a unification-algorithm failure."""
    if not problems or ru.classify(t1, t2) == ru.classify(t1, t2, ru.text_key):
        return problems
    again = rejudge(ru.text_key)
    if again:
        return problems
    return [(r, "atom-vs-number-identified", m) for r, _, m in problems]


# ------------------------------------------------------------------------------------------------ sub-check: builtin

def check_builtin(case, _relabel=True):
    t1j, t2j = case["t1"], case["t2"]
    n = _case_vars(t1j, t2j)
    vs = ",".join("V%d" % i for i in range(n))
    src = "t(%s) :- %s = %s.\nn :- %s \\= %s.\n" % (vs, render(t1j), render(t2j), render(t1j), render(t2j))
    t1, t2 = _norm(t1j), _norm(t2j)
    observed = tuple(("v", i) for i in range(n))
    got = run_queries(src, [("eq", "t", n), ("neq", "n", 0)])

    def evaluate(const_key):
        prob = ru.Problem(t1, t2, const_key)
        problems = []
        j = judge("eq", got["eq"], prob, observed, t1, t2)
        if j:
            problems.append(("eq",) + j)
        j = judge("neq", got["neq"], prob, observed, t1, t2, negated=True)
        if j:
            problems.append(("neq",) + j)
        if prob.status == "cyclic" and not problems and got["eq"][0] == "answers" and got["neq"][0] == "answers":
            # = failed finitely, so \= must succeed
            if not got["neq"][1]:
                problems.append(("neq", "neq-fails-when-eq-fails", "= failed (occurs-check case) and \\= failed too"))
        if prob.status == "cyclic" and not problems and got["eq"][0] == "error" and got["neq"][0] == "answers" \
                and got["neq"][1]:
            problems.append(("neq", "neq-succeeds-when-eq-raises", "= raised %s but \\= succeeded" % got["eq"][1]))
        return prob, problems

    prob, problems = evaluate(ru.std_key)
    problems = _constant_deviation(t1, t2, problems, lambda key: evaluate(key)[1])
    feats = _features(prob, "")
    out = _finish(case, prob, problems, feats, src)
    return _quoting_deviation(check_builtin, case, out) if _relabel else out


# ------------------------------------------------------------------------------------------------ sub-check: head

def check_head(case, _relabel=True):
    t1j, t2j = case["t1"], case["t2"]
    n1 = _case_vars(t1j)
    n2 = _case_vars(t2j)
    head = render(t1j, "W")
    call = render(t2j, "V")
    ws = ",".join("W%d" % i for i in range(n1))
    us = ",".join("U%d" % i for i in range(n1))
    vs = ",".join("V%d" % i for i in range(n2))
    src = ("hf(%(head)s).\n"
           "hc(%(head)s) :- true.\n"
           "xf(%(head)s,%(ws)s).\n"
           "xc(%(head)s,%(ws)s) :- true.\n"
           "m(X,%(us)s) :- xf(X,%(us)s).\n"
           "mc(X,%(us)s) :- xc(X,%(us)s).\n"
           "r_fact(%(vs)s) :- hf(%(call)s).\n"
           "r_clause(%(vs)s) :- hc(%(call)s).\n"
           "r_factx(%(vs)s,%(us)s) :- xf(%(call)s,%(us)s).\n"
           "r_clausex(%(vs)s,%(us)s) :- xc(%(call)s,%(us)s).\n"
           "r_two(%(vs)s,%(us)s) :- m(%(call)s,%(us)s).\n"
           "r_twoc(%(vs)s,%(us)s) :- mc(%(call)s,%(us)s).\n"
           % {"head": head, "call": call, "ws": ws, "us": us, "vs": vs})
    t1 = ru.rename(_norm(t1j), lambda i: "W%d" % i)
    t2 = _norm(t2j)
    wvars = tuple(("v", "W%d" % i) for i in range(n1))
    uvars = tuple(("v", "U%d" % i) for i in range(n1))
    vvars = tuple(("v", i) for i in range(n2))
    routes = [("fact", "r_fact", False), ("clause", "r_clause", False), ("factx", "r_factx", True),
              ("clausex", "r_clausex", True), ("two", "r_two", True), ("twoc", "r_twoc", True)]
    got = run_queries(src, [(r, f, n2 + (n1 if ext else 0)) for r, f, ext in routes])
    lhs_x = ("c", "h", (t1,) + wvars)
    rhs_x = ("c", "h", (t2,) + uvars)

    def evaluate(const_key):
        prob = ru.Problem(t1, t2, const_key)
        probx = ru.Problem(lhs_x, rhs_x, const_key)
        problems = []
        for r, f, ext in routes:
            if ext:
                # the answer reports V's and U's; W's are aliases of the U's
                j = judge(r, got[r], probx, vvars + uvars, ru.resolve(lhs_x, dict(zip(wvars, uvars))), rhs_x)
            else:
                j = _judge_plain(r, got[r], prob, vvars)
            if j:
                problems.append((r,) + j)
        return prob, problems

    prob, problems = evaluate(ru.std_key)
    problems = _constant_deviation(t1, t2, problems, lambda key: evaluate(key)[1])
    feats = _features(prob, "")
    out = _finish(case, prob, problems, feats, src)
    return _quoting_deviation(check_head, case, out) if _relabel else out


def _judge_plain(route, got, prob, vvars):
    """Head route without the extra arguments: only the call's variables are observed, so a wrong answer
    cannot be split into non-unifier / not-most-general."""
    status = prob.status
    if got[0] == "answers" and status == "mgu" and len(got[1]) == 1:
        expected = tuple(prob.instance(v) for v in vvars)
        if ru.variant(got[1][0], expected):
            return None
        return ("wrong-answer", "reference mgu gives %s; engine answered %s" % (_txt(expected), _txt(got[1][0])))
    return judge(route, got, prob, vvars, prob.t1, prob.t2)


# ------------------------------------------------------------------------------------------------ enumeration

CONSTS_WIDE = [["a", "a"], ["a", "b"], ["i", 1], ["f", 1.0], ["a", "q a"], ["s", "s"], ["l", [], None]]


def _terms_by_size(leaves, max_size, unary, binary):
    """All terms of size <= max_size: {size: [terms]} built from leaves, unary functors, binary constructors."""
    by = {1: list(leaves)}
    for s in range(2, max_size + 1):
        cur = []
        for f in unary:
            for x in by.get(s - 1, []):
                cur.append(f(x))
        for g in binary:
            for sl in range(1, s - 1):
                sr = s - 1 - sl
                for x in by.get(sl, []):
                    for y in by.get(sr, []):
                        cur.append(g(x, y))
        by[s] = cur
    out = []
    for s in range(1, max_size + 1):
        out.extend(by[s])
    return out


def _f(x):
    return ["c", "f", [x]]


def _g(x, y):
    return ["c", "g", [x, y]]


def _cons(x, y):
    if y[0] == "l":
        return ["l", [x] + y[1], y[2]]
    return ["l", [x], y]


def universes(tier):
    wide = _terms_by_size(CONSTS_WIDE + [V(0), V(1), V(2)], 3, [_f], [_g, _cons])
    deep = _terms_by_size([["a", "a"], V(0), V(1), V(2)], 6 if tier == "thorough" else 5, [_f], [_g])
    lists = _terms_by_size([["l", [], None], ["a", "a"], V(0), V(1)], 5, [], [_cons])
    return [("wide", wide), ("deep", deep), ("lists", lists)]


QUICK_STRIDE = 16


def _seed():
    try:
        return int(os.environ.get("VERIF_SEED", "1"))
    except ValueError:
        return 1


def enumerate_pairs(tier):
    seed = _seed()
    i = 0
    for name, terms in universes(tier):
        for a in terms:
            for b in terms:
                i += 1
                if tier == "quick" and ((i * 2654435761 + seed * 40503) >> 5) % QUICK_STRIDE != 0:
                    continue
                yield {"t1": a, "t2": b}


# ------------------------------------------------------------------------------------------------ Hypothesis

def _leaf():
    consts = [["a", "a"], ["a", "b"], ["a", "a", True], ["i", 1], ["i", 0], ["i", -1], ["f", 1.0], ["f", 2.5],
              ["a", "q a"], ["s", "s"], ["s", "a"], ["a", "1"], ["a", "A"], ["l", [], None]]
    return st.one_of(st.sampled_from(consts), st.sampled_from([V(0), V(1), V(2), V(3)]),
                     st.sampled_from([V(0), V(1)]))


def _term(depth):
    if depth <= 1:
        return _leaf()
    sub = _term(depth - 1)
    return st.one_of(
        _leaf(),
        sub.map(lambda x: ["c", "f", [x]]),
        st.tuples(sub, sub).map(lambda p: ["c", "g", [p[0], p[1]]]),
        st.tuples(sub, sub, sub).map(lambda p: ["c", "h", list(p)]),
        sub.map(lambda x: ["c", "q a", [x]]),
        sub.map(lambda x: ["c", "f", [x], True]),
        st.tuples(st.lists(sub, min_size=1, max_size=3), st.one_of(st.none(), st.sampled_from([V(0), V(1), V(2)]))).map(
            lambda p: ["l", p[0], p[1]]),
    )


def _generalise(t, bits, pos):
    """Replace subterms of t by variables as directed by the list of small integers `bits` (consumed
    left to right, cyclically)."""
    b = bits[pos[0] % len(bits)]
    pos[0] += 1
    if b < 4 and t[0] != "v":
        return V(b)
    if t[0] == "c":
        return t[:2] + [[_generalise(x, bits, pos) for x in t[2]]] + t[3:]
    if t[0] == "l":
        return ["l", [_generalise(x, bits, pos) for x in t[1]], t[2]]
    return t


def _pairs():
    indep = st.tuples(_term(4), _term(4)).map(lambda p: {"t1": p[0], "t2": p[1]})
    bits = st.lists(st.integers(0, 15), min_size=1, max_size=12)
    derived = st.tuples(_term(4), bits, bits).map(
        lambda p: {"t1": _generalise(p[0], p[1], [0]), "t2": _generalise(p[0], p[2], [0])})
    return st.one_of(indep, derived, derived)


def render_case(case):
    return "%s  ~  %s" % (render(case["t1"]), render(case["t2"]))


# ------------------------------------------------------------------------------------------------ known classes

def _problem_builtin(case):
    return ru.Problem(_norm(case["t1"]), _norm(case["t2"]))


def _problem_head_ext(case):
    n1 = _case_vars(case["t1"])
    t1 = ru.rename(_norm(case["t1"]), lambda i: "W%d" % i)
    wvars = tuple(("v", "W%d" % i) for i in range(n1))
    uvars = tuple(("v", "U%d" % i) for i in range(n1))
    return ru.Problem(("c", "h", (t1,) + wvars), ("c", "h", (_norm(case["t2"]),) + uvars))


def mgu_needs_dereference(prob):
    """The mgu is not a flat substitution: in triangular form a binding of a variable to a non-variable term
    mentions a variable that is itself bound, or that another variable is aliased to (so the bindings have to
    be dereferenced through each other to get the instance)."""
    s = prob.mgu
    if s is None:
        return False
    if prob.chain_depth >= 2:
        return True
    alias_targets = set(t for t in s.values() if t[0] == "v")
    for t in s.values():
        if t[0] != "v" and any(w in alias_targets for w in ru.variables(t)):
            return True
    return False


def _parallel_direct_occurrence(t1, t2):
    """Descending both terms in parallel, some variable faces a term that syntactically contains it."""
    stack = [(t1, t2)]
    while stack:
        a, b = stack.pop()
        if a[0] == "v" and b[0] != "v":
            if a in ru.variables(b):
                return True
        elif b[0] == "v" and a[0] != "v":
            if b in ru.variables(a):
                return True
        elif a[0] == "c" and b[0] == "c" and a[1] == b[1] and len(a[2]) == len(b[2]):
            stack.extend(zip(a[2], b[2]))
    return False


def cyclic_only_through_bindings(prob):
    """Occurs-check case in which no variable directly faces a term containing it: the cycle only shows up
    after dereferencing bindings made earlier in the same unification."""
    return prob.status == "cyclic" and not _parallel_direct_occurrence(prob.t1, prob.t2)


def _mentions_quoted_numeric_atom(case):
    """Some atom of the pair has the text of a number ('1' vs 1)."""
    def walk(t):
        if t[0] == "a":
            try:
                float(t[1])
                return True
            except ValueError:
                return False
        if t[0] == "c":
            return any(walk(x) for x in t[2])
        if t[0] == "l":
            return any(walk(x) for x in t[1]) or (t[2] is not None and walk(t[2]))
        return False
    return walk(case["t1"]) or walk(case["t2"])


KNOWN_CLASSES = {
    # =/2 and \=/2 (sub-check builtin)
    "eq_mgu_needs_dereference": lambda case, failure: mgu_needs_dereference(_problem_builtin(case)),
    "eq_cyclic_only_through_bindings": lambda case, failure: cyclic_only_through_bindings(_problem_builtin(case)),
    # head resolution (sub-check head): the problem includes the extra arguments that alias head and call variables
    "head_mgu_needs_dereference": lambda case, failure: mgu_needs_dereference(_problem_head_ext(case)),
    "head_cyclic_only_through_bindings": lambda case, failure: cyclic_only_through_bindings(_problem_head_ext(case)),
    # constants
    "quoted_atom": lambda case, failure: _has_forced_quotes(case["t1"]) or _has_forced_quotes(case["t2"]),
    "numeric_atom": lambda case, failure: _mentions_quoted_numeric_atom(case),
}

SUBCHECKS = [
    SubCheck("builtin", check_builtin, strategy=_pairs, enumerate=enumerate_pairs, exhaustive_tiers=("thorough",),
             budget={"quick": 4000, "thorough": 150000}, timeout={"quick": 10, "thorough": 20},
             exhaustive="all ordered pairs of terms of the WIDE, DEEP and LISTS universes (see RULE); quick: 1-in-%d "
                        "sample" % QUICK_STRIDE, render=render_case),
    SubCheck("head", check_head, strategy=_pairs, enumerate=enumerate_pairs, exhaustive_tiers=("thorough",),
             budget={"quick": 4000, "thorough": 150000}, timeout={"quick": 10, "thorough": 20},
             exhaustive="all ordered pairs of terms of the WIDE, DEEP and LISTS universes (see RULE); quick: 1-in-%d "
                        "sample" % QUICK_STRIDE, render=render_case),
]
