"""C09 - cycle breaking and Clark's completion preserve the ground program's meaning (translation validation).

Every instance (ground program produced by the real engine, its LogicDAG and its CNF) is validated exhaustively
over all assignments of the probabilistic atoms with bit-mask truth tables (pbt/ref/c09_boolean.py)."""
from hypothesis import strategies as st

from pbt.core.api import Failure, Outcome, SubCheck
from pbt.core import plrun
from pbt.gen import programs as gp
from pbt.ref import semantics as sem
from pbt.ref import c09_boolean as rb

PROPERTY_ID = "C09"
LEVEL = "translation_validation"
MAX_ATOMS = 14
MAX_NODES = 150
RULE = ("Instances = (generated program, propagate_evidence flag): programs from pbt.gen.programs.programs() (default "
        "shape, and max_preds=3 / max_preds=2 so that self and mutual recursion is frequent), grounded by the real "
        "engine with LogicFormula.create_from(PrologString(src), propagate_evidence=flag); then "
        "LogicDAG.create_from(lf) and CNF.create_from(dag). Programs the engine does not ground (ProbLog error or "
        "engine crash) produce no instance and are counted in the outcome classes. Oracle, over ALL assignments "
        "of the atoms (<= 14 atoms, else counted as oversize): (i) every query/evidence label of the DAG has the truth "
        "table of the same label in the cyclic formula under least-model semantics (SCC-wise Kleene iteration; "
        "with propagate_evidence the query tables are compared on the assignments that satisfy the evidence); (ii) "
        "bit-sliced unit propagation from the atom columns shows that the definitional clauses of the CNF have "
        "exactly one extension of every atom assignment (DPLL count as fall back) and that extension equals the "
        "DAG's node values on every node; constraint clauses are exactly as_clauses() of the DAG constraints and "
        "mean exactly-one; (iii) weights and (name, key, label) triples are carried over unchanged. Non-trivial: "
        "the cyclic formula has an SCC with a cycle. Distinct = distinct (program, flag).")
ASSUMPTIONS = [
    "the LogicFormula returned by the engine is taken as given (its relation to the program is C01/C11's subject)",
    "least-model semantics is only defined when no negative edge lies inside an SCC of the ground formula; such "
    "instances are not compared in part (i) and are counted in the class 'lf:neg-edge-in-scc' (parts ii/iii still run)",
    "with propagate_evidence=True cycle breaking substitutes propagated evidence values into the query "
    "formulas (documented behaviour of the option), so query tables are required to agree on the assignments "
    "where the evidence holds under least-model semantics; evidence nodes are compared on all assignments",
    "instances with more than 14 atoms or more than 150 formula nodes are skipped before the transformations run "
    "(inconclusive 'oversize'): they cannot be validated exhaustively and cycle breaking is exponential on large SCCs",
]


# ------------------------------------------------------------------------------------------------ extraction

def formula_graph(f):
    """Node table of a LogicFormula/LogicDAG as a reference graph; atoms are keyed by their identifier."""
    g = {}
    atoms = {}
    for i, n, t in f:
        if t == "atom":
            g[i] = ("atom", n.identifier)
            atoms[i] = n
        elif t in ("conj", "disj"):
            g[i] = (t, list(n.children))
        else:
            raise rb.Malformed("node %d has type %r" % (i, t))
    return g, atoms


def labelled(f):
    """{(name, label): key} for query/evidence labels (everything except 'named')."""
    out = {}
    for name, key, label in f.get_names_with_label():
        if label != f.LABEL_NAMED:
            out[(name, label)] = key
    return out


def key_table(values, key, full):
    return rb.literal_value(values, key, full)


def split_cnf_clauses(cnf):
    """(definitional clauses, constraint clauses, problems) from CNF.clauses."""
    defs, cons, odd = [], [], []
    for c in cnf.clauses:
        head = c[0]
        if type(head) is bool:
            if head:
                odd.append(c)
            cons.append(list(c[1:]))
        elif head == "c":
            continue
        elif type(head) is int:
            defs.append(list(c))
        else:
            odd.append(c)
    return defs, cons, odd


def _fmt_assignment(col, order):
    return ", ".join("%s=%d" % (v, (col >> i) & 1) for i, v in enumerate(order))


# ------------------------------------------------------------------------------------------------ pipeline

def build_instance(src, propagate):
    """Ground with the real engine.  ('ok', lf) | ('none', class)"""
    from problog.program import PrologString
    from problog.formula import LogicFormula

    plrun.reset_state()
    try:
        with plrun.captured_output():
            lf = LogicFormula.create_from(PrologString(src), propagate_evidence=propagate)
        return ("ok", lf)
    except plrun.RESOURCE_ERRORS:
        raise
    except Exception as exc:
        kind = plrun.classify_exception(exc)
        if kind[0] == "error":
            return ("none", "not-grounded:" + kind[1])
        return ("none", "not-grounded:engine-crash")


def check(case):
    from problog.formula import LogicDAG
    from problog.cnf_formula import CNF

    prog = case["prog"]
    propagate = bool(case["propagate"])
    feats = set(gp.features(prog))
    feats.add("propagate_evidence:%s" % propagate)
    src = sem.render_program(prog)
    st_, lf = build_instance(src, propagate)
    if st_ != "ok":
        return Outcome(features=sorted(feats), classes=[lf])
    sample = {"program": src, "propagate_evidence": propagate}
    n_cmp = 0
    # size guard BEFORE the transformations: cycle breaking is exponential on large SCCs, and instances with more
    # than MAX_ATOMS atoms cannot be validated exhaustively anyway
    n_lf_atoms = sum(1 for _, _, t in lf if t == "atom")
    if n_lf_atoms > MAX_ATOMS or len(lf) > MAX_NODES:
        feats.add("atoms:15+" if n_lf_atoms > MAX_ATOMS else "nodes:%d+" % MAX_NODES)
        return Outcome(inconclusive="oversize", features=sorted(feats), classes=["instance"])

    def fail(kind, detail, sig=None, nontrivial=True):
        return Outcome(nontrivial=nontrivial, features=sorted(feats), classes=["instance"], sample=sample,
                       failure=Failure(kind, "program:\n%spropagate_evidence=%r\n%s" % (src, propagate, detail),
                                       sig=sig or kind), extra={"disagreements_checked": n_cmp})

    # ---- the two transformations under test
    try:
        with plrun.captured_output():
            dag = LogicDAG.create_from(lf)
    except plrun.RESOURCE_ERRORS:
        raise
    except Exception as exc:
        return fail("crash", "LogicDAG.create_from raised %r\nformula:\n%s" % (exc, lf),
                    sig="break_cycles|" + plrun.exc_signature(exc))
    try:
        with plrun.captured_output():
            cnf = CNF.create_from(dag)
    except plrun.RESOURCE_ERRORS:
        raise
    except Exception as exc:
        return fail("crash", "CNF.create_from raised %r\ndag:\n%s" % (exc, dag),
                    sig="clarks_completion|" + plrun.exc_signature(exc))

    try:
        lf_graph, lf_atoms = formula_graph(lf)
        dag_graph, dag_atoms = formula_graph(dag)
    except rb.Malformed as exc:
        return fail("malformed", str(exc))

    # ---- atoms = assignment variables
    order = []
    seen = set()
    for i in sorted(lf_atoms):
        ident = lf_atoms[i].identifier
        if ident in seen:
            return fail("lf-duplicate-atom", "two atoms of the ground formula share identifier %r" % (ident,))
        seen.add(ident)
        order.append(ident)
    lf_by_ident = dict((n.identifier, n) for n in lf_atoms.values())
    dag_seen = set()
    for i in sorted(dag_atoms):
        n = dag_atoms[i]
        ident = n.identifier
        if ident in dag_seen:
            return fail("dag-duplicate-atom", "two atoms of the DAG share identifier %r\n%s" % (ident, dag))
        dag_seen.add(ident)
        o = lf_by_ident.get(ident)
        if o is None:
            if n.is_extra and n.group is not None and any(
                    m.group == n.group and not m.is_extra for m in dag_atoms.values()):
                # the 'none of the heads' atom of an annotated disjunction: created by the DAG's own constraint
                # when the formula's constraint did not need one (fewer active heads after evidence propagation)
                order.append(ident)
                feats.add("dag:own-extra-atom")
                continue
            return fail("dag-atom-unknown", "DAG atom %d (%r) does not exist in the ground formula\n%s\n%s" % (
                i, ident, lf, dag))
        # (iii) atoms are carried over unchanged
        if o.probability != n.probability or type(o.probability) is not type(n.probability) \
                or o.group != n.group or bool(o.is_extra) != bool(n.is_extra):
            return fail("dag-atom-changed", "atom %r: formula %r, DAG %r" % (ident, o, n))
        w = dag.get_weights().get(i, "<missing>")
        if w != n.probability:
            return fail("dag-weight-changed", "DAG weight of atom %d is %r, probability %r" % (i, w, n.probability))
    natoms = len(order)
    feats.add("atoms:%s" % ("0" if natoms == 0 else "1-3" if natoms < 4 else "4-7" if natoms < 8 else "8-14" if natoms <= 14 else "15+"))
    if natoms > MAX_ATOMS:
        return Outcome(inconclusive="oversize", features=sorted(feats), classes=["instance"])
    tabs, full = rb.var_tables(natoms)
    atom_tables = dict((ident, tabs[i]) for i, ident in enumerate(order))

    # ---- (i) cycle breaking
    try:
        lf_vals, lf_info = rb.least_model(lf_graph, atom_tables, full)
        dag_vals, dag_info = rb.least_model(dag_graph, atom_tables, full)
    except rb.Malformed as exc:
        return fail("malformed", "%s\nformula:\n%s\ndag:\n%s" % (exc, lf, dag))
    nontrivial = lf_info.nontrivial_sccs > 0
    if nontrivial:
        feats.add("scc:largest:%s" % ("1" if lf_info.largest_scc == 1 else "2-3" if lf_info.largest_scc < 4 else "4-7" if lf_info.largest_scc < 8 else "8+"))
        feats.add("scc:count:%s" % ("1" if lf_info.nontrivial_sccs == 1 else "2+"))
    if dag_info.nontrivial_sccs or dag_vals is None:
        return fail("dag-cyclic", "the LogicDAG contains a cycle\n%s" % dag)
    lf_lab = labelled(lf)
    dag_lab = labelled(dag)
    classes = ["instance"]
    if set(lf_lab) != set(dag_lab):
        return fail("dag-labels-differ", "labels only in formula: %s; only in DAG: %s" % (
            sorted(map(str, set(lf_lab) - set(dag_lab))), sorted(map(str, set(dag_lab) - set(lf_lab)))),
                    nontrivial=nontrivial)
    if lf_vals is None:
        classes.append("lf:neg-edge-in-scc")
        feats.add("lf:neg-edge-in-scc")
    else:
        mask = full
        if propagate:
            for (name, label), key in lf_lab.items():
                if label == lf.LABEL_EVIDENCE_POS:
                    mask &= key_table(lf_vals, key, full)
                elif label == lf.LABEL_EVIDENCE_NEG:
                    mask &= full & ~key_table(lf_vals, key, full)
            feats.add("evidence-mask:%s" % ("full" if mask == full else "empty" if mask == 0 else "partial"))
        for (name, label), key in sorted(lf_lab.items(), key=lambda kv: (str(kv[0][0]), kv[0][1])):
            is_ev = label in (lf.LABEL_EVIDENCE_POS, lf.LABEL_EVIDENCE_NEG, lf.LABEL_EVIDENCE_MAYBE)
            t_lf = key_table(lf_vals, key, full)
            t_dag = key_table(dag_vals, dag_lab[(name, label)], full)
            m = full if is_ev else mask
            n_cmp += 1
            diff = (t_lf ^ t_dag) & m
            if diff:
                col = rb.lowest_column(diff)
                return fail("cycle-breaking-mismatch",
                            "%s '%s' (formula key %r, DAG key %r): under the assignment {%s} the least model of the "
                            "cyclic formula gives %d, the DAG gives %d (%d of %d assignments differ)\nformula:\n%s\nDAG:\n%s"
                            % (label, name, key, dag_lab[(name, label)], _fmt_assignment(col, order),
                               (t_lf >> col) & 1, (t_dag >> col) & 1, rb.popcount(diff), full.bit_length(), lf, dag),
                            sig="cycle-breaking-mismatch:%s" % ("evidence" if is_ev else "query"),
                            nontrivial=nontrivial)

    # ---- (iii) names, weights, constraints carried over to the CNF
    if cnf.atomcount != len(dag):
        return fail("cnf-atomcount", "CNF has %d variables, the DAG %d nodes" % (cnf.atomcount, len(dag)),
                    nontrivial=nontrivial)
    nvars = cnf.atomcount
    if dict(cnf.get_weights()) != dict(dag.get_weights()):
        return fail("cnf-weights-changed", "DAG weights %r, CNF weights %r" % (dag.get_weights(), cnf.get_weights()),
                    nontrivial=nontrivial)
    for k, w in cnf.get_weights().items():
        if type(w) is not type(dag.get_weights()[k]):
            return fail("cnf-weights-changed", "weight type of %r changed" % k, nontrivial=nontrivial)
    dn = sorted((str(a), str(b), c) for a, b, c in dag.get_names_with_label())
    cn = sorted((str(a), str(b), c) for a, b, c in cnf.get_names_with_label())
    if dn != cn:
        return fail("cnf-names-changed", "DAG names %r\nCNF names %r" % (dn, cn), nontrivial=nontrivial)
    defs, cons, odd = split_cnf_clauses(cnf)
    if odd:
        return fail("cnf-odd-clause", "unexpected clause heads: %r" % (odd[:5],), nontrivial=nontrivial)
    try:
        rb.check_cnf(nvars, defs + cons)
    except rb.Malformed as exc:
        return fail("cnf-malformed", str(exc), nontrivial=nontrivial)
    dag_constraints = list(dag.constraints())
    if [str(c) for c in cnf.constraints()] != [str(c) for c in dag_constraints]:
        return fail("cnf-constraints-changed", "DAG %r CNF %r" % ([str(c) for c in dag_constraints],
                                                                  [str(c) for c in cnf.constraints()]),
                    nontrivial=nontrivial)
    expected = []
    for c in dag_constraints:
        cl = [list(x) for x in c.as_clauses()]
        expected.extend(cl)
        f = _check_ad_constraint(c, cl, dag_atoms, lf)
        if f is not None:
            return fail(f[0], f[1] + "\nDAG:\n%s" % dag, nontrivial=nontrivial)
        if cl:
            feats.add("ad-constraint")
    if sorted(map(sorted, expected)) != sorted(map(sorted, cons)):
        return fail("cnf-constraint-clauses", "constraint clauses of the CNF %r, as_clauses() of the DAG constraints %r"
                    % (cons, expected), nontrivial=nontrivial)

    # ---- (ii) Clark's completion: unique extension that equals the DAG values
    fixed = dict((i, atom_tables[n.identifier]) for i, n in dag_atoms.items())
    pos, neg, conflict = rb.unit_propagation_tables(nvars, defs, fixed, full)
    undecided = conflict
    for v in range(1, nvars + 1):
        undecided |= (pos[v] & neg[v]) | (full & ~(pos[v] | neg[v]))
    if undecided:
        feats.add("completion:unit-propagation-incomplete")
        # fall back to search on the undecided atom assignments (restricted to the DAG's own atoms)
        dag_order = [n.identifier for _, n in sorted(dag_atoms.items())]
        done = set()
        m = undecided
        budget = 4096
        while m and budget > 0:
            col = rb.lowest_column(m)
            m &= m - 1
            assum = tuple(i if (atom_tables[n.identifier] >> col) & 1 else -i for i, n in sorted(dag_atoms.items()))
            if assum in done:
                continue
            done.add(assum)
            budget -= 1
            try:
                cnt = rb.count_models(nvars, defs, assum)
            except rb.TooLarge:
                return Outcome(inconclusive="model-counter-budget", features=sorted(feats), classes=classes)
            n_cmp += 1
            if cnt != 1:
                return fail("completion-extension-count",
                            "the definitional clauses have %d models extending the atom assignment {%s} (expected "
                            "exactly 1)\nDAG:\n%s\nclauses: %r" % (cnt, _fmt_assignment(col, order), dag, defs),
                            sig="completion-extension-count:%s" % ("0" if cnt == 0 else "many"),
                            nontrivial=nontrivial)
            model = rb.solve(nvars, defs, assum)
            for v in range(1, nvars + 1):
                if model[v] != bool((dag_vals[v] >> col) & 1):
                    return fail("completion-value-mismatch",
                                "under {%s} the unique model of the completion gives node %d = %d, the DAG gives %d\n"
                                "DAG:\n%s\nclauses: %r" % (_fmt_assignment(col, order), v, model[v],
                                                           (dag_vals[v] >> col) & 1, dag, defs),
                                nontrivial=nontrivial)
    decided = full & ~undecided
    for v in range(1, nvars + 1):
        n_cmp += 1
        diff = (pos[v] ^ dag_vals[v]) & decided
        if diff:
            col = rb.lowest_column(diff)
            return fail("completion-value-mismatch",
                        "under {%s} the unique model of the completion gives node %d = %d, the DAG gives %d\nDAG:\n%s\n"
                        "clauses: %r" % (_fmt_assignment(col, order), v, (pos[v] >> col) & 1, (dag_vals[v] >> col) & 1,
                                         dag, defs), nontrivial=nontrivial)
    feats.add("cnf:%s" % ("trivial" if not defs and not cons else "clauses"))
    return Outcome(nontrivial=nontrivial, features=sorted(feats), classes=classes, sample=sample,
                   extra={"disagreements_checked": n_cmp})


def _check_ad_constraint(c, clauses, dag_atoms, lf):
    """Validity of one DAG constraint and of its clause form.  Returns (kind, detail) or None."""
    if type(c).__name__ != "ConstraintAD":
        return ("dag-constraint-type", "unexpected constraint %s in the DAG" % c)
    nodes = sorted(c.nodes)
    for n in nodes:
        a = dag_atoms.get(n)
        if a is None or a.group != c.group or a.is_extra:
            return ("dag-constraint-nodes", "constraint %s (group %r) lists node %r = %r" % (c, c.group, n, a))
    for i, a in dag_atoms.items():
        if a.group == c.group and not a.is_extra and i not in c.nodes:
            return ("dag-constraint-nodes", "atom %d of group %r is missing from constraint %s" % (i, c.group, c))
    if len(nodes) <= 1:
        if clauses:
            return ("constraint-clauses-semantics", "single-node constraint %s has clauses %r" % (c, clauses))
        return None
    e = c.extra_node
    a = dag_atoms.get(e)
    if a is None or not a.is_extra or a.group != c.group:
        return ("dag-constraint-nodes", "constraint %s has extra node %r = %r" % (c, e, a))
    members = nodes + [e]
    k = len(members)
    if k > 12:
        return None
    tabs, full = rb.var_tables(k)
    tmap = dict((m, tabs[i]) for i, m in enumerate(members))
    for cl in clauses:
        for l in cl:
            if abs(l) not in tmap:
                return ("constraint-clauses-semantics", "clause %r of %s mentions a node outside the constraint" % (cl, c))
    got = rb.cnf_table(clauses, tmap, full)
    exactly_one = 0
    for i in range(k):
        exactly_one |= 1 << (1 << i)
    if got != exactly_one:
        return ("constraint-clauses-semantics", "as_clauses() of %s = %r does not mean 'exactly one of %r'" % (
            c, clauses, members))
    return None


# ------------------------------------------------------------------------------------------------ generation

def _strategy():
    progs = st.one_of(gp.programs(), gp.programs(max_preds=3), gp.programs(max_preds=3),
                      gp.programs(max_preds=2, max_clauses=4), gp.dense_cycles(), gp.dense_cycles())
    # the flag is drawn first: drawn after a large program it is mostly False (Hypothesis runs out of entropy)
    return st.tuples(st.booleans(), progs).map(lambda t: {"prog": t[1], "propagate": t[0]})


def render(case):
    return sem.render_program(case["prog"]) + "%% propagate_evidence=%r" % case["propagate"]


KNOWN_CLASSES = {}

SUBCHECKS = [
    SubCheck("pipeline", check, strategy=_strategy, budget={"quick": 2400, "thorough": 60000},
             timeout={"quick": 5, "thorough": 20}, render=render),
]
