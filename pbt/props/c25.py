"""C25 - exported ground programs keep the original semantics (translation validation)."""
from hypothesis import strategies as st

from pbt.core.api import Failure, Outcome, SubCheck
from pbt.core import plrun
from pbt.gen import programs as gp
from pbt.ref import semantics as sem

PROPERTY_ID = "C25"
LEVEL = "translation_validation"
RULE = ("Every export instance of a C01-style generated program is validated: (1) LogicFormula.create_from(..., "
        "label_all=True, avoid_name_clash=True, keep_order=True) as the ground task does, to_prolog(), re-parse and "
        "re-evaluate with ProbLog: same probabilities for the exported (ground) queries and the same "
        "inconsistent-evidence verdict as the original program; (2) the same through LogicDAG (cycle breaking); "
        "(3) CNF.to_dimacs() re-read by the harness's own DIMACS reader has exactly the models of the internal CNF "
        "(truth tables over all variables, <= 16 variables). Non-trivial: the ground program has a rule (derived "
        "atom) and >= 1 probabilistic atom. programs = export instances validated; disagreements_checked = number of "
        "(query probability | model table) comparisons made.")
ASSUMPTIONS = ["the re-evaluation uses ProbLog itself (the exported text is ProbLog syntax): this validates the export, "
               "with the original evaluation anchored to the reference semantics by C01",
               "only ground queries are exported by to_prolog(); non-ground query patterns are compared through their "
               "ground instances"]

OPTS = dict(label_all=True, avoid_name_clash=True, keep_order=True)


def _export(src, cls_name):
    from problog.program import PrologString
    from problog.formula import LogicFormula, LogicDAG
    from problog.engine import DefaultEngine

    cls = LogicFormula if cls_name == "LogicFormula" else LogicDAG
    plrun.reset_state()
    try:
        with plrun.captured_output():
            eng = DefaultEngine(**OPTS)
            db = eng.prepare(PrologString(src))
            gp_ = cls.create_from(db, engine=eng, database=db, **OPTS)
            return ("ok", gp_.to_prolog(), gp_)
    except plrun.CaseTimeout:
        raise
    except BaseException as exc:
        if isinstance(exc, (KeyboardInterrupt, SystemExit)):
            raise
        return plrun.classify_exception(exc) + (None,)


def _read_dimacs(text):
    nvars = None
    clauses = []
    for line in text.split("\n"):
        line = line.strip()
        if not line or line.startswith("c"):
            continue
        if line.startswith("p"):
            parts = line.split()
            nvars = int(parts[2])
            continue
        lits = [int(x) for x in line.split()]
        assert lits[-1] == 0, line
        clauses.append(lits[:-1])
    return nvars, clauses


def _models(nvars, clauses):
    """Bitmask over the 2^nvars assignments of those satisfying all clauses."""
    n = 1 << nvars
    full = (1 << n) - 1
    vm = {}
    for v in range(1, nvars + 1):
        stride = 1 << (v - 1)
        block = ((1 << stride) - 1) << stride
        period = stride * 2
        vm[v] = block * (((1 << n) - 1) // ((1 << period) - 1))
    m = full
    for cl in clauses:
        c = 0
        for l in cl:
            c |= vm[abs(l)] if l > 0 else (full & ~vm[abs(l)])
        m &= c
    return m


def check(case):
    prog = case["prog"]
    feats = gp.features(prog)
    src = sem.render_program(prog)
    base = plrun.run_problog(src)
    if base[0] == "resource":
        return Outcome(inconclusive=base[1], features=feats)
    checked = 0
    failure = None
    for cls_name in ("LogicFormula", "LogicDAG"):
        ex = _export(src, cls_name)
        if ex[0] == "resource":
            return Outcome(inconclusive=ex[1], features=feats)
        if ex[0] != "ok":
            # grounding itself failed: must be the same failure as plain inference
            if (ex[0], ex[1]) != (base[0], base[1]):
                failure = Failure("export-error", "%s export raised %r; plain inference gives %r" % (cls_name, ex[:2], base),
                                  sig="%s|export-error:%s/%s" % (cls_name, plrun._sigpart(ex[:2]), plrun._sigpart(base)))
                break
            continue
        text = ex[1]
        res = plrun.run_problog(text)
        if res[0] == "resource":
            return Outcome(inconclusive=res[1], features=feats)
        if base[0] != "ok" or res[0] != "ok":
            checked += 1
            if (base[0], base[1] if base[0] != "ok" else None) != (res[0], res[1] if res[0] != "ok" else None):
                failure = Failure("outcome-mismatch", "%s export re-evaluates to %r, original %r\n--- exported:\n%s" % (
                    cls_name, res, base, text), sig="%s|outcome-mismatch:%s/%s" % (cls_name, plrun._sigpart(base), plrun._sigpart(res)))
                break
            continue
        db_, dr = plrun.drop_zero(base[1]), plrun.drop_zero(res[1])
        for k in sorted(set(db_) | set(dr)):
            if "X" in k and any(ch.isdigit() for ch in k):  # non-ground placeholder
                continue
            checked += 1
            if not plrun.close(db_.get(k, 0.0), dr.get(k, 0.0)):
                failure = Failure("prob-mismatch", "%s export: %s original=%r re-evaluated=%r\n--- exported:\n%s" % (
                    cls_name, k, db_.get(k, 0.0), dr.get(k, 0.0), text), sig="%s|prob-mismatch" % cls_name)
                break
        if failure is not None:
            break
        if cls_name == "LogicDAG" and ex[2] is not None:
            # DIMACS
            try:
                from problog.cnf_formula import CNF

                with plrun.captured_output():
                    cnf = CNF.create_from(ex[2])
                    text_d = cnf.to_dimacs()
                nv, cls_d = _read_dimacs(text_d)
                internal = []
                for c in cnf.clauses:
                    head, body = c[0], c[1:]
                    if isinstance(head, str):
                        continue  # comment
                    if head is None or (type(head) == bool and not head):
                        internal.append(list(body))
                    else:
                        internal.append([head] + list(body))
                if nv != cnf.atomcount:
                    failure = Failure("dimacs-varcount", "header says %s variables, CNF has %s" % (nv, cnf.atomcount))
                elif nv <= 16:
                    checked += 1
                    if _models(nv, cls_d) != _models(nv, internal):
                        failure = Failure("dimacs-models", "DIMACS text and internal CNF have different models\n%s" % text_d)
                else:
                    feats.add("dimacs:too-many-vars")
                    if sorted(map(sorted, cls_d)) != sorted(map(sorted, internal)):
                        failure = Failure("dimacs-clauses", "clause multisets differ (CNF too large for the model table)")
            except plrun.CaseTimeout:
                raise
            except plrun.RESOURCE_ERRORS:
                return Outcome(inconclusive="resource", features=feats)
            except Exception as exc:
                failure = Failure("crash", "CNF/DIMACS export: %r" % exc, sig="dimacs|" + plrun.exc_signature(exc))
    has_rule = any(s[0] in ("rule", "rule_or") or (s[0] == "ad" and s[2]) for s in prog)
    has_prob = any(s[0] in ("pfact", "ad") for s in prog)
    return Outcome(nontrivial=has_rule and has_prob and base[0] == "ok", features=sorted(feats), failure=failure,
                   classes=[base[0] if base[0] != "error" else "error:" + base[1]],
                   extra={"disagreements_checked": checked}, sample={"program": src})


def _strategy():
    return st.one_of(gp.programs(), gp.programs(), gp.programs(evidence_bias=True)).map(lambda p: {"prog": p})


def _recursive_with_ad(case, failure):
    prog = case["prog"]
    return bool(gp.cyclic_preds(prog)[2]) and any(s[0] == "ad" for s in prog)


KNOWN_CLASSES = {
    "keep_all_body_disjunction": lambda case, failure: any(s[0] == "rule_or" for s in case["prog"]),
    "cyclic_or_complement": lambda case, failure: gp.cyclic_body_disjunction_with_complement(case["prog"]),
    "recursive_with_ad": _recursive_with_ad,
    "negcycle_fp": lambda case, failure: gp.neg_on_cyclic_goal_under_active_cycle(case["prog"]),
    "neg_under_cycle": lambda case, failure: gp.neg_under_active_cycle(case["prog"]),
    "ad_cyclic_complement": lambda case, failure: gp.cyclic_multihead_ad_with_complementary_body(case["prog"]),
    "shared_var_call": lambda case, failure: gp.shared_var_call(case["prog"]),
}

SUBCHECKS = [
    SubCheck("export", check, strategy=_strategy, budget={"quick": 700, "thorough": 12000},
             timeout={"quick": 15, "thorough": 60}, render=lambda c: sem.render_program(c["prog"])),
]
