"""C11 - the ground-program builder preserves Boolean meaning (problog/formula.py, LogicFormula).

Model-based testing of operation histories: every builder call is applied to a real `LogicFormula` and to a
naive symbolic model (`pbt.ref.c11_boolean.Model`: no folding, no sharing, no collapsing).  After EVERY step
the node table of the real formula is read back through the public iteration (`for i, n, t in formula`) and
evaluated by the reference evaluator (truth tables as bitmasks, least fixpoint on positive cycles); every key
returned so far must still denote the function of the atoms that the model computes for it.

Case format (JSON):
  histories : {"options": {auto_compact, keep_order, keep_duplicates, keep_all, avoid_name_clash, max_arity},
               "semiring": null | "prob" | "logprob",          (the propagate_weights semiring)
               "atoms": [{"p": null|false|true|0.0|1.0|0.3|"c0.0"|"c1.0"|"c0.3", "group": null|int,
                          "ident": "int"|"str", "named": bool}, ...],
               "ops": [op, ...]}
  exhaustive: {"prefix": [op, ...], "depth": D}   all sequences over the fixed alphabet (see _alphabet) that start
               with `prefix` and have at most D calls after the two add_atom calls.
Operations (arguments refer to the list of keys returned so far, which starts with [TRUE, FALSE]; a literal is
[index, negated], a non-negative index is taken modulo the number of keys, a negative index -1-k selects the k-th
most recent mutable disjunction (modulo their number; |index| modulo the number of keys when there is none)):
  ["atom", i]                                   add_atom(atom spec i modulo number of specs)
  ["and", [lit...], name, compact]              add_and(keys, name=, compact=)
  ["or", [lit...], readonly, placeholder, name, compact]
  ["disj", m, lit]                              add_disjunct(m-th most recent mutable disjunction, key)
  ["neg", lit, use_add_not]                     negate(key) / add_not(key)
  ["name", lit, name, label, keep_name]         add_name(Term, key, label, keep_name)
"""
from hypothesis import strategies as st

from pbt.core.api import Failure, Outcome, SubCheck
from pbt.core.plrun import exc_signature
from pbt.ref import c11_boolean as ref

PROPERTY_ID = "C11"
LEVEL = "exploration"
RULE = ("Hypothesis-generated call histories (all atoms added first, then <= 15 calls in 'histories', <= 40 in "
        "'long_histories') on LogicFormula(**options) with "
        "options from {auto_compact, keep_order, keep_duplicates, keep_all, avoid_name_clash} x max_arity {0,2,3} x "
        "propagate_weights {none, SemiringProbability, SemiringLogProbability}; 2-4 atoms with probabilities from "
        "{None, False, True, 0.0, 1.0, 0.3, Constant(0.0), Constant(1.0), Constant(0.3)}, optional AD group, int or "
        "str identifier, optional name; calls add_atom / add_and / add_or(readonly|mutable|placeholder, compact=) / "
        "add_disjunct / negate / add_not / add_name whose arguments are earlier returned keys (index modulo the "
        "number of keys, incl. TRUE, FALSE and negations; a negative index addresses the k-th most recent mutable "
        "disjunction; one generator alternative emits the pattern mutable-or / compound on it / add_disjunct). Mutable disjunctions may be closed into positive cycles; "
        "a disjunct that would close a cycle through a negation (decided on the model) is skipped. Oracle after "
        "every call: every key returned so far denotes, in the real node table evaluated by the reference "
        "evaluator, the truth table the naive model gives it (least fixpoint on cycles); add_disjunct must return "
        "its key argument (docstring). Plus the bounded-exhaustive family: after add_atom(a), add_atom(b), all "
        "sequences of <= 3 (quick) / <= 4 (thorough) calls over a fixed alphabet, default options. Non-trivial: the "
        "history has a materialised mutable disjunction that is extended by an add_disjunct call after a compound "
        "node was built on top of it. Distinct = distinct case (histories) / distinct prefix (exhaustive; the "
        "counters 'sequences' and 'nontrivial_sequences' count call sequences).")
ASSUMPTIONS = [
    "an atom that is materialised as a node is an independent Boolean variable; add_atom with probability None / "
    "False and keep_all=False is the documented constant TRUE / FALSE",
    "atoms that are deterministic by weight but may legitimately be either materialised or folded (probability "
    "None/False under keep_all, whose nodes get the weights true()/false(); probabilities 0/1 under a "
    "propagate_weights semiring) are modelled as variables and compared only on the worlds where they have their "
    "deterministic value - sound under both readings; differences outside those worlds are only counted "
    "('diff_outside_det_worlds')",
    "add_disjunct is called only on keys returned by add_or(readonly=False / placeholder=True) (the documented "
    "domain) and not when that key is FALSE (documented ValueError); add_or/add_and are not called with an empty "
    "component list unless placeholder=True (the code asserts non-empty content)",
    "AD groups add constraints and an extra atom, which are not part of any key's Boolean function",
    "the reference evaluator is cross-checked against an independent per-world proof search on the final tables "
    "(a disagreement is a harness error, not a violation)",
]

_OPTION_NAMES = ("auto_compact", "keep_order", "keep_duplicates", "keep_all", "avoid_name_clash")
_DEFAULT_OPTIONS = {"auto_compact": True, "keep_order": False, "keep_duplicates": False, "keep_all": False,
                    "avoid_name_clash": False, "max_arity": 0}
_PLAIN_ATOM = {"p": 0.3, "group": None, "ident": "int", "named": False}


class _Stop(Exception):
    """Carries a Failure out of the machine."""

    def __init__(self, failure):
        Exception.__init__(self)
        self.failure = failure


def _det_value(p):
    """Deterministic truth value implied by a probability (None when the atom is a genuine choice)."""
    if p is None:
        return True
    if p is False:
        return False
    if p is True:
        return None  # WEIGHT_NEUTRAL: weight (one, one), free
    if isinstance(p, str):
        p = float(p[1:])
    if p == 0.0:
        return False
    if p == 1.0:
        return True
    return None


class _Machine(object):
    """Real formula + naive model, driven by the same operations."""

    def __init__(self, options, semiring, atoms, real=True):
        self.options = dict(_DEFAULT_OPTIONS)
        self.options.update(options or {})
        self.semiring_name = semiring
        self.atoms = atoms
        self.nvars = len(atoms)
        self.full = ref.full_mask(self.nvars)
        self.care = self.full
        self.model = ref.Model(self.nvars)
        self.mkeys = [0, None]
        self.rkeys = [0, None]
        self.origin = ["TRUE", "FALSE"]  # which call produced key j
        self.muts = []  # indices into keys of mutable disjunctions
        self.atom_lit = {}  # spec index -> model literal
        self.ident_var = {}
        self.built_on = set()  # model nodes of mutable disjunctions with a compound built on top of them
        self.nontrivial = False
        self.feats = set()
        self.ret_failure = None
        self.diff_outside = 0
        self.steps = 0
        self.last_op = None
        self.f = None
        if real:
            from problog.formula import LogicFormula
            from problog.logic import Term, Constant

            sr = None
            if semiring is not None:
                from problog.evaluator import SemiringProbability, SemiringLogProbability

                sr = {"prob": SemiringProbability, "logprob": SemiringLogProbability}[semiring]()
            self.f = LogicFormula(propagate_weights=sr, **self.options)
            self.Term = Term
            self.Constant = Constant

    # ---------------------------------------------------------------------------------------- helpers

    def _lit(self, lit):
        """[index, negated] -> (position in the key list, real key, model literal)."""
        if lit[0] < 0 and self.muts:
            j = self.muts[-1 - ((-lit[0] - 1) % len(self.muts))]  # negative index -1-k: k-th most recent mutable
        else:
            j = abs(lit[0]) % len(self.mkeys)
        mk = self.mkeys[j]
        if lit[1]:
            mk = ref.Model.negate(mk)
        rk = None
        if self.f is not None:
            rk = self.rkeys[j]
            if lit[1]:
                rk = self.f.negate(rk)
        return j, rk, mk

    def _name(self, idx):
        if idx is None or self.f is None:
            return None
        return self.Term("n%d" % (idx % 3))

    def _push(self, rk, mk, origin):
        self.rkeys.append(rk)
        self.mkeys.append(mk)
        self.origin.append(origin)

    def _note_built_on(self, mlits):
        if not self.model.mutable:
            return
        for ml in mlits:
            for k in self.model.reach(ml):
                if k in self.model.mutable:
                    self.built_on.add(k)

    # ---------------------------------------------------------------------------------------- operations

    def apply(self, op):
        """Apply one operation to the real formula and to the model.  Raises _Stop(failure) on a crash."""
        self.steps += 1
        self.last_op = op
        kind = op[0]
        try:
            getattr(self, "_op_" + kind)(op)
        except _Stop:
            raise
        except Exception as exc:  # a failure of the code under test (the model side does not raise)
            if isinstance(exc, (ref.NegativeCycle, ref.DanglingKey)):
                raise
            raise _Stop(Failure("crash", "step %d %r raised %r\n%s" % (self.steps, op, exc, self.describe()),
                                sig="crash:" + exc_signature(exc)))

    def _op_atom(self, op):
        i = op[1] % len(self.atoms)
        spec = self.atoms[i]
        p = spec["p"]
        keep_all = self.options["keep_all"]
        det = _det_value(p)
        self.feats.add("atom:p=%s" % ("Constant" if isinstance(p, str) else repr(p)))
        if p is None and not keep_all:
            mk = 0  # documented: deterministically true, returns TRUE
        elif p is False and not keep_all:
            mk = None
        else:
            mk = self.atom_lit.get(i)
            if mk is None:
                mk = self.model.atom(i)
                self.atom_lit[i] = mk
            if det is not None and (self.semiring_name is not None or p is None or p is False):
                vm = ref.var_mask(i, self.nvars)
                self.care &= vm if det else (self.full ^ vm)
                self.feats.add("atom:det-by-weight")
        rk = None
        if self.f is not None:
            ident = i if spec.get("ident", "int") == "int" else "a%d" % i
            self.ident_var[ident] = i
            rp = self.Constant(float(p[1:])) if isinstance(p, str) else p
            group = None if spec.get("group") is None else (spec["group"], ())
            name = self.Term("at%d" % i) if spec.get("named") else None
            if group is not None:
                self.feats.add("atom:group")
            rk = self.f.add_atom(ident, rp, group=group, name=name)
        self._push(rk, mk, "atom")

    def _op_and(self, op):
        lits = [self._lit(l) for l in op[1]]
        if not lits:
            self.feats.add("skip:empty-and")
            return
        name = self._name(op[2] if len(op) > 2 else None)
        compact = op[3] if len(op) > 3 else None
        mls = [l[2] for l in lits]
        self._note_built_on(mls)
        mk = self.model.conj(mls)
        rk = None
        if self.f is not None:
            rk = self.f.add_and([l[1] for l in lits], name=name, compact=compact)
            self._result_features("and", rk)
        self._push(rk, mk, "and")

    def _op_or(self, op):
        lits = [self._lit(l) for l in op[1]]
        readonly = op[2] if len(op) > 2 else True
        placeholder = op[3] if len(op) > 3 else False
        name = self._name(op[4] if len(op) > 4 else None)
        compact = op[5] if len(op) > 5 else None
        if not lits and not placeholder:
            self.feats.add("skip:empty-or")
            return
        mutable = (not readonly) or placeholder
        mls = [l[2] for l in lits]
        self._note_built_on(mls)
        mk = self.model.disj(mls, mutable=mutable)
        rk = None
        if self.f is not None:
            rk = self.f.add_or([l[1] for l in lits], readonly=readonly, placeholder=placeholder, name=name,
                               compact=compact)
            self._result_features("or-mutable" if mutable else "or", rk)
        if mutable:
            self.muts.append(len(self.mkeys))
        self._push(rk, mk, "or-mutable" if mutable else "or")

    def _op_disj(self, op):
        if not self.muts:
            self.feats.add("skip:no-mutable")
            return
        t = self.muts[-1 - (op[1] % len(self.muts))]
        mk = self.mkeys[t]
        j, rc, mc = self._lit(op[2])
        if self.f is not None and self.rkeys[t] is None:
            self.feats.add("skip:disjunct-on-FALSE")  # documented ValueError
            return
        before = None
        if self.f is not None:
            before = self.model.evaluate()[0][mk]
        if not self.model.extend(mk, mc):
            self.feats.add("skip:negative-cycle")
            return
        if self.f is None:
            return
        rk = self.rkeys[t]
        ret = self.f.add_disjunct(rk, rc)
        effective = rk != 0 and rc is not None
        if effective:
            self.feats.add("disjunct:effective")
            if mk in self.built_on:
                self.nontrivial = True
            if self.model.evaluate()[0][mk] != before:
                self.feats.add("disjunct:changes-meaning")
            if mk in self.model.reach(mc):
                self.feats.add("disjunct:closes-cycle")
        if not (ret == rk and type(ret) == type(rk)) and self.ret_failure is None:
            self.ret_failure = Failure(
                "return-mismatch",
                "step %d %r: add_disjunct(%r, %r) returned %r; its docstring says ':return: key' (%r), and the "
                "returned value read as a key denotes %s\n%s"
                % (self.steps, op, rk, rc, ret, rk, "FALSE" if ret is None else "something else", self.describe()),
                sig="add_disjunct-return")

    def _op_neg(self, op):
        j, rk, mk = self._lit([op[1][0], False])
        r = None
        if self.f is not None:
            r = self.f.add_not(rk) if (len(op) > 2 and op[2]) else self.f.negate(rk)
        self._push(r, ref.Model.negate(mk), "neg")

    def _op_name(self, op):
        if self.f is None:
            return
        j, rk, mk = self._lit(op[1])
        label = [None, self.f.LABEL_NAMED, self.f.LABEL_QUERY][(op[3] if len(op) > 3 else 0) % 3]
        keep_name = bool(op[4]) if len(op) > 4 else False
        self.f.add_name(self._name(op[2]), rk, label, keep_name)

    def _result_features(self, what, rk):
        if rk == 0 and rk is not None:
            self.feats.add(what + ":folded-TRUE")
        elif rk is None:
            self.feats.add(what + ":folded-FALSE")
        elif rk in [k for k in self.rkeys if k is not None and k != 0] or \
                -rk in [k for k in self.rkeys if k is not None and k != 0]:
            self.feats.add(what + ":reused-or-collapsed")
        else:
            self.feats.add(what + ":new-node")

    # ---------------------------------------------------------------------------------------- oracle

    def real_table(self):
        table = []
        for i, n, t in self.f:
            if i != len(table) + 1:
                raise _Stop(Failure("table-iteration", "iteration yields key %r at position %d" % (i, len(table) + 1)))
            if t == "atom":
                table.append(("atom", self.ident_var.get(n.identifier) if _hashable(n.identifier) else None))
            elif t in ("conj", "disj"):
                table.append((t, tuple(n.children)))
            else:
                raise _Stop(Failure("table-node-type", "node %d has type %r" % (i, t)))
        return table

    def describe(self):
        lines = ["options=%r semiring=%r atoms=%r" % (self.options, self.semiring_name, self.atoms)]
        if self.f is not None:
            try:
                lines.append("real table: " + "; ".join(
                    "%d:%s" % (i, "atom(%r)" % (n.identifier,) if t == "atom" else "%s%r" % (t, tuple(n.children)))
                    for i, n, t in self.f))
            except Exception as exc:  # pragma: no cover
                lines.append("real table unreadable: %r" % (exc,))
            lines.append("real keys : %r" % (self.rkeys,))
        lines.append("model     : " + "; ".join("%d:%s%r" % (i + 1, n[0], n[1]) for i, n in enumerate(self.model.table)))
        lines.append("model keys: %r" % (self.mkeys,))
        return "\n".join(lines)

    def check(self):
        """The invariant: every key returned so far denotes its modelled function.  Raises _Stop(failure)."""
        op = self.last_op
        try:
            table = self.real_table()
            rval, rinfo = ref.evaluate(table, self.nvars)
        except ref.NegativeCycle as exc:
            raise _Stop(Failure("negative-cycle", "step %d %r: the real node table has a cycle through a negation "
                                "although the call sequence has none: %s\n%s" % (self.steps, op, exc, self.describe()),
                                sig="negative-cycle-in-table"))
        except ref.DanglingKey as exc:
            raise _Stop(Failure("dangling-child", "step %d %r: %s\n%s" % (self.steps, op, exc, self.describe()),
                                sig="dangling-child"))
        if rinfo["foreign"]:
            foreign = set(rinfo["foreign"])
            for node in table:
                if node[0] != "atom" and any(c and abs(c) in foreign for c in node[1]):
                    raise _Stop(Failure("foreign-atom", "step %d %r: a compound node refers to an atom that no call "
                                        "passed as an argument\n%s" % (self.steps, op, self.describe())))
        mval, minfo = self.model.evaluate()
        if minfo["cyclic"]:
            self.feats.add("model:positive-cycle")
        if rinfo["cyclic"]:
            self.feats.add("real:positive-cycle")
        full = self.full
        for j in range(2, len(self.mkeys)):
            rk = self.rkeys[j]
            if rk is not None and not (type(rk) is int):
                raise _Stop(Failure("key-type", "step %d %r: key #%d returned by %s is %r (neither None nor an int)\n%s"
                                    % (self.steps, op, j, self.origin[j], rk, self.describe()),
                                    sig="key-type:" + self.origin[j]))
            try:
                rv = ref.lit_value(rval, rk, full)
            except ref.DanglingKey as exc:
                raise _Stop(Failure("dangling-key", "step %d %r: key #%d: %s\n%s" % (self.steps, op, j, exc, self.describe()),
                                    sig="dangling-key:" + self.origin[j]))
            mv = ref.lit_value(mval, self.mkeys[j], full)
            diff = rv ^ mv
            if diff & self.care:
                raise _Stop(Failure(
                    "meaning-mismatch",
                    "after step %d %r: key #%d (returned by %s as %r) denotes truth table %s in the real formula, but "
                    "the call sequence describes %s (bit w = world w, atom i true iff bit i of w; worlds compared: %s)\n%s"
                    % (self.steps, op, j, self.origin[j], rk, _bits(rv, self.nvars), _bits(mv, self.nvars),
                       _bits(self.care, self.nvars), self.describe()),
                    sig="meaning-mismatch:after-%s:key-from-%s" % (op[0], self.origin[j])))
            elif diff:
                self.diff_outside += 1
        self._tables = (table, rval, mval)

    def crosscheck(self, budget=200000):
        """Reference evaluator vs independent proof search on both final tables (harness self-check)."""
        table, rval, mval = self._tables
        b = [budget]
        try:
            for j in range(2, len(self.mkeys)):
                for tab, val, key, what in ((table, rval, self.rkeys[j], "real"),
                                            (self.model.table, mval, self.mkeys[j], "model")):
                    got = ref.truth_table_by_proof(tab, key, self.nvars, b)
                    exp = ref.lit_value(val, key, self.full)
                    if got != exp:
                        raise AssertionError("reference evaluator and proof search disagree on the %s table, key %r: "
                                             "%s vs %s\n%s" % (what, key, _bits(exp, self.nvars),
                                                               _bits(got, self.nvars), self.describe()))
        except ref.ProofBudget:
            return False
        return True


def _hashable(x):
    try:
        hash(x)
        return True
    except TypeError:
        return False


def _bits(mask, nvars):
    return format(mask, "0%db" % (1 << nvars))[::-1]


# ================================================================================================ histories


def check_history(case):
    ops = case["ops"]
    m = _Machine(case.get("options"), case.get("semiring"), case["atoms"])
    for k, v in sorted(m.options.items()):
        if v != _DEFAULT_OPTIONS[k]:
            m.feats.add("opt:%s=%r" % (k, v))
    if case.get("semiring"):
        m.feats.add("opt:semiring=" + case["semiring"])
    try:
        for op in ops:
            m.apply(op)
            m.feats.add("op:" + op[0])
            m.check()
        xc = m.crosscheck() if ops else True
    except _Stop as stop:
        return Outcome(nontrivial=True, features=sorted(m.feats), failure=stop.failure)
    extra = {"diff_outside_det_worlds": m.diff_outside, "calls": m.steps}
    extra["crosscheck_done" if xc else "crosscheck_abandoned"] = 1
    return Outcome(nontrivial=m.nontrivial, features=sorted(m.feats), failure=m.ret_failure, extra=extra)


_lit = st.tuples(st.one_of(st.integers(0, 60), st.integers(0, 60), st.integers(-4, -1)), st.booleans()).map(list)
_lits = st.lists(_lit, min_size=1, max_size=4)
_name = st.one_of(st.none(), st.none(), st.integers(0, 2))
_compact = st.sampled_from([None, None, None, True, False])


def _op_strategy():
    """Strategy of short lists of operations: mostly one call, sometimes the pattern 'mutable disjunction, a
    compound built on it, then an extension'."""
    single = st.one_of(
        st.tuples(st.just("atom"), st.integers(0, 3)),
        st.tuples(st.just("and"), _lits, _name, _compact),
        st.tuples(st.just("and"), _lits, _name, _compact),
        st.tuples(st.just("or"), _lits, st.just(True), st.just(False), _name, _compact),
        st.tuples(st.just("or"), _lits, st.just(False), st.just(False), _name, _compact),
        st.tuples(st.just("or"), _lits, st.just(False), st.just(False), _name, _compact),
        st.tuples(st.just("or"), st.lists(_lit, max_size=2), st.booleans(), st.just(True), _name, _compact),
        st.tuples(st.just("disj"), st.integers(0, 7), _lit),
        st.tuples(st.just("disj"), st.integers(0, 7), _lit),
        st.tuples(st.just("disj"), st.integers(0, 7), _lit),
        st.tuples(st.just("neg"), _lit, st.booleans()),
        st.tuples(st.just("name"), _lit, st.integers(0, 2), st.integers(0, 2), st.booleans()),
    ).map(_listify)
    pattern = st.tuples(
        st.tuples(st.just("or"), st.lists(_lit, max_size=2), st.just(False), st.just(True), _name, _compact),
        st.tuples(st.sampled_from(["and", "or"]), st.tuples(st.tuples(st.just(-1), st.booleans()), _lit)),
        st.tuples(st.just("disj"), st.just(0), _lit),
    ).map(_listify)
    return st.one_of(*([single.map(lambda op: [op])] * 9 + [pattern]))


def _listify(x):
    if isinstance(x, tuple):
        return [_listify(y) for y in x]
    if isinstance(x, list):
        return [_listify(y) for y in x]
    return x


_PROBS = [0.3, 0.3, 0.3, 0.3, 0.3, None, False, True, 0.0, 1.0, "c0.0", "c1.0", "c0.3"]


def _atom_strategy():
    return st.fixed_dictionaries({
        "p": st.sampled_from(_PROBS),
        "group": st.sampled_from([None, None, 0, 1]),
        "ident": st.sampled_from(["int", "int", "str"]),
        "named": st.booleans(),
    })


def _options_strategy():
    d = {k: st.booleans() for k in _OPTION_NAMES}
    d["max_arity"] = st.sampled_from([0, 2, 3])
    return st.fixed_dictionaries(d)


def _history_strategy(max_ops):
    def add_atoms_first(case):
        # every atom is added up front (then the random calls; add_atom may be repeated later)
        flat = [op for group in case["ops"] for op in group][:max_ops]
        case["ops"] = [["atom", i] for i in range(len(case["atoms"]))] + flat
        return case

    def make():
        return st.fixed_dictionaries({
            "options": _options_strategy(),
            "semiring": st.sampled_from([None, None, "prob", "logprob"]),
            "atoms": st.lists(_atom_strategy(), min_size=2, max_size=4),
            "ops": st.lists(_op_strategy(), min_size=3, max_size=max_ops),
        }).map(add_atoms_first)

    return make


_strategy_histories = _history_strategy(15)
_strategy_long_histories = _history_strategy(40)


def render_history(case):
    lines = ["LogicFormula(%s%s)" % (
        ", ".join("%s=%r" % kv for kv in sorted((case.get("options") or {}).items())),
        ", propagate_weights=%s" % case["semiring"] if case.get("semiring") else "")]
    lines.append("atoms: %r" % (case["atoms"],))
    for op in case["ops"]:
        lines.append(repr(op))
    return lines


# ================================================================================================ exhaustive


def _pool(nkeys):
    """Literals offered as arguments: TRUE, FALSE, a, -a, b, and both polarities of every later result."""
    pool = [[0, False], [1, False], [2, False], [2, True], [3, False]]
    for j in range(4, nkeys):
        pool.append([j, False])
        pool.append([j, True])
    return pool


def _alphabet(m):
    """All calls offered in the state of (model-only or real) machine m, in a fixed order."""
    pool = _pool(len(m.mkeys))
    singles = [[l] for l in pool]
    pairs = [[pool[i], pool[j]] for i in range(len(pool)) for j in range(i + 1, len(pool))]
    ops = []
    for args in singles + pairs:
        ops.append(["and", args])
    for args in singles + pairs:
        ops.append(["or", args, True, False])
    ops.append(["or", [], False, True])
    for args in singles + pairs:
        ops.append(["or", args, False, False])
    for mi in range(len(m.muts)):
        for l in pool:
            ops.append(["disj", mi, l])
    return ops


_EXH_ATOMS = [dict(_PLAIN_ATOM), dict(_PLAIN_ATOM)]
_EXH_START = [["atom", 0], ["atom", 1]]


def _model_machine(prefix):
    m = _Machine(None, None, _EXH_ATOMS, real=False)
    for op in _EXH_START + prefix:
        m.apply(op)
    return m


def enumerate_prefixes(tier):
    depth = 4 if tier == "thorough" else 3
    for op1 in _alphabet(_model_machine([])):
        m1 = _model_machine([op1])
        for op2 in _alphabet(m1):
            yield {"prefix": [op1, op2], "depth": depth}


def check_exhaustive(case):
    prefix = case["prefix"]
    depth = case["depth"]
    stats = {"sequences": 0, "nontrivial_sequences": 0, "crosschecks": 0}
    feats = set()
    ret_failure = [None]

    def replay(ops, check_all):
        m = _Machine(None, None, _EXH_ATOMS)
        n = len(_EXH_START) + len(ops)
        for i, op in enumerate(_EXH_START + ops):
            m.apply(op)
            if check_all or i == n - 1:
                m.check()
        return m

    def visit(ops, check_all=False):
        m = replay(ops, check_all)
        stats["sequences"] += 1
        if m.nontrivial:
            stats["nontrivial_sequences"] += 1
        feats.update(m.feats)
        if m.ret_failure is not None and ret_failure[0] is None:
            ret_failure[0] = m.ret_failure
        if len(ops) <= 2 or stats["sequences"] % 16 == 0:
            if m.crosscheck():
                stats["crosschecks"] += 1
        if len(ops) < depth:
            for op in _alphabet(m):
                visit(ops + [op])

    try:
        for k in range(1, len(prefix)):
            replay(prefix[:k], True)  # shorter sequences (checked redundantly by several prefixes)
        visit(list(prefix), True)
    except _Stop as stop:
        return Outcome(nontrivial=True, features=sorted(feats), failure=stop.failure, extra=stats)
    return Outcome(nontrivial=stats["nontrivial_sequences"] > 0, features=sorted(feats), failure=ret_failure[0],
                   extra=stats)


# ================================================================================================ module table


def _has_disjunct_call(case, failure):
    ops = case.get("ops")
    if ops is not None:
        return any(op[0] == "disj" for op in ops)
    # exhaustive: the subtree contains add_disjunct calls as soon as a mutable disjunction can exist
    return True


KNOWN_CLASSES = {"calls_add_disjunct": _has_disjunct_call}

SUBCHECKS = [
    SubCheck("histories", check_history, strategy=_strategy_histories,
             budget={"quick": 4000, "thorough": 40000}, timeout={"quick": 20, "thorough": 60},
             render=render_history),
    SubCheck("long_histories", check_history, strategy=_strategy_long_histories,
             budget={"quick": 500, "thorough": 40000}, timeout={"quick": 20, "thorough": 60},
             render=render_history),
    SubCheck("exhaustive", check_exhaustive, enumerate=enumerate_prefixes,
             timeout={"quick": 60, "thorough": 600},
             exhaustive="after add_atom(a), add_atom(b) (probability 0.3, default options): every sequence of <= 3 "
                        "(quick) / <= 4 (thorough) calls from the alphabet {add_and(args), add_or(args), "
                        "add_or(args, readonly=False), add_or((), placeholder=True), add_disjunct(m, l)} where args is "
                        "a single literal or an unordered pair of distinct literals from the pool {TRUE, FALSE, a, "
                        "-a, b, +r, -r for every earlier result r}, m any mutable disjunction created so far and l any "
                        "pool literal (a call that would close a cycle through a negation, or whose target was "
                        "returned as FALSE, is a no-op of the sequence); one case = one 2-call prefix, "
                        "the check walks all its completions"),
]
