"""C07 - marginals do not depend on the textual order of the program."""
from hypothesis import strategies as st

from pbt.core.api import Failure, Outcome, SubCheck
from pbt.core import plrun
from pbt.gen import programs as gp
from pbt.ref import semantics as sem

PROPERTY_ID = "C07"
LEVEL = "exploration"
RULE = ("C01-style generated programs x Hypothesis-drawn permutations: the statement list is permuted (this moves "
        "clauses within and across predicates, queries and evidence) and every rule/AD body is permuted subject to "
        "the side condition of the statement (every negative literal stays after the positive literals that bind "
        "its variables). Oracle: metamorphic, instance mode (same probabilities, same reported instances, same "
        "accept/reject class) against the original text. Non-trivial: the permutation is not the identity and "
        "either moves a clause of a recursive predicate or reorders a body. Distinct = distinct (program, "
        "permutation). One case in three grounds both texts with evidence propagation on (the command line's "
        "default); one program in five comes from the evidence-biased family (2-3 evidence atoms on derived atoms).")
ASSUMPTIONS = ["metamorphic oracle between two runs of the real code; reference semantics not consulted here"]


def _body_ok(body):
    bound = set()
    for l in body:
        vs = set(t[1] for t in l[2] if t[0] == "v")
        if l[0]:
            if not vs <= bound:
                return False
        else:
            bound |= vs
    return True


def permute(prog, perm, body_keys):
    """perm: list of ints (sort keys) for statements; body_keys: list of lists of ints for bodies."""
    stmts = []
    reordered_body = False
    bi = 0
    for s in prog:
        if s[0] in ("rule", "ad") and len(s[2]) > 1:
            keys = body_keys[bi % len(body_keys)] if body_keys else []
            bi += 1
            idx = sorted(range(len(s[2])), key=lambda i: (keys[i % len(keys)] if keys else 0, i))
            nb = [s[2][i] for i in idx]
            if _body_ok(nb) and nb != s[2]:
                reordered_body = True
                s = [s[0], s[1], nb]
        stmts.append(s)
    order = sorted(range(len(stmts)), key=lambda i: (perm[i % len(perm)] if perm else 0, i))
    out = [stmts[i] for i in order]
    return out, reordered_body, order


def check(case):
    prog = case["prog"]
    feats = gp.features(prog)
    src = sem.render_program(prog)
    ga = {"propagate_evidence": True} if case.get("propagate") else None
    if ga:
        feats.add("propagate_evidence")
    base = plrun.run_problog(src, ground_args=ga)
    if base[0] == "resource":
        return Outcome(inconclusive=base[1], features=feats)
    failure = None
    nontrivial = False
    g, nodes, cyc = gp.cyclic_preds(prog)
    for pi, (perm, bkeys) in enumerate(case["perms"]):
        prog2, reordered, order = permute(prog, perm, bkeys)
        moved_rec = False
        if order != list(range(len(prog))):
            # does the permutation change the relative order of two clauses of a recursive predicate?
            pos = {}
            for newi, oldi in enumerate(order):
                s = prog[oldi]
                heads = []
                if s[0] in ("fact", "rule", "rule_or"):
                    heads = [s[1]]
                elif s[0] == "pfact":
                    heads = [s[2]]
                elif s[0] == "ad":
                    heads = [a for _, a in s[1]]
                for h in heads:
                    pos.setdefault((h[0], len(h[1])), []).append(oldi)
            for pred, seq in pos.items():
                if pred in cyc and seq != sorted(seq):
                    moved_rec = True
        if reordered or moved_rec:
            nontrivial = True
        src2 = sem.render_program(prog2)
        if src2 == src:
            continue
        res = plrun.run_problog(src2, ground_args=ga)
        if res[0] == "resource":
            return Outcome(inconclusive=res[1], features=feats)
        f = plrun.compare_instance_mode(base, res, "original", "permutation %d" % pi)
        if f is not None:
            f.detail += "\n--- permuted program:\n" + src2
            failure = f
            break
    return Outcome(nontrivial=nontrivial, features=sorted(feats), failure=failure,
                   classes=[base[0] if base[0] != "error" else "error:" + base[1]],
                   sample={"program": src, "perms": case["perms"]})


def _strategy(nperm):
    def f():
        perm = st.tuples(st.lists(st.integers(0, 20), min_size=1, max_size=12),
                         st.lists(st.lists(st.integers(0, 5), min_size=1, max_size=3), min_size=1, max_size=4))
        progs = st.one_of(gp.programs(allow_shuffle=False), gp.programs(allow_shuffle=False),
                          gp.programs(allow_shuffle=False, share_bias=True, max_preds=3),
                          gp.programs(allow_shuffle=False, share_bias=True, max_preds=3),
                          gp.programs(allow_shuffle=False, evidence_bias=True))
        # one case in three grounds with evidence propagation (the command line's default) in both runs
        return st.tuples(progs, st.lists(perm, min_size=nperm, max_size=nperm), st.integers(0, 2)).map(
            lambda t: {"prog": t[0], "perms": [[list(p[0]), [list(x) for x in p[1]]] for p in t[1]],
                       "propagate": t[2] == 0})
    return f


KNOWN_CLASSES = {
    "cyclic_or_complement": lambda case, failure: gp.cyclic_body_disjunction_with_complement(case["prog"]),
    "zero_prob_or_complementary_body": lambda case, failure: gp.zero_prob_or_complementary_body(case["prog"]) or (
        # an atom that propagated evidence makes false behaves like a probability-0 annotation
        bool(case.get("propagate")) and any(s[0] == "evidence" for s in case["prog"])),
    "negcycle_fp": lambda case, failure: gp.neg_on_cyclic_goal_under_active_cycle(case["prog"]),
    "neg_under_cycle": lambda case, failure: gp.neg_under_active_cycle(case["prog"]),
    "ad_cyclic_complement": lambda case, failure: gp.cyclic_multihead_ad_with_complementary_body(case["prog"]),
    "shared_var_call": lambda case, failure: gp.shared_var_call(case["prog"]),
}

SUBCHECKS = [
    SubCheck("permute", check, strategy=_strategy(4), budget={"quick": 2000, "thorough": 12000},
             timeout={"quick": 8, "thorough": 60}, render=lambda c: sem.render_program(c["prog"])),
]
