"""C31 - the Bayesian-network export (problog.tasks.bayesnet) preserves the distribution."""
from pbt.core.api import Failure, Outcome, SubCheck
from pbt.core import plrun
from pbt.gen import programs as gp
from pbt.ref import semantics as sem
from pbt.ref import c31_bn as refbn

PROPERTY_ID = "C31"
LEVEL = "exploration"
RULE = ("C01-style generated programs without recursion and without evidence (facts, probabilistic facts incl. "
        "duplicates and probability 0/1, annotated disjunctions with/without bodies, probabilistic rules, several "
        "clauses per head, body disjunctions, stratified negation - every third program is drawn with many negative "
        "body literals and every third program gets two or three extra clauses over fresh probabilistic facts whose bodies list the same atoms in the same order with different polarities and whose heads have equal distributions (same or different head atoms, deterministic / probabilistic / two-headed); 1-3 ground or non-ground positive queries); programs whose predicate graph is recursive are "
        "dropped. The program text is written to a file and problog.tasks.bayesnet.main "
        "itself is run on it (its LogicDAG.createFrom(label_all=True, keep_order=True, ...) call and its "
        "formula_to_bn call are wrapped by recording spies to get at the PGM and at swallowed exceptions); "
        "the PGM's variables / Factor tables / OrCPT parent-value lists are copied into "
        "plain data and multiplied out by pbt/ref/c31_bn.py (independent enumeration of the joint, exact rationals). "
        "Oracle: the network is well-formed (one CPT per variable, parents are variables, acyclic, reachable rows are "
        "distributions, total mass 1) and for every query instance that is a variable of the network P(var=1) equals "
        "ProbLog's probability and the reference probability (1e-9). Query instances that are not variables of the "
        "network (deterministic or impossible atoms) are not compared (the statement is about exported variables). "
        "Non-trivial: >= 3 network variables, at least one exported query compared, and the network contains a "
        "noisy-or (OrCPT with >= 2 parent values) or a multi-valued AD choice variable. Distinct = distinct program.")
ASSUMPTIONS = ["reference semantics (pbt/ref/semantics.py) and plrun.run_problog give the query probabilities",
               "a Factor row is P(rv = values[i] | parents = key); OrCPT is the deterministic or of its "
               "(parent, value) pairs; table keys False/True denote the parent values 0/1",
               "networks with more than 2^16 positive joint states are skipped (inconclusive)"]

MAX_LEAVES = 1 << 16


class _Spy(object):
    """Stands in for a module attribute of problog.tasks.bayesnet and records what passes through it."""

    def __init__(self, real, rec, key):
        self.real = real
        self.rec = rec
        self.key = key

    def _call(self, fn, args, kwargs):
        try:
            out = fn(*args, **kwargs)
        except BaseException as exc:  # noqa - recorded and re-raised unchanged
            self.rec.setdefault("exc", exc)
            raise
        self.rec[self.key] = out
        return out

    def __call__(self, *args, **kwargs):
        return self._call(self.real, args, kwargs)

    def createFrom(self, *args, **kwargs):
        self.rec["ground_kwargs"] = dict(kwargs)
        return self._call(self.real.createFrom, args, kwargs)


def build_bn(src):
    """Run the bn task itself (problog.tasks.bayesnet.main on a file holding `src`, default output format) and
    return the PGM that its formula_to_bn call produced.  main() swallows exceptions (it prints a message and
    exits), so the grounding call and formula_to_bn are wrapped by recording spies; an exception raised inside
    either is re-raised here unchanged."""
    import os
    import tempfile
    import problog.tasks.bayesnet as bnmod

    fd, path = tempfile.mkstemp(suffix=".pl", prefix="c31_", dir=tempfile.gettempdir())
    rec = {}
    real_dag, real_f2bn = bnmod.LogicDAG, bnmod.formula_to_bn
    try:
        with os.fdopen(fd, "w") as f:
            f.write(src)
        bnmod.LogicDAG = _Spy(real_dag, rec, "dag")
        bnmod.formula_to_bn = _Spy(real_f2bn, rec, "bn")
        try:
            result = bnmod.main([path])
        except SystemExit:
            result = None
    finally:
        bnmod.LogicDAG, bnmod.formula_to_bn = real_dag, real_f2bn
        try:
            os.unlink(path)
        except OSError:
            pass
    if "exc" in rec:
        raise rec["exc"]
    if "bn" not in rec:
        raise RuntimeError("bayesnet.main did not build a network: %r" % (result,))
    # (a failure while *printing* the network is outside the statement, which is about the network's distribution)
    return rec["bn"]


def pgm_to_data(bn):
    """Copy a problog.pgm.cpd.PGM into the plain format of pbt/ref/c31_bn.py."""
    from problog.pgm.cpd import OrCPT

    variables = {}
    for name, var in bn.vars.items():
        variables[str(name)] = list(var.values)
    factors = []
    for key, f in bn.factors.items():
        if isinstance(f, OrCPT):
            factors.append({"rv": str(f.rv), "kind": "or",
                            "parentvalues": [[str(p), v] for p, v in f.parentvalues]})
        else:
            rows = []
            for k, row in f.table.items():
                rows.append([list(k), list(row)])
            factors.append({"rv": str(f.rv), "kind": "table", "parents": [str(p) for p in f.parents], "table": rows})
    return variables, factors


def check(case):
    prog = case["prog"]
    feats = gp.features(prog)
    if any(f.startswith("rec:") for f in feats) or any(s[0] == "evidence" for s in prog):
        return Outcome(inconclusive="out-of-domain", features=sorted(feats))
    try:
        ref = sem.evaluate(prog, max_choices=12, max_worlds=1 << 14)
    except sem.TooLarge:
        return Outcome(inconclusive="oversize", features=sorted(feats))
    src = sem.render_program(prog)
    res = plrun.run_problog(src)
    if res[0] == "resource":
        return Outcome(inconclusive=res[1], features=sorted(feats))
    if res[0] != "ok":
        # C01 is the property about inference itself; without ProbLog's probabilities there is nothing to compare
        return Outcome(inconclusive="inference:%s" % (res[1],), features=sorted(feats), classes=["inference-" + res[0]])
    plrun.reset_state()
    try:
        with plrun.captured_output():
            bn = build_bn(src)
            variables, factors = pgm_to_data(bn)
    except plrun.RESOURCE_ERRORS as exc:
        return Outcome(inconclusive=type(exc).__name__, features=sorted(feats))
    except Exception as exc:
        kind, what = plrun.classify_exception(exc)
        sig = "export-%s:%s" % (kind, what)
        return Outcome(features=sorted(feats), classes=["export-" + kind],
                       failure=Failure("export-" + kind, "program:\n%s\nbayesnet export raised %r" % (src, exc), sig=sig),
                       sample={"program": src})
    nvars = len(variables)
    has_nor = any(f["kind"] == "or" and len(f["parentvalues"]) >= 2 for f in factors)
    has_adv = any(f["kind"] == "table" and len(variables.get(f["rv"], ())) >= 3 for f in factors)
    if has_nor:
        feats.add("bn:noisy-or")
    if has_adv:
        feats.add("bn:ad-variable")
    if any(f["kind"] == "table" and f["parents"] for f in factors):
        feats.add("bn:choice-with-parents")
    feats.add("bn:vars:%s" % ("0" if nvars == 0 else "1-2" if nvars < 3 else "3-6" if nvars < 7 else "7-12" if nvars < 13 else "13+"))
    exported = [k for k in ref.probs if k in variables]
    skipped = [k for k in ref.probs if k not in variables]
    # also compare instances ProbLog reports that the reference does not derive (they must have probability 0)
    for k in res[1]:
        if k in variables and k not in exported:
            exported.append(k)
    sample = {"program": src, "variables": nvars, "exported": exported}
    failure = None
    try:
        marg, total, leaves = refbn.marginals(variables, factors, exported, max_leaves=MAX_LEAVES)
    except refbn.TooLarge:
        return Outcome(inconclusive="bn-oversize", features=sorted(feats))
    except refbn.Malformed as exc:
        failure = Failure("bn-malformed", "program:\n%s\nnetwork: %s\n%s" % (src, exc, describe(variables, factors)),
                          sig="bn-malformed:" + exc.kind)
        return Outcome(features=sorted(feats), failure=failure, classes=["malformed"], sample=sample,
                       nontrivial=nvars >= 3 and (has_nor or has_adv))
    if abs(float(total) - 1.0) > 1e-9:
        failure = Failure("bn-mass", "program:\n%s\ntotal mass of the joint is %r\n%s" % (
            src, float(total), describe(variables, factors)))
    compared = 0
    if failure is None:
        for k in exported:
            p_bn = float(marg[k].get(1, 0))
            p_ref = float(ref.probs[k]) if k in ref.probs else 0.0
            p_pl = float(res[1].get(k, 0.0)) if k in res[1] or k not in ref.probs else None
            compared += 1
            if p_pl is not None and not plrun.close(p_bn, p_pl):
                failure = Failure("marginal-mismatch", "program:\n%s\n%s: network marginal %r, ProbLog %r, reference %r\n%s" % (
                    src, k, p_bn, p_pl, p_ref, describe(variables, factors)), sig="marginal-mismatch:problog")
                break
            if not plrun.close(p_bn, p_ref):
                failure = Failure("marginal-mismatch", "program:\n%s\n%s: network marginal %r, ProbLog %r, reference %r\n%s" % (
                    src, k, p_bn, p_pl, p_ref, describe(variables, factors)), sig="marginal-mismatch:reference")
                break
    if skipped:
        feats.add("query-not-a-variable")
    nontrivial = nvars >= 3 and compared >= 1 and (has_nor or has_adv)
    return Outcome(nontrivial=nontrivial, features=sorted(feats), failure=failure,
                   classes=["compared" if compared else "nothing-exported"], sample=sample,
                   extra={"marginals_compared": compared, "joint_states": leaves})


def describe(variables, factors):
    lines = []
    for f in factors:
        if f["kind"] == "or":
            lines.append("  %s = OR%s" % (f["rv"], f["parentvalues"]))
        else:
            lines.append("  %s %s | %s : %s" % (f["rv"], variables.get(f["rv"]), f["parents"], f["table"]))
    return "\n".join(lines)[:3000]


def _in_domain(prog):
    return not any(f.startswith("rec:") for f in gp.features(prog))


SIGN_ATOMS = [["va", []], ["vb", []], ["vc", []]]


def _sign_variant_programs(base_strategy):
    """A generated program plus two or three clauses whose bodies list the same atoms in the same order with
    different polarities and whose heads have the same distribution, e.g. 'w1 :- va, \\+vb.  w1 :- \\+va, vb.' or
    '0.6::w1 :- va, vb.  0.6::w2 :- va, \\+vb.'.  The body atoms are fresh probabilistic facts (so the negations
    cannot break stratification), the heads are fresh atoms (one shared head or one per clause, optionally a
    second AD head, optionally a rule on top of two heads); all new heads are queried."""
    from hypothesis import strategies as st

    @st.composite
    def build(draw):
        base = draw(base_strategy)
        body = [s for s in base if s[0] != "query"]
        queries = [s for s in base if s[0] == "query"]
        natoms = draw(st.integers(2, 3))
        atoms = SIGN_ATOMS[:natoms]
        if draw(st.booleans()):
            atoms = list(reversed(atoms))
        facts = [["pfact", draw(st.sampled_from(gp.PROB_GRID[1:-1])), a] for a in atoms]
        nvar = draw(st.integers(2, 3))
        signs = []
        tries = 0
        while len(signs) < nvar and tries < 20:
            tries += 1
            sg = [draw(st.booleans()) for _ in atoms]
            if sg not in signs:
                signs.append(sg)
        same_head = draw(st.booleans())
        prob = draw(st.sampled_from([None, None, "0.6", "0.25", "0.9"]))
        extra_head = None
        if prob is not None:
            # the two head probabilities must not add up to more than 1
            extra_head = draw(st.sampled_from([None, None, "0.1"] if prob == "0.9" else [None, None, "0.3", "0.1"]))
        rules = []
        heads = []
        for i, sg in enumerate(signs):
            h = ["w1", []] if same_head else ["w%d" % (i + 1), []]
            lits = [[bool(n), a[0], a[1]] for n, a in zip(sg, atoms)]
            if prob is None:
                rules.append(["rule", h, lits])
            elif extra_head is None:
                rules.append(["ad", [[prob, h]], lits])
            else:
                rules.append(["ad", [[prob, h], [extra_head, ["x%d" % (i + 1), []]]], lits])
                heads.append(["x%d" % (i + 1), []])
            if h not in heads:
                heads.append(h)
        # something of the program may sit on top of the new heads
        top = []
        if draw(st.integers(0, 2)) == 0 and len(heads) >= 2:
            top.append(["rule", ["t1", []], [[False, heads[0][0], []], [draw(st.booleans()), heads[1][0], []]]])
            heads.append(["t1", []])
        new = facts + rules + top
        if draw(st.booleans()):
            prog = body + new
        else:
            prog = new + body
        qs = [["query", h, False] for h in heads]
        keep = queries[:draw(st.integers(0, len(queries)))]
        return prog + qs + keep

    return build()


def _strategy():
    from hypothesis import strategies as st

    kw = dict(allow_rec=False, allow_evidence=False, allow_neg_query=False)
    plain = gp.programs(**kw)
    small = gp.programs(max_preds=2, max_clauses=2, **kw)
    # a third of the programs is drawn with many negative body literals, a third gets a pair of clauses that
    # differ only in the polarity of their body literals
    return st.one_of(plain, gp.programs(neg_bias=True, **kw), _sign_variant_programs(small)).filter(_in_domain).map(
        lambda p: {"prog": p})


def render(case):
    return sem.render_program(case["prog"])


def bodyless_multihead_ad(prog):
    """The program has an annotated disjunction with >= 2 heads and no body, or with a body that is certainly
    true for some ground instance (the ground program then has bare choice nodes for its heads)."""
    if any(s[0] == "ad" and len(s[1]) >= 2 and not s[2] for s in prog):
        return True
    if not any(s[0] == "ad" and len(s[1]) >= 2 for s in prog):
        return False
    try:
        ref = sem.evaluate(prog, max_choices=12, max_worlds=1 << 14, want_masks=True)
    except Exception:
        return False
    for head, pos, neg, ch in ref.rules:
        if ch is None or len(ref.gp.choices[ch[0]]) < 2:
            continue
        m = ref.posw
        for a in pos:
            m &= ref.masks.get(a, 0)
        for a in neg:
            m &= ~ref.masks.get(a, 0)
        if m == ref.posw:
            return True
    return False


def negated_fact_alias(prog):
    """Some derived ground atom is true in exactly the worlds in which one probabilistic fact (or body-less AD
    head) is false, e.g. 'r :- \\+p.': the ground program then has no node for it, only the negated fact node."""
    try:
        qs = [s for s in prog if s[0] == "query"]
        ref = sem.evaluate(prog, max_choices=12, max_worlds=1 << 14, want_masks=True)
    except Exception:
        return False
    facts = set()
    for s in prog:
        if s[0] == "pfact":
            facts.add((s[2][0], tuple((t[0], t[1]) for t in s[2][1])))
        elif s[0] == "ad" and not s[2]:
            for _, a in s[1]:
                if all(t[0] != "v" for t in a[1]):
                    facts.add((a[0], tuple((t[0], t[1]) for t in a[1])))
    for f in facts:
        if f not in ref.masks:
            continue
        fm = (ref.full & ~ref.masks[f]) & ref.posw
        for a, m in ref.masks.items():
            if a != f and (m & ref.posw) == fm:
                return True
    return False


def aliased_atoms(prog):
    """Two different ground atoms that are neither certainly true nor certainly false hold in exactly the same
    worlds (e.g. 'r :- p.' as the only clause of r): the compact ground program of the bn task gives them one
    node, which carries one name only."""
    try:
        ref = sem.evaluate(prog, max_choices=12, max_worlds=1 << 14, want_masks=True)
    except Exception:
        return False
    seen = {}
    live = ref.posw
    for a, m in ref.masks.items():
        mm = m & live
        if mm == 0 or mm == live:
            continue
        if mm in seen:
            return True
        seen[mm] = a
    return False


def body_disjunction(prog):
    """Some rule has a disjunction in its body ('q :- (a ; b).'): the ground program has an unnamed or node, which
    enum_clauses (shared with to_prolog) prints as 'None :- a.'."""
    return any(s[0] == "rule_or" for s in prog)


def det_clause_shares_body_with_prob_clause(prog):
    """Some ground instance of a deterministic rule has exactly the body of a ground instance of a probabilistic
    rule / AD with a body (e.g. '0.6::r :- q, s.  r :- q, s.'): enum_clauses then drops the deterministic clause."""
    try:
        ref = sem.evaluate(prog, max_choices=12, max_worlds=1 << 14, want_masks=True)
    except Exception:
        return False
    prob_bodies = set()
    for head, pos, neg, ch in ref.rules:
        if ch is not None and (pos or neg):
            prob_bodies.add((frozenset(pos), frozenset(neg)))
    for head, pos, neg, ch in ref.rules:
        if ch is None and (pos or neg) and (frozenset(pos), frozenset(neg)) in prob_bodies:
            return True
    return False


KNOWN_CLASSES = {
    "det_clause_shares_body_with_prob_clause": lambda case, failure: det_clause_shares_body_with_prob_clause(
        case["prog"]),
    "body_disjunction": lambda case, failure: body_disjunction(case["prog"]),
    "keep_all_body_disjunction": lambda case, failure: body_disjunction(case["prog"]),  # F-OPT-3
    "aliased_atoms": lambda case, failure: aliased_atoms(case["prog"]),
    "shared_var_call": lambda case, failure: gp.shared_var_call(case["prog"]),
    "bodyless_multihead_ad": lambda case, failure: bodyless_multihead_ad(case["prog"]),
    "negated_fact_alias": lambda case, failure: negated_fact_alias(case["prog"]),
}

SUBCHECKS = [
    SubCheck("export", check, strategy=_strategy, budget={"quick": 800, "thorough": 10000},
             timeout={"quick": 10, "thorough": 30}, render=render),
]
