"""C27 - user errors surface as ProbLog errors, never as crashes.

Three generators, one oracle: run inference the way the CLI does (pbt.core.plrun.run_problog) and require results or
a ProbLogError subclass.

builtin   : every registered builtin (DefaultEngine().get_builtins()) and every predicate exported by the bundled
            libraries, called with generated argument shapes (also one argument too few / too many)
constructs: programs assembled from templates for the user errors named in the statement (non-ground probabilistic
            clauses, invalid probabilities, undefined predicates, ill-typed arithmetic, ill-formed queries/evidence,
            non-callable heads, ...)
fuzz      : the C17 token-level fuzzer (mutated corpus statements, generated programs, token soup) pushed through
            parsing, grounding, compilation and evaluation."""
import gc
import itertools
import os
import tempfile

from hypothesis import strategies as st

from pbt.core.api import Failure, Outcome, SubCheck
from pbt.core import plrun
from pbt.gen import c17_text as gt
from pbt.props import c17

PROPERTY_ID = "C27"
LEVEL = "exploration"
RULE = ("builtin: for each of the standard builtins of DefaultEngine().get_builtins() and each predicate defined by the "
        "libraries lists/apply/assert/record/string/cut/aggregate/collect/control/db/aproblog (discovered at run time), "
        "a program 'facts. q :- <call>. query(q).' (also as \\+ call, inside findall/3, as query or directive) with "
        "arguments drawn from: unbound/shared variables, atoms, ints, floats, strings, proper/partial/improper lists, "
        "compounds, operators, goals, wrong arity. File-system builtins only receive paths under "
        "tempfile.gettempdir(). Non-trivial: the engine evaluated a call with that name/arity (recorded by a harness "
        "subclass of DefaultEngine overriding eval_call/eval_builtin and delegating). Bounded-exhaustive part: every "
        "registry entry x uniform argument vectors (in a clause body and under \\+), each of the first 4 positions bound in "
        "turn, and for the standard builtins of arity 2/3 all combinations of a pool of 8/4 shapes evaluated directly as "
        "a query. constructs: 1-4 statements drawn "
        "from ~120 templates with term/probability/goal holes; non-trivial: the text parsed (the construct reached "
        "the engine). fuzz: C17 fuzz texts; non-trivial: parsed with >= 1 statement. Oracle: ('ok',..) or "
        "('error', ProbLogError subclass) pass, ('crash', sig) fails with that sig, resource exhaustion / watchdog "
        "timeouts are inconclusive. Distinct = distinct case.")
ASSUMPTIONS = [
    "no registered builtin reads stdin or spawns a shell (checked by reading engine_builtin.py and library/*.py); "
    "trace/0 only toggles a flag of an attached debugger, none is attached",
    "consult/1, './2', use_module/1,2, _consult/2, _use_module/2,3, csv_load/2, sqlite_load/1 are only given paths "
    "under tempfile.gettempdir() (existing file, file with a syntax error, missing file, directory) or library(lists)",
    "library(nlp4plp) and library(scope)/(builtin) are not enumerated (nlp4plp: 300 domain predicates; scope/builtin: "
    "no user-callable predicates of their own)",
]

# ------------------------------------------------------------------------------------------------ harness engine

_ENGINE_CLS = None


def harness_engine():
    """DefaultEngine subclass that records which calls were evaluated (delegates everything)."""
    global _ENGINE_CLS
    if _ENGINE_CLS is None:
        from problog.engine import DefaultEngine

        class RecordingEngine(DefaultEngine):
            def __init__(self, **kw):
                self.seen_calls = set()
                DefaultEngine.__init__(self, **kw)

            def eval_call(self, node_id=None, node=None, **kwdargs):
                try:
                    self.seen_calls.add("%s/%s" % (str(node.functor).strip("'"), len(node.args)))
                except Exception:  # noqa
                    pass
                return DefaultEngine.eval_call(self, node_id=node_id, node=node, **kwdargs)

            def eval_builtin(self, **kwdargs):
                try:
                    co = kwdargs.get("call_origin")
                    if co:
                        self.seen_calls.add(str(co[0]).replace("'", ""))
                    self.seen_calls.add("<builtin>")
                except Exception:  # noqa
                    pass
                return DefaultEngine.eval_builtin(self, **kwdargs)

        _ENGINE_CLS = RecordingEngine
    return _ENGINE_CLS()


# ------------------------------------------------------------------------------------------------ registry discovery

LIBRARIES = ["lists", "apply", "assert", "record", "string", "cut", "aggregate", "collect", "control", "db", "aproblog"]
FILE_BUILTINS = {"consult/1", "./2", "use_module/1", "use_module/2", "_consult/2", "_use_module/2", "_use_module/3",
                 "csv_load/2", "sqlite_load/1", "load_external/1"}
_REGISTRY = None


def _db_predicates(lib):
    from problog.engine import DefaultEngine
    from problog.program import PrologString

    eng = DefaultEngine()
    src = (":- use_module(library(%s)).\n" % lib if lib else "") + "c27_marker."
    with plrun.captured_output():
        db = eng.prepare(PrologString(src))
    out = set()
    d = db
    while d is not None:
        for n in getattr(d, "_ClauseDB__nodes", []):
            if type(n).__name__ in ("define", "extern"):
                out.add((str(n.functor), int(n.arity), type(n).__name__))
        d = getattr(d, "_ClauseDB__parent", None)
    return out


def registry():
    """[(lib or None, name, arity, kind)] sorted; kind is 'builtin' (Python, standard registry), 'extern' (Python,
    library) or 'define' (library predicate written in Prolog).  Computed once per process from the code under test."""
    global _REGISTRY
    if _REGISTRY is None:
        from problog.engine import DefaultEngine

        plrun.reset_state()
        out = []
        for sig in sorted(DefaultEngine().get_builtins()):
            name, ar = sig.rsplit("/", 1)
            out.append((None, name, int(ar), "builtin"))
        try:
            base = _db_predicates(None)
        except Exception:  # noqa
            base = set()
        for lib in LIBRARIES:
            try:
                preds = _db_predicates(lib) - base
            except Exception:  # noqa
                continue
            names = set()
            for f, a, kind in preds:
                f = f.strip("'")
                if f.startswith("body_") or f in ("_directive", "c27_marker"):
                    continue
                pre = "_%s_" % lib
                if f.startswith(pre):
                    names.add((f[len(pre):], a, kind))
                elif not f.startswith("_"):
                    names.add((f, a, kind))
            for f, a, kind in sorted(names):
                out.append((lib, f, a, kind))
        _REGISTRY = out
        plrun.reset_state()
    return _REGISTRY


# ------------------------------------------------------------------------------------------------ argument shapes

_V = lambda n: ["var", n]  # noqa
_A = lambda n: ["atom", n]  # noqa
_I = lambda n: ["int", n]  # noqa


def _lst(elems, tail=None):
    return ["list", elems, tail]


GOALS = [_A("true"), _A("fail"), _A("c"), _A("undefined_zz"), ["cmp", "f", [_V("X")]], ["cmp", "f", [_I(1)]],
         ["cmp", "g", [_V("X"), _V("Y")]], ["cmp", "g", [_A("a"), _V("Y")]], ["cmp", "h", [_V("L")]],
         ["and", ["cmp", "f", [_V("X")]], ["cmp", "g", [_A("a"), _V("Y")]]],
         ["or", ["cmp", "f", [_V("X")]], _A("c")], ["not", "\\+", _A("c")], ["not", "\\+", ["cmp", "f", [_V("X")]]],
         ["bin", "is", _V("X"), ["bin", "+", _I(1), _I(2)]], ["bin", "=", _V("X"), _A("a")],
         ["cmp", "findall", [_V("X"), ["cmp", "f", [_V("X")]], _V("L")]], ["cmp", "call", [_A("c")]],
         ["cmp", "between", [_I(1), _I(3), _V("X")]], ["cmp", "undefined_zz", [_V("X")]], _A("f"), _A("g"),
         ["bin", ":", _A("m"), _A("c")], ["cmp", "writeln", [_A("a")]]]

ATOMIC = [_V("X"), _V("Y"), _V("_"), _V("X"), _A("a"), _A("b"), _A("f"), _A("g"), _A("[]"), _A("foo"), _A("'A b'"),
          _A("c"), _A("lists"), _A("'<'"), _A("'='"), _A("none"), _A("'1'"), _A("'3.5'"), _A("''"),
          _I(0), _I(1), _I(2), _I(3), _I(-1), _I(7), _I(1000), ["float", 0.5], ["float", -2.5], ["float", 1e+20],
          ["float", 2.0], ["str", "abc"], ["str", ""], ["str", "12"], ["str", "a b"], _I(100000)]

STRUCT = [_lst([_I(1), _I(2), _I(3)]), _lst([_A("a"), _A("b")]), _lst([_V("X"), _V("Y")]), _lst([_lst([_I(1)]), _lst([_I(2)])]),
          _lst([_A("a")], _V("T")), _lst([_A("a"), _A("b")], _V("T")), _lst([_A("a")], _A("b")), _lst([_I(1), _A("a"), ["str", "s"]]),
          _lst([_I(3), _I(1), _I(2), _I(1)]), _lst([["float", 0.5], ["float", 0.5]]), _lst([["bin", "-", _A("a"), _I(1)], ["bin", "-", _A("b"), _I(2)]]),
          _lst([_V("X")], _V("X")), _lst([["cmp", "f", [_V("X")]], ["cmp", "f", [_I(1)]]]),
          _lst([_A("f"), _I(1)]), _lst([_I(1), _A("f")]), _lst([_A("'A b'"), _V("X"), _V("X")]),
          ["cmp", "f", [_V("X")]], ["cmp", "f", [_I(1)]], ["cmp", "g", [_A("a"), _A("b")]], ["cmp", "g", [_V("X"), _V("X")]],
          ["cmp", "f", [["cmp", "f", [["cmp", "f", [_A("a")]]]]]], ["bin", "+", _I(1), _I(2)], ["bin", "-", _V("X"), _I(1)],
          ["bin", "/", _I(1), _I(0)], ["bin", "+", _A("a"), _I(1)], ["bin", ":", _A("a"), _A("b")],
          ["and", _A("a"), _A("b")], ["or", _A("a"), _A("b")], ["not", "\\+", _A("a")], ["un", "-", _A("a")],
          ["bin", "-", _A("k"), _A("v")], ["cmp", "library", [_A("lists")]], ["cmp", "'$VAR'", [_I(1)]],
          ["cmp", "t", [_V("_")]], ["bin", "=", _V("X"), _V("Y")], ["bin", "/", _A("f"), _I(1)]]

# paths for the file-system builtins; $TMP is replaced by tempfile.gettempdir() when the program is rendered
PATHS = [_A("'$TMP/c27_ok.pl'"), _A("'$TMP/c27_bad.pl'"), _A("'$TMP/c27_missing.pl'"), _A("'$TMP'"),
         _A("'$TMP/c27_ok'"), ["str", "$TMP/c27_ok.pl"], ["str", "$TMP/c27_missing.csv"], ["str", "$TMP/c27_data.csv"],
         ["cmp", "library", [_A("lists")]], ["cmp", "library", [_V("X")]], ["cmp", "library", [_I(1)]]]
FILE_SAFE = PATHS + [_V("X"), _V("_"), _I(1), ["float", 0.5], _A("[]"), _lst([_A("'$TMP/c27_ok.pl'")]),
                     _lst([_A("'$TMP/c27_ok.pl'")], _V("T")), _lst([_I(1)]), _lst([_A("'$TMP/c27_missing.pl'"), _V("X")]),
                     ["cmp", "f", [_A("'$TMP/c27_ok.pl'")]], _lst([_A("ok1"), _A("ok2")]), _A("ok1"),
                     _lst([["bin", "/", _A("ok1"), _I(1)]]), ["bin", "/", _A("ok1"), _I(1)]]
# 'ok1' as a *file name* would leave the scratch directory, so it is only used in predicate-list positions
_FILE_FIRST = PATHS + [_V("X"), _V("_"), _I(1), ["float", 0.5], _A("[]"), _lst([_A("'$TMP/c27_ok.pl'")]),
                       _lst([_A("'$TMP/c27_ok.pl'")], _V("T")), _lst([_I(1)]),
                       _lst([_A("'$TMP/c27_missing.pl'"), _V("X")]), ["cmp", "f", [_A("'$TMP/c27_ok.pl'")]]]

CONTEXT = ("0.4::f(1). 0.6::f(2). f(3). g(a,b). g(b,c). h([1,2,3]). n(2). 0.5::c. s(\"abc\").\n"
           "k(X, Y) :- Y is X + 1.\n")

WRAPS = ["body", "body", "body", "neg", "findall", "query", "directive", "body2", "evidence"]


def _is_open(a):
    """Unbound variable or partial list at the top of an argument (Prolog-defined list predicates enumerate for ever
    on these: standard behaviour, only a source of watchdog timeouts)."""
    return a[0] == "var" or (a[0] == "list" and a[2] is not None and a[2][0] == "var")


_CLOSED = [a for a in ATOMIC + STRUCT if not _is_open(a)]


def _arg_strategy(file_builtin, position, kind="builtin", last=False):
    if file_builtin:
        return st.sampled_from(_FILE_FIRST if position == 0 else FILE_SAFE)
    if kind == "define" and not last:
        return st.one_of(st.sampled_from(_CLOSED), st.sampled_from(_CLOSED), st.sampled_from(_CLOSED),
                         st.sampled_from(GOALS))
    return st.one_of(st.sampled_from(ATOMIC), st.sampled_from(ATOMIC), st.sampled_from(STRUCT), st.sampled_from(GOALS))


@st.composite
def _builtin_cases(draw):
    reg = registry()
    lib, name, arity, kind = reg[draw(st.integers(0, len(reg) - 1))]
    sig = "%s/%s" % (name, arity)
    is_file = sig in FILE_BUILTINS or name in ("consult", "use_module", "_consult", "_use_module", "csv_load",
                                              "sqlite_load", "load_external", ".")
    delta = draw(st.sampled_from([0, 0, 0, 0, 0, 0, 0, 0, 1, -1]))
    n = max(0, arity + delta)
    args = [draw(_arg_strategy(is_file, i, kind, last=(i == n - 1))) for i in range(n)]
    return {"lib": lib, "name": name, "arity": arity, "args": args, "wrap": draw(st.sampled_from(WRAPS))}


_VARIADIC = ("call", "call_nc", "try_call", "call_in_scope", "write", "writeln", "writenl", "debugprint", "error")
_PAIR_POOL = {"quick": [_V("X"), _A("a"), _I(1), ["str", "abc"], _lst([_I(1), _I(2), _I(3)]), _lst([_A("a"), _A("b")], _V("T")),
                        ["cmp", "f", [_V("Y")]], ["float", 0.5]]}
_PAIR_POOL["thorough"] = _PAIR_POOL["quick"] + [_I(0), _I(-1), _A("[]"), _lst([_A("a")], _A("b")), ["bin", "+", _I(1), _A("a")],
                                                ["cmp", "g", [_A("a"), _A("b")]], _V("X")]
_TRIPLE_POOL = {"quick": [_V("X"), _I(1), _A("a"), _lst([_A("a"), _A("b")], _V("T"))]}
_TRIPLE_POOL["thorough"] = _PAIR_POOL["quick"]


def _enum_builtin_cases(tier):
    """Bounded-exhaustive part: every registry entry x all-variables / all-atoms / all-ints / all-lists / all-goals."""
    uniform = [_V("X"), _A("a"), _I(1), _lst([_I(1), _I(2)]), ["str", "abc"], ["cmp", "f", [_V("X")]],
               _lst([_A("a")], _V("T")), ["float", 0.5], _A("c")]
    for lib, name, arity, kind in registry():
        sig = "%s/%s" % (name, arity)
        is_file = sig in FILE_BUILTINS or name in ("consult", "use_module", "_consult", "_use_module", "csv_load",
                                                  "sqlite_load", "load_external", ".")
        pool = [_V("X"), _I(1), _A("'$TMP/c27_ok.pl'"), _lst([_A("'$TMP/c27_ok.pl'")]), _A("'$TMP/c27_missing.pl'")] \
            if is_file else uniform
        if kind == "define":
            pool = [u for u in pool if not _is_open(u)]
        if arity == 0:
            yield {"lib": lib, "name": name, "arity": 0, "args": [], "wrap": "body"}
            continue
        if kind != "define" and not is_file and arity in (2, 3) and name not in _VARIADIC:
            # all combinations of a small pool: mode checks depend on argument *combinations*
            # (length([a,b|T], 1), arg(0, f(X), Y), between(1, a, X), ...)
            for combo in itertools.product(_PAIR_POOL[tier] if arity == 2 else _TRIPLE_POOL[tier], repeat=arity):
                # as a query: the builtin is evaluated without an enclosing clause (whose evaluation would turn an
                # escaping UnifyError into failure)
                yield {"lib": lib, "name": name, "arity": arity, "args": list(combo), "wrap": "query"}
        for u in pool:
            yield {"lib": lib, "name": name, "arity": arity, "args": [u] * arity, "wrap": "body"}
            if kind != "define":
                yield {"lib": lib, "name": name, "arity": arity, "args": [u] * arity, "wrap": "neg"}
        if kind == "define" and arity >= 1 and not is_file:
            # closed arguments with the last position unbound (the usual output position); several list predicates
            # enumerate for ever on that (member(a, Out)), so this part runs in the thorough tier only
            for u in (pool if tier == "thorough" else []):
                yield {"lib": lib, "name": name, "arity": arity, "args": [u] * (arity - 1) + [_V("Out")], "wrap": "body"}
        elif arity >= 2 and not is_file:
            # distinct variables everywhere, and each argument position bound in turn
            names = ["X", "Y", "Z", "W", "V", "U", "S", "R", "Q", "P"]
            allv = [_V(names[i % 10] + (str(i // 10) if i >= 10 else "")) for i in range(arity)]
            yield {"lib": lib, "name": name, "arity": arity, "args": allv, "wrap": "body"}
            for i in range(min(arity, 4)):
                for u in (_I(2), _A("a"), _lst([_I(1), _I(2)])):
                    a = list(allv)
                    a[i] = u
                    yield {"lib": lib, "name": name, "arity": arity, "args": a, "wrap": "body"}


def _functor_text(name):
    if name and (name[0].islower() or name[0] == "_") and all(ch.isalnum() or ch == "_" for ch in name):
        return name
    return "'%s'" % name.replace("\\", "\\\\").replace("'", "\\'") if "\\" not in name else "'%s'" % name


def render_call(case):
    f = _functor_text(case["name"])
    if f.startswith("_"):
        f = "'%s'" % f  # a leading underscore would read as a variable
    if not case["args"]:
        return f
    return "%s(%s)" % (f, ", ".join(c17._arg(a) for a in case["args"]))


def render_builtin_program(case, tmp=None):
    call = render_call(case)
    head = ""
    if case["lib"]:
        head = ":- use_module(library(%s)).\n" % case["lib"]
    w = case["wrap"]
    if w == "body":
        body = "q :- %s.\nquery(q).\n" % call
    elif w == "body2":
        body = "q(X, Y) :- f(X), %s, g(a, Y).\nquery(q(_, _)).\n" % call
    elif w == "neg":
        body = "q :- \\+ %s.\nquery(q).\n" % call
    elif w == "findall":
        body = "q(L) :- findall(X-Y, %s, L).\nquery(q(_)).\n" % call
    elif w == "query":
        body = "query(%s).\n" % call
    elif w == "evidence":
        body = "evidence(%s).\nquery(c).\n" % call
    else:
        body = ":- %s.\nquery(c).\n" % call
    src = head + CONTEXT + body
    return src.replace("$TMP", tmp if tmp is not None else tempfile.gettempdir())


def _prepare_tmp():
    d = tempfile.gettempdir()
    files = {"c27_ok.pl": "ok1. 0.5::ok2.\n", "c27_bad.pl": "bad(.\n", "c27_data.csv": "a,b\n1,2\n"}
    for fn, text in files.items():
        p = os.path.join(d, fn)
        try:
            if not os.path.exists(p):
                with open(p, "w") as f:
                    f.write(text)
        except OSError:
            pass


def _run(src, eng):
    """run_problog; after a watchdog timeout or memory exhaustion the (cyclic) engine garbage of the interrupted run
    is collected at once, otherwise later allocations of the shard can fail with MemoryError (harness error)."""
    try:
        res = plrun.run_problog(src, engine=eng)
    except BaseException:
        gc.collect()
        raise
    if res[0] == "resource":
        gc.collect()
    return res


def _judge(res, nontrivial, feats, sample, what):
    if res[0] == "resource":
        return Outcome(inconclusive=res[1], features=feats)
    if res[0] == "crash":
        return Outcome(nontrivial=nontrivial, features=feats, classes=["crash"], failure=Failure(
            "crash", "%s\nraised an internal exception: %s" % (what, res[1]), sig=res[1]))
    cls = "answered" if res[0] == "ok" else "rejected:" + res[1]
    return Outcome(nontrivial=nontrivial, features=feats, classes=[cls], sample=sample)


def check_builtin(case):
    _prepare_tmp()
    src = render_builtin_program(case)
    eng = harness_engine()
    res = _run(src, eng)
    sig = "%s/%s" % (case["name"], len(case["args"]))
    reached = sig in eng.seen_calls or (case["wrap"] in ("query", "evidence") and "<builtin>" in eng.seen_calls)
    feats = ["wrap:" + case["wrap"], "arity-delta:%d" % (len(case["args"]) - case["arity"])]
    if case["lib"]:
        feats.append("lib:" + case["lib"])
    extra_reached = {"builtin_reached": 1} if reached else {}
    out = _judge(res, reached, feats, {"program": render_builtin_program(case, tmp="$TMP"), "reached": reached},
                 "program:\n%s" % render_builtin_program(case, tmp="$TMP"))
    out.extra = extra_reached
    return out


# ------------------------------------------------------------------------------------------------ constructs

TERMS = ["a", "X", "_", "1", "-1", "0.5", "1.5", "\"s\"", "[a,b]", "[a|T]", "f(X)", "f(a)", "g(X,Y)", "(a,b)", "(a;b)",
         "\\+a", "1+2", "X+1", "a+1", "1/0", "[]", "'A b'", "p(X)", "p(a)", "q", "undefined_zz", "undefined_zz(X)", "2", "foo(1,2,3)",
         "m:a", "0.5::a", "(a:-b)", "t(_)", "1e400", "-0.5", "f(f(f(a)))", "\"\"", "[X|X]", "X-Y"]
PROBS = ["0.5", "1.5", "-0.2", "2", "0", "1", "a", "\"s\"", "X", "P", "f(X)", "1/0", "1/2", "t(_)", "t(0.5)", "t(a)", "t(X)", "[1]",
         "(0.3+0.9)", "1e400", "-1e400", "0.5e-400", "t(_,a)", "t(1.5)", "(1/3)", "exp(1000)", "sqrt(-1)", "(a+1)", "0x1", "0.0",
         "1.0", "0.9999999999999999999", "_", "(2-1.5)", "max(0.2,0.9)", "0.5::0.5",
         # values inside the tolerance band around the bounds (floating-point residues of computed probabilities)
         "(4.35*100-435)", "(435-4.35*100)", "-1.0e-10", "1.0e-10", "-1.0e-12", "(1+1.0e-10)", "(1-1.0e-12)", "(0.3-0.1-0.2)",
         "(0.1+0.2-0.3)", "1.0000000001", "-0.0", "(0.1*3)", "(1.1*1.1-0.21)"]
ARITH = ["a + 1", "foo", "Y + 1", "1/0", "\"a\" * 2", "2 ** 10000.5", "1.0e308 * 10", "max(a, 1)", "[1] + 2", "1 // 0", "5 mod 0",
         "1.5 mod 2", "1 << -1", "sqrt(-1)", "log(0)", "- a", "1 + 2", "2 ** -1", "0 ** -1", "0.0 / 0", "7 rdiv 0", "abs(a)",
         "min(1, \"s\")", "1 xor 2.5", "\\ 1.5", "e", "pi", "inf", "nan", "random", "cot(0)", "acos(2)", "truncate(1.0e400)",
         "integer(nan)", "f(1)", "1 + (2, 3)", "X", "_", "[X]", "ceiling(inf)", "10 ** 400", "2 ** 2 ** 2 ** 2 ** 2 ** 2", "gcd(0, 0)",
         "gcd(1.5, 2)", "msb(0)", "msb(-1)", "1 >> 1.5", "sign(a)", "atan2(0, 0)", "copysign(1, a)", "cmpflags", "1 rem 0", "1 div 0",
         "-(1) // 0", "float_integer_part(a)", "3.0 mod 0", "1 /\\ 2.0", "1 \\/ a", "\"5\" + 1", "'5' + 1", "[5] * 1", "[] + 1", "1 = 2"]

TEMPLATES = [
    # probabilistic facts / clauses with every probability shape; non-ground ones
    "{P}::p({T}).", "{P}::p(X).", "{P}::p(X,Y) :- g(X,_).", "{P}::p(X) :- f(X).", "P::p(X) :- f(X).", "{P}::p :- c.", "{P}::p.",
    "{P}::p(_).", "X::p(X) :- f(X).", "{P}::p(X) :- \\+ f(X).", "{P}::p; {P}::q.", "{P}::p(X); {P}::q(Y) :- f(X).", "0.6::p; 0.6::q.",
    "{P}::p(X); 0.5::q(X).", "0.5::p(X); 0.5::q(Y).", "{P}::{T}.", "0.5::p :- {T}.", "{P}::p; {P}::q :- {T}.", "t(_)::p(X) :- f(X).",
    "t({T})::p.", "t(_, {T})::p.", "{P}::p(X) :- X > 1.", "0.5::p(X) :- q(Y).", "{P}::f(1).", "0.3::p(1). 0.4::p(1).",
    "{P}::\\+p.", "0.5::\\+p :- c.", "\\+p :- c.", "0.5::\\+p(X) :- f(X).", "{P}::(p, q).", "{P}::p, q.", "0.5::p <- c.", "p ~ {T}.", "{T} ~ p.",
    # clause heads that are not callable
    "{T} :- c.", "{T}.", "{T} :- {T}.", "p :- {T}.", "p :- {T}, {T}.", "p :- \\+ {T}.", "p :- ({T} ; {T}).", "p :- call({T}).",
    "p(X) :- X.", "p :- X.", "p :- X, c.", "p :- \\+ X.", "p(X) :- call(X, 1).", "p :- 1.", "p :- \"s\".", "p :- [c].", "p :- f(X), X.",
    "p ; q :- c.", "p ; 0.5::q :- c.", "p :- q. q :- p.", "p :- \\+ p.", "p :- \\+ q. q :- \\+ p.",
    # arithmetic
    "p :- X is {A}.", "p :- X is {A}, Y is {A}.", "p :- {A} < {A}.", "p :- {A} =:= {A}.", "p :- {A} >= 1.", "p(X) :- f(X), Y is X + {A}.",
    "p :- 1 is {A}.", "p :- a is {A}.", "p :- X is {A}, X > 0.", "0.5::p :- X is {A}.", "p :- f(X), Z is X / (X - 1).", "p :- {A} =\\= a.",
    "p :- succ(X, {T}).", "p :- plus(1, {T}, X).", "p :- between(1, {T}, X).", "p :- length({T}, {T}).", "p :- X =.. {T}.",
    "p :- {T} =.. L.", "p :- functor({T}, {T}, {T}).", "p :- arg({T}, {T}, _).", "p :- atom_number({T}, {T}).", "p :- sort({T}, _).",
    # queries and evidence
    "query({T}).", "query({T}). query({T}).", "evidence({T}).", "evidence({T}, true).", "evidence({T}, false).", "evidence(c, {T}).",
    "evidence(c). evidence(\\+c).", "evidence(c, true, {T}).", "query(c, {T}).", "query.", "evidence.", "query(p(X)).", "query(X).",
    "query(_).", "query(\\+c).", "query(\\+p(X)).", "evidence(\\+p(X)).", "evidence(f(X)).", "evidence(p).", "query(p) :- c.",
    "evidence(p) :- c.", "query(X) :- f(X).", "query(f(X)) :- X > 1.", "0.5::query(c).", "0.5::evidence(c).", "query(undefined_zz).",
    "evidence(undefined_zz).", "evidence(undefined_zz, false).", "query(f(1)). evidence(f(1), false). evidence(f(2), false). evidence(f(1)).",
    "query(p). query(q). query(c).", "query(findall(X, f(X), L)).", "query(call(c)).", "query((c, c)).", "query(X is 1 + 1).",
    "query([c]).", "query(\"c\").", "query(1).", "query(m:c).", "query(true).", "query(fail).", "evidence(true).", "evidence(fail).",
    "evidence(1 < 2).", "evidence(1 > 2).",
    # directives
    ":- {T}.", ":- X.", ":- 1.", ":- use_module({T}).", ":- use_module(library({T})).", ":- consult({T}).", ":- undefined_zz.",
    ":- f(X), writeln(X).", ":- initialization({T}).", ":- set_prolog_flag(a, b).", ":- unknown({T}).", ":- unknown(fail).",
    ":- c.", ":- query(c).", ":- dynamic {T}.", ":- table p/1.", ":- p, \\+ q.",
    # library misuse
    ":- use_module(library(lists)). p :- member({T}, [a, {T}]).", ":- use_module(library(lists)). p :- append([a], {T}, _).",
    ":- use_module(library(lists)). p :- sum_list({T}, _).", ":- use_module(library(lists)). p :- nth0({T}, {T}, _).",
    ":- use_module(library(apply)). p :- maplist({T}, {T}).", ":- use_module(library(apply)). p :- foldl({T}, {T}, 0, _).",
    ":- use_module(library(assert)). p :- assertz({T}).", ":- use_module(library(assert)). p :- retract({T}).",
    ":- use_module(library(assert)). :- assertz(({T} :- {T})).", ":- use_module(library(cut)). p :- cut({T}).",
    ":- use_module(library(string)). p :- str2lst({T}, _).", ":- use_module(library(string)). p :- concat({T}, _).",
    ":- use_module(library(aggregate)). p(X, sum<Y>) :- g(X, Y).", "p(X, avg<Y>) :- g(X, Y).", "p(avg<Y>) :- f(Y).",
    ":- use_module(library(aggregate)). p(X, {T}<Y>) :- g(X, Y).", ":- use_module(library(aggregate)). p(avg<Y>, X) :- g(X, Y).",
    "p :- subquery({T}, P).", "p :- subquery(c, P), P > {T}.", "p :- subquery(c, P, {T}).", "p :- findall(X, {T}, L).",
    "p :- all(X, {T}, L).", "p :- all_or_none(X, {T}, L).", "p :- try_call({T}).", "p :- call_nc({T}).", "p :- once({T}).",
    "p :- clause({T}, B).", "p :- possible({T}).", "p :- nocache({T}, {T}).", "p :- call_in_scope({T}, {T}).", "p :- find_scope({T}, S).",
    "p :- set_state({T}).", "p :- reset_state.", "p :- check_state({T}).", "p :- condition({T}).", "p :- seq({T}).", "p :- cmd_args({T}).",
    "p :- numbervars({T}, _).", "p :- varnumbers({T}, _).", "p :- error({T}).", "p :- debugprint({T}).", "p :- sample_uniform1({T}, {T}, X).",
]


@st.composite
def _construct_cases(draw):
    n = draw(st.integers(1, 4))
    stmts = []
    for _ in range(n):
        t = draw(st.sampled_from(TEMPLATES))
        out = []
        for part in _split_holes(t):
            if part == "{T}":
                out.append(draw(st.sampled_from(TERMS)))
            elif part == "{P}":
                out.append(draw(st.sampled_from(PROBS)))
            elif part == "{A}":
                out.append(draw(st.sampled_from(ARITH)))
            else:
                out.append(part)
        stmts.append("".join(out))
    tail = draw(st.sampled_from(["query(p).", "query(p). query(q).", "query(p(_)).", "", "query(p(_,_)). query(p).",
                                 "query(p). evidence(c).", "query(q). evidence(p).", "query(p(X))."]))
    ctx = draw(st.sampled_from([CONTEXT, CONTEXT, "0.5::c. f(1).\n", ""]))
    return {"src": ctx + "\n".join(stmts) + "\n" + tail + "\n"}


def _split_holes(t):
    out, i = [], 0
    while i < len(t):
        if t[i] == "{" and t[i:i + 3] in ("{T}", "{P}", "{A}"):
            out.append(t[i:i + 3])
            i += 3
        else:
            j = i
            while j < len(t) and not (t[j] == "{" and t[j:j + 3] in ("{T}", "{P}", "{A}")):
                j += 1
            out.append(t[i:j])
            i = j
    return out


def _parses(src):
    r = c17.parse_outcome(src)
    return r[0] == "ok" and r[1] >= 1


def check_construct(case):
    src = case["src"]
    eng = harness_engine()
    res = _run(src, eng)
    parsed = res[0] == "ok" or (res[0] == "error" and res[1] not in ("ParseError", "UnexpectedCharacter",
                                                                     "UnmatchedCharacter")) or res[0] == "crash"
    feats = []
    if "<builtin>" in eng.seen_calls:
        feats.append("builtin-evaluated")
    return _judge(res, parsed, feats, src, "program:\n%s" % src)


def _enum_constructs(tier):
    """Every template once with each hole filler (one hole varied at a time, the others at their first filler)."""
    fill = {"{T}": TERMS, "{P}": PROBS, "{A}": ARITH}
    for t in TEMPLATES:
        parts = _split_holes(t)
        holes = [i for i, p in enumerate(parts) if p in fill]
        if not holes:
            yield {"src": CONTEXT + t + "\nquery(p).\n"}
            continue
        seen = set()
        for h in holes:
            for v in fill[parts[h]]:
                cur = list(parts)
                for i in holes:
                    cur[i] = fill[parts[i]][0] if i != h else v
                s = "".join(cur)
                if s not in seen:
                    seen.add(s)
                    yield {"src": CONTEXT + s + "\nquery(p).\n"}


# ------------------------------------------------------------------------------------------------ fuzz through inference


def _fuzz_strategy():
    tails = st.sampled_from(["", "", "\nquery(p).", "\nquery(q(_)).", "\nquery(a).", "\nevidence(a).\nquery(b)."])
    texts = st.one_of(gt.mutated_corpus(), gt.mutated_corpus(max_mutations=2), gt.mutated_generated(),
                      gt.mutated(st.sampled_from(gt.SHORT_STATEMENTS), max_mutations=3), gt.token_strings(),
                      gt.nested_strings(), gt.skeleton_strings())
    return st.tuples(texts, tails).map(lambda t: {"src": t[0] + t[1]})


def check_fuzz(case):
    src = case["src"]
    eng = harness_engine()
    res = _run(src, eng)
    parsed = res[0] in ("ok", "crash") or (res[0] == "error" and res[1] not in (
        "ParseError", "UnexpectedCharacter", "UnmatchedCharacter"))
    feats = ["builtin-evaluated"] if "<builtin>" in eng.seen_calls else []
    return _judge(res, parsed, feats, src, "program:\n%s" % src)


def _render_builtin(case):
    try:
        return render_builtin_program(case, tmp="$TMP")
    except Exception:  # noqa
        return case


SUBCHECKS = [
    SubCheck("builtin", check_builtin, strategy=_builtin_cases, enumerate=_enum_builtin_cases,
             budget={"quick": 3000, "thorough": 300000}, timeout={"quick": 2, "thorough": 20}, render=_render_builtin,
             exhaustive="every registry entry x uniform argument vectors (all variables / atoms / ints / lists / strings / "
                        "compounds / partial lists / floats) and each of the first 4 positions bound in turn"),
    SubCheck("constructs", check_construct, strategy=_construct_cases, enumerate=_enum_constructs,
             budget={"quick": 2000, "thorough": 150000}, timeout={"quick": 2, "thorough": 20},
             render=lambda c: c["src"],
             exhaustive="every template with every filler of each hole (one hole varied at a time)"),
    SubCheck("fuzz", check_fuzz, strategy=_fuzz_strategy, budget={"quick": 3000, "thorough": 300000},
             timeout={"quick": 2, "thorough": 20}, render=lambda c: c["src"]),
]

def _case_text(case):
    if isinstance(case, dict) and "src" in case:
        return case["src"]
    if isinstance(case, dict) and "name" in case:
        return render_builtin_program(case, tmp="$TMP")
    return ""


def _statements(case):
    """Parsed statements of the case's program text ([] when it does not parse)."""
    from problog.program import PrologString

    try:
        with plrun.captured_output():
            return list(PrologString(_case_text(case)))
    except Exception:  # noqa
        return []


def _subterms(t, depth=0):
    from problog.logic import Term

    if depth > 40 or not isinstance(t, Term):
        return
    yield t
    for a in t.args:
        if isinstance(a, list):
            for b in a:
                for x in _subterms(b, depth + 1):
                    yield x
        else:
            for x in _subterms(a, depth + 1):
                yield x


def _cls_recursive_body_disjunction(case, failure):
    """A clause that calls its own head predicate and whose body contains a disjunction."""
    from problog.logic import Clause, Or

    for st_ in _statements(case):
        if isinstance(st_, Clause) and st_.head is not None:
            subs = list(_subterms(st_.body))
            if any(type(x) is Or for x in subs) and any(
                    getattr(x, "signature", None) == st_.head.signature for x in subs):
                return True
    return False


def _cls_cyclic_with_negation(case, failure):
    """Text class for the shared engine finding F-ENG-2: the program has a cyclic predicate dependency and a negated
    body literal (computed from the parsed statements, not from the failure)."""
    from problog.logic import Clause, AnnotatedDisjunction, Not, Term

    edges = {}
    negation = False
    for st_ in _statements(case):
        if isinstance(st_, Clause):
            heads = [st_.head]
        elif isinstance(st_, AnnotatedDisjunction):
            heads = list(st_.heads)
        else:
            continue
        body = list(_subterms(st_.body))
        negation = negation or any(type(x) is Not for x in body)
        for h in heads:
            if isinstance(h, Term):
                edges.setdefault(h.signature, set()).update(
                    x.signature for x in body if type(x) is Term and not x.is_var())
    if not negation:
        return False
    for start in edges:
        seen, todo = set(), list(edges[start])
        while todo:
            n = todo.pop()
            if n == start:
                return True
            if n not in seen:
                seen.add(n)
                todo.extend(edges.get(n, ()))
    return False


def _cls_calls(*names):
    """The program text calls one of the given predicates (name/arity or bare name)."""
    def pred(case, failure):
        if isinstance(case, dict) and "name" in case and case["name"] in names:
            return True
        for st_ in _statements(case):
            for x in _subterms(st_):
                if str(getattr(x, "functor", "")).strip("'") in names:
                    return True
        return False
    return pred


KNOWN_CLASSES = {
    "always": lambda case, failure: True,
    "recursive_body_disjunction": _cls_recursive_body_disjunction,
    "cyclic_with_negation": _cls_cyclic_with_negation,
    "state_builtins": _cls_calls("set_state", "reset_state", "check_state", "condition", "probabilityX", "print_state"),
    "db_library": _cls_calls("csv_load", "sqlite_load"),
    "calls_retract": _cls_calls("retract"),
    "calls_clause": _cls_calls("clause"),
    "calls_find_scope": _cls_calls("find_scope"),
    "calls_subquery": _cls_calls("subquery"),
    "aggregate_head": lambda case, failure: isinstance(case, dict) and "<" in case.get("src", "") and ">" in case.get("src", ""),
}
