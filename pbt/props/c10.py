"""C10 - the compiled d-DNNF is a valid circuit equivalent to its CNF (translation validation).

Every CNF produced by the real pipeline (engine -> cycle breaking -> Clark's completion) is compiled with
DDNNF.create_from(cnf) (bundled dsharp) and the returned circuit object is validated node by node with bit-mask
truth tables (pbt/ref/c09_boolean.py)."""
import random

from hypothesis import strategies as st

from pbt.core.api import Failure, Outcome, SubCheck
from pbt.core import plrun
from pbt.gen import programs as gp
from pbt.ref import semantics as sem
from pbt.ref import c09_boolean as rb

PROPERTY_ID = "C10"
LEVEL = "translation_validation"
MAX_EXHAUSTIVE_VARS = 18
N_SAMPLES = 2000
MAX_FORMULA_NODES = 120
RULE = ("Instances = CNFs produced by the real pipeline from pbt.gen.programs.programs() (default shape and "
        "max_preds=3/2 for frequent recursion), with and without propagate_evidence: LogicFormula -> LogicDAG -> CNF, "
        "including trivial CNFs (no clause) and CNFs whose query/evidence literals occur in no clause; a second generator "
        "('absent_literals': propositional programs over three probabilistic atoms / AD heads and up to three derived "
        "conjunctions of signed atoms) makes labels on literals that are constant in every model frequent; each CNF is compiled "
        "with DDNNF.create_from(cnf). Oracle on the returned DDNNF object: every AND node has children with pairwise "
        "disjoint variable sets; every OR node has children with pairwise disjoint truth tables and equal variable "
        "sets; negation only on atoms; the root (node len(nnf), the node the evaluator reads) has the truth table of "
        "the conjunction of the CNF's clauses over all CNF variables; every query/evidence label of the CNF exists "
        "with the same label and denotes the same literal (same variable and sign, or the constant the literal has in "
        "every model of the CNF); atom weights equal the CNF's weights; constraints equal the CNF's constraints under "
        "the variable->node renaming. <= 18 CNF variables: all 2^n assignments; more: exact model count of circuit "
        "and CNF plus 2000 assignments derived from the case seed (half models, quarter near misses, quarter "
        "random). Non-trivial: CNF has >= 3 variables and >= 1 clause. Distinct = distinct (program, flag).")
ASSUMPTIONS = [
    "the CNF object (clauses, weights, names, constraints) is the specification; pipeline stages before it are C09's subject",
    "'smooth' is checked in its standard node-wise form (children of an OR mention the same variables) on the circuit "
    "object that DDNNF.create_from returns; SimpleDDNNFEvaluator does not smooth or compensate anything itself "
    "(it multiplies/adds child weights and sets one literal weight of the queried atom to zero), so it relies on "
    "dsharp's -smoothNNF output being smooth and on every weighted/labelled variable occurring below the root; the "
    "latter is checked separately ('root mentions every CNF variable' is also recorded as a feature)",
    "programs whose ground formula has more than 120 nodes are skipped before cycle breaking (inconclusive 'oversize')",
    "for CNFs with more than 18 variables determinism and equivalence are checked on 2000 assignments and by model "
    "count instead of exhaustively (class 'sampled')",
]


def _pipeline(src, propagate):
    from problog.program import PrologString
    from problog.formula import LogicFormula, LogicDAG
    from problog.cnf_formula import CNF

    plrun.reset_state()
    try:
        with plrun.captured_output():
            lf = LogicFormula.create_from(PrologString(src), propagate_evidence=propagate)
            if len(lf) > MAX_FORMULA_NODES:
                return ("oversize", None)  # cycle breaking is exponential on large SCCs
            dag = LogicDAG.create_from(lf)
            cnf = CNF.create_from(dag)
        return ("ok", cnf)
    except plrun.RESOURCE_ERRORS:
        raise
    except Exception as exc:
        kind = plrun.classify_exception(exc)
        return ("none", "no-cnf:" + (kind[1] if kind[0] == "error" else "crash"))


def cnf_clauses(cnf):
    out = []
    for c in cnf.clauses:
        head = c[0]
        if head == "c" and type(head) is str:
            continue
        if head is None or (type(head) is bool and not head):
            out.append(list(c[1:]))
        else:
            out.append(list(c))
    return out


def nnf_graph(nnf):
    g = {}
    atoms = {}
    for i, n, t in nnf:
        if t == "atom":
            g[i] = ("atom", n.identifier)
            atoms[i] = n
        elif t in ("conj", "disj"):
            g[i] = (t, list(n.children))
        else:
            raise rb.Malformed("node %d has type %r" % (i, t))
    return g, atoms


def _fmt_cols(col, nvars):
    return "{" + ", ".join("%d=%d" % (v + 1, (col >> v) & 1) for v in range(nvars)) + "}"


def check(case):
    from problog.ddnnf_formula import DDNNF

    prog = case["prog"]
    propagate = bool(case["propagate"])
    feats = set(gp.features(prog))
    src = sem.render_program(prog)
    st_, cnf = _pipeline(src, propagate)
    if st_ == "oversize":
        return Outcome(inconclusive="oversize", features=sorted(feats))
    if st_ != "ok":
        return Outcome(features=sorted(feats), classes=[cnf])
    sample = {"program": src, "propagate_evidence": propagate}
    try:
        with plrun.captured_output():
            dimacs = cnf.to_dimacs()
    except Exception as exc:
        dimacs = "<to_dimacs raised %r>" % (exc,)
    n_cmp = 0
    nvars = cnf.atomcount
    clauses = cnf_clauses(cnf)
    nontrivial = nvars >= 3 and len(clauses) >= 1
    classes = []

    def fail(kind, detail, sig=None):
        return Outcome(nontrivial=nontrivial, features=sorted(feats), classes=classes, sample=sample,
                       failure=Failure(kind, "program:\n%spropagate_evidence=%r\nCNF:\n%s\nweights=%r names=%r\n%s" % (
                           src, propagate, dimacs, cnf.get_weights(), cnf.get_names_with_label(), detail),
                                       sig=sig or kind), extra={"disagreements_checked": n_cmp})

    try:
        rb.check_cnf(nvars, clauses)
    except rb.Malformed as exc:
        return Outcome(features=sorted(feats), classes=["no-cnf:malformed"])  # C09 reports these
    feats.add("cnf:%s" % ("trivial" if cnf.is_trivial() else "clauses"))
    feats.add("cnf-vars:%s" % ("0" if nvars == 0 else "1-2" if nvars < 3 else "3-8" if nvars < 9 else "9-18" if nvars <= 18 else "19+"))

    # ---- compilation (code under test)
    try:
        with plrun.captured_output():
            nnf = DDNNF.create_from(cnf)
    except plrun.RESOURCE_ERRORS:
        raise
    except Exception as exc:
        classes.append("compile-failed")
        return fail("crash", "DDNNF.create_from raised %r" % (exc,), sig="compile|" + plrun.exc_signature(exc))
    text = str(nnf)

    try:
        graph, atoms = nnf_graph(nnf)
    except rb.Malformed as exc:
        return fail("nnf-malformed", str(exc))
    # ---- atoms <-> CNF variables
    rename = {}
    for i, a in sorted(atoms.items()):
        v = a.identifier
        if type(v) is not int or not (1 <= v <= nvars):
            return fail("nnf-atom-not-a-cnf-variable", "circuit atom %d has identifier %r\n%s" % (i, v, text))
        if v in rename:
            return fail("nnf-duplicate-atom", "CNF variable %d occurs as circuit atoms %d and %d\n%s" % (v, rename[v], i, text))
        rename[v] = i
    for i, node in graph.items():
        if node[0] != "atom":
            if not node[1]:
                return fail("nnf-empty-node", "node %d has no children\n%s" % (i, text))
            for c in node[1]:
                if c is None or c == 0:
                    continue
                if abs(c) not in graph or abs(c) >= i:
                    return fail("nnf-malformed", "node %d has child %r (not an earlier node)\n%s" % (i, c, text))
                if c < 0 and graph[-c][0] != "atom":
                    return fail("nnf-negated-compound", "node %d negates the compound node %d\n%s" % (i, -c, text))
    root = len(nnf) if len(nnf) > 0 else 0
    supports = rb.support_sets(graph)
    root_support = supports[root] if root else frozenset()
    missing = [v for v in range(1, nvars + 1) if v not in root_support]
    feats.add("root-mentions:%s" % ("all-variables" if not missing else "some-variables"))

    # ---- column set
    exhaustive = nvars <= MAX_EXHAUSTIVE_VARS
    if exhaustive:
        classes.append("exhaustive")
        tabs, full = rb.var_tables(nvars)
        vt = dict((v + 1, t) for v, t in enumerate(tabs))
        fmt = lambda col: _fmt_cols(col, nvars)
    else:
        classes.append("sampled")
        rng = random.Random(case.get("seed", 0))
        decision = sorted(cnf.get_weights())
        try:
            assignments = rb.sample_assignments(nvars, clauses, decision, rng, N_SAMPLES)
        except rb.TooLarge:
            return Outcome(inconclusive="solver-budget", features=sorted(feats), classes=classes)
        vt, full = rb.tables_from_assignments(range(1, nvars + 1), assignments)
        fmt = lambda col: "{" + ", ".join("%d=%d" % (v, assignments[col][v]) for v in range(1, nvars + 1)) + "}"
    atom_tables = dict((v, vt[v]) for v in rename)
    vals, info = rb.least_model(graph, atom_tables, full)
    t_cnf = rb.cnf_table(clauses, vt, full)

    # ---- node by node: decomposable, deterministic, smooth
    n_and = n_or = 0
    not_smooth = None
    for i in sorted(graph):
        kind, children = graph[i][0], graph[i][1]
        if kind == "atom":
            continue
        kids = [c for c in children if c is not None and c != 0]
        n_cmp += 1
        if kind == "conj":
            n_and += 1
            seen = set()
            for c in kids:
                s = supports[abs(c)]
                if seen & s:
                    return fail("not-decomposable", "AND node %d: child %r shares variables %r with an earlier child\n%s"
                                % (i, c, sorted(seen & s), text))
                seen |= s
        else:
            n_or += 1
            acc = 0
            for c in kids:
                t = rb.literal_value(vals, c, full)
                if acc & t:
                    col = rb.lowest_column(acc & t)
                    return fail("not-deterministic", "OR node %d: child %r and an earlier child are both true under %s\n%s"
                                % (i, c, fmt(col), text))
                acc |= t
            sups = set(supports[abs(c)] for c in kids)
            if len(sups) > 1 and not_smooth is None:
                not_smooth = (i, [sorted(s) for s in sups])
    if not_smooth is not None:
        return fail("not-smooth", "OR node %d has children over different variable sets %r\n%s" % (
            not_smooth[0], not_smooth[1], text))
    feats.add("nnf:%s" % ("empty" if not graph else "atoms-only" if not (n_and or n_or) else "and-or"))

    # ---- equivalence with the CNF
    t_root = full if root == 0 else vals[root]
    n_cmp += 1
    if t_root != t_cnf:
        col = rb.lowest_column(t_root ^ t_cnf)
        return fail("not-equivalent", "under %s the CNF is %d, the circuit root (node %d) is %d (%d of %d columns differ)\n%s"
                    % (fmt(col), (t_cnf >> col) & 1, root, (t_root >> col) & 1, rb.popcount(t_root ^ t_cnf),
                       full.bit_length(), text), sig="not-equivalent:%s" % ("exhaustive" if exhaustive else "sampled"))
    if not exhaustive:
        try:
            c_cnf = rb.count_models(nvars, clauses, prefer=sorted(cnf.get_weights()))
        except rb.TooLarge:
            return Outcome(inconclusive="model-counter-budget", features=sorted(feats), classes=classes)
        c_nnf = rb.nnf_model_count(graph, root if root else 0, nvars, supports)
        n_cmp += 1
        if c_cnf != c_nnf:
            return fail("model-count-mismatch", "CNF has %d models over %d variables, the circuit %d\n%s" % (
                c_cnf, nvars, c_nnf, text))

    # ---- labels
    def cnf_lit_table(key):
        if key is None:
            return 0
        if key == 0:
            return full
        return rb.lit_table(vt, key, full)

    cnf_lab = {}
    for name, key, label in cnf.get_names_with_label():
        if label != cnf.LABEL_NAMED:
            cnf_lab[(name, label)] = key
    nnf_lab = {}
    for name, key, label in nnf.get_names_with_label():
        if label != nnf.LABEL_NAMED:
            nnf_lab[(name, label)] = key
    if set(cnf_lab) != set(nnf_lab):
        return fail("labels-differ", "labels only in the CNF: %s; only in the circuit: %s\n%s" % (
            sorted(map(str, set(cnf_lab) - set(nnf_lab))), sorted(map(str, set(nnf_lab) - set(cnf_lab))), text))
    for (name, label), key in sorted(cnf_lab.items(), key=lambda kv: (str(kv[0][0]), kv[0][1])):
        nkey = nnf_lab[(name, label)]
        n_cmp += 1
        if key is not None and key != 0 and (type(key) is not int or abs(key) > nvars):
            return Outcome(features=sorted(feats), classes=["no-cnf:malformed"])
        if nkey is None or nkey == 0:
            if nkey == key:
                feats.add("label:constant")
                continue
            # a constant in place of a literal: right iff the literal has that value in every model of the CNF
            feats.add("label:absent-literal")
            t_want = cnf_lit_table(key)
            t_got = full if nkey == 0 else 0
            diff = (t_want ^ t_got) & t_cnf
            witness = None
            if diff:
                witness = fmt(rb.lowest_column(diff))
            elif not exhaustive and key is not None and key != 0:
                try:
                    m = rb.solve(nvars, clauses, [key if nkey is None else -key])
                except rb.TooLarge:
                    m = None
                if m is not None:
                    witness = str(sorted(m.items()))
            if witness is not None:
                return fail("label-wrong-constant",
                            "%s '%s' is the literal %r in the CNF but the constant %r in the circuit; the CNF has the "
                            "model %s in which the literal has the other value\n%s" % (label, name, key, nkey, witness, text))
            continue
        if type(nkey) is not int or abs(nkey) not in atoms:
            return fail("label-not-a-literal", "%s '%s' points to %r, which is not a literal of the circuit\n%s" % (
                label, name, nkey, text))
        v = atoms[abs(nkey)].identifier
        lit = v if nkey > 0 else -v
        if lit != key:
            return fail("label-wrong-literal", "%s '%s' is the literal %r in the CNF but %r (node %r) in the circuit\n%s"
                        % (label, name, key, lit, nkey, text))
        feats.add("label:literal")

    # ---- weights
    cw = cnf.get_weights()
    nw = nnf.get_weights()
    for i, a in sorted(atoms.items()):
        want = cw.get(a.identifier, True)
        got = nw.get(i, "<missing>")
        n_cmp += 1
        if got != want or type(got) is not type(want) or a.probability != want or type(a.probability) is not type(want):
            return fail("weight-changed", "CNF variable %d has weight %r; circuit atom %d has weight %r / probability %r\n%s"
                        % (a.identifier, want, i, got, a.probability, text))
    for k in nw:
        if k not in atoms:
            return fail("weight-on-non-atom", "the circuit has a weight for node %r, which is not an atom\n%s" % (k, text))
    for v in sorted(cw):
        if type(v) is int and 1 <= v <= nvars and v not in root_support:
            return fail("weighted-variable-missing", "CNF variable %d (weight %r) does not occur below the circuit root %d; "
                        "variables below the root: %r\n%s" % (v, cw[v], root, sorted(root_support), text))

    # ---- constraints
    cc = list(cnf.constraints())
    nc = list(nnf.constraints())
    if len(cc) != len(nc):
        return fail("constraints-differ", "CNF has %d constraints, the circuit %d\n%s" % (len(cc), len(nc), text))
    for a, b in zip(cc, nc):
        n_cmp += 1
        if type(a) is not type(b):
            return fail("constraints-differ", "constraint %s became %s" % (a, b))
        if type(a).__name__ == "ConstraintAD":
            try:
                want_nodes = set(rename[v] for v in a.nodes)
                want_extra = rename[a.extra_node] if a.extra_node is not None else None
            except KeyError as exc:
                return fail("constraints-differ", "constraint %s mentions CNF variable %s, which is not in the circuit\n%s"
                            % (a, exc, text))
            if set(b.nodes) != want_nodes or b.extra_node != want_extra or b.group != a.group:
                return fail("constraints-differ", "constraint %s (group %r) became %s (group %r); renaming %r\n%s" % (
                    a, a.group, b, b.group, rename, text))
            if a.is_nontrivial():
                feats.add("ad-constraint")
        else:
            if str(a) != str(b):
                return fail("constraints-differ", "constraint %s became %s" % (a, b))
    return Outcome(nontrivial=nontrivial, features=sorted(feats), classes=classes, sample=sample,
                   extra={"disagreements_checked": n_cmp})


@st.composite
def contradiction_programs(draw):
    """Propositional programs over three probabilistic atoms (independent or heads of one annotated disjunction)
    and up to three derived atoms defined by conjunctions of signed earlier atoms.  Many derived atoms are
    constant in every model of the CNF without being syntactically constant (a, b exclusive heads; d1 :- a, b;
    d2 :- d1, \\+a ...), so that literals of query/evidence atoms are absent from the compiled circuit."""
    probs = ["0.1", "0.2", "0.3", "0.4", "0.5"]
    prog = []
    shape = draw(st.integers(0, 2))
    if shape == 0:
        for f in "abc":
            prog.append(["pfact", draw(st.sampled_from(probs)), [f, []]])
    elif shape == 1:
        prog.append(["ad", [[draw(st.sampled_from(probs[:3])), ["a", []]], [draw(st.sampled_from(probs[:3])), ["b", []]]], []])
        prog.append(["pfact", draw(st.sampled_from(probs)), ["c", []]])
    else:
        prog.append(["ad", [[draw(st.sampled_from(probs[:3])), [f, []]] for f in "abc"], []])
    names = ["a", "b", "c"]
    for d in ("d1", "d2", "d3")[:draw(st.integers(1, 3))]:
        if draw(st.integers(0, 2)) == 0:
            # a tautology that is not syntactically constant: d :- x, y.  d :- \\+x.  d :- \\+y.   (or d :- x. d :- \\+x.)
            x = draw(st.sampled_from(names))
            y = draw(st.sampled_from(names))
            if x == y or draw(st.booleans()):
                prog.append(["rule", [d, []], [[False, x, []]]])
                prog.append(["rule", [d, []], [[True, x, []]]])
            else:
                prog.append(["rule", [d, []], [[False, x, []], [False, y, []]]])
                prog.append(["rule", [d, []], [[True, x, []]]])
                prog.append(["rule", [d, []], [[True, y, []]]])
            names.append(d)
            continue
        for _ in range(draw(st.integers(1, 2))):
            body = []
            for _ in range(draw(st.integers(2, 3))):
                body.append([draw(st.integers(0, 2)) == 0, draw(st.sampled_from(names)), []])
            prog.append(["rule", [d, []], body])
        names.append(d)
    for _ in range(draw(st.integers(1, 3))):
        prog.append(["query", [draw(st.sampled_from(names)), []], draw(st.booleans())])
    for _ in range(draw(st.sampled_from([0, 0, 1]))):
        prog.append(["evidence", [draw(st.sampled_from(names)), []], draw(st.booleans()), draw(st.integers(0, 1))])
    return prog


def _strategy_small():
    return st.tuples(st.booleans(), contradiction_programs()).map(
        lambda t: {"prog": t[1], "propagate": t[0], "seed": 0})


def _strategy():
    progs = st.one_of(gp.programs(), gp.programs(), gp.programs(max_preds=3), gp.programs(max_preds=2, max_clauses=4))
    return st.tuples(st.booleans(), st.integers(0, 2 ** 31 - 1), progs).map(
        lambda t: {"prog": t[2], "propagate": t[0], "seed": t[1]})


def render(case):
    return sem.render_program(case["prog"]) + "%% propagate_evidence=%r seed=%r" % (case["propagate"], case["seed"])


KNOWN_CLASSES = {}

SUBCHECKS = [
    SubCheck("compile", check, strategy=_strategy, budget={"quick": 850, "thorough": 40000},
             timeout={"quick": 6, "thorough": 30}, render=render),
    SubCheck("absent_literals", check, strategy=_strategy_small, budget={"quick": 450, "thorough": 8000},
             timeout={"quick": 6, "thorough": 30}, render=render),
]
