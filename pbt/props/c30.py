"""C30 - invalid probability annotations are rejected."""
from fractions import Fraction

from hypothesis import strategies as st

from pbt.core.api import Failure, Outcome, SubCheck
from pbt.core import plrun

PROPERTY_ID = "C30"
LEVEL = "exploration"
RULE = ("Generated programs: 1-4 probabilistic facts with probabilities from {-0.5,-0.001,0.0,0.3,0.5,1.0,1.001,1.5,2} "
        "written as literals, as arithmetic expressions ('P::f :- P is 0.7+0.8.') or as flexible probabilities from a "
        "fact ('w(1.5). P::f :- w(P).'); 0-2 annotated disjunctions with 2-3 heads whose probabilities sum to one of "
        "{0.9, 1.0, 1.2, 2.0} (each head valid on its own) ; a derived atom q with one clause per chosen fact/head; "
        "queries on q and on a drawn subset of facts/heads, optional evidence; evaluated with the probability and "
        "the log-probability semiring. Oracle from the statement: a program in which an offending annotation is "
        "RELEVANT (the fact is queried or in a clause of a queried atom; the AD has a head that is queried or in a "
        "clause of a queried atom) must raise InvalidValue; a program without any invalid annotation must not raise "
        "InvalidValue. Values within 1e-6 of the bounds are not generated except 0 and 1 themselves. Non-trivial: "
        "the program contains an invalid annotation that is relevant. Distinct = distinct program.")
ASSUMPTIONS = ["'relevant' is computed syntactically from the generated program (no negation, no recursion, every "
               "clause body is a single fact)",
               "irrelevant invalid annotations (never grounded) are unconstrained"]

PGRID = ["-0.5", "-0.001", "0.0", "0.3", "0.5", "1.0", "1.001", "1.5", "2"]
VALID = {"0.0", "0.3", "0.5", "1.0"}
AD_SPLITS = {
    "0.9": [["0.4", "0.5"], ["0.3", "0.3", "0.3"]],
    "1.0": [["0.5", "0.5"], ["0.2", "0.3", "0.5"]],
    "1.2": [["0.6", "0.6"], ["0.4", "0.4", "0.4"]],
    "2.0": [["1.0", "1.0"], ["0.9", "0.9", "0.2"]],
}


@st.composite
def _cases(draw):
    nf = draw(st.integers(1, 4))
    facts = []
    for i in range(nf):
        p = draw(st.sampled_from(PGRID))
        style = draw(st.sampled_from(["lit", "lit", "expr", "flex"]))
        facts.append({"name": "f%d" % i, "p": p, "style": style})
    nad = draw(st.integers(0, 2))
    ads = []
    for j in range(nad):
        s = draw(st.sampled_from(sorted(AD_SPLITS)))
        probs = draw(st.sampled_from(AD_SPLITS[s]))
        ads.append({"sum": s, "heads": [{"name": "h%d_%d" % (j, k), "p": p} for k, p in enumerate(probs)]})
    atoms = [f["name"] for f in facts] + [h["name"] for a in ads for h in a["heads"]]
    in_q = draw(st.lists(st.sampled_from(atoms), max_size=4, unique=True))
    direct = draw(st.lists(st.sampled_from(atoms), max_size=3, unique=True))
    query_q = draw(st.booleans()) or not direct
    ev = draw(st.lists(st.tuples(st.sampled_from(atoms), st.booleans()), max_size=1))
    return {"facts": facts, "ads": ads, "in_q": in_q, "direct": direct, "query_q": query_q,
            "evidence": [[a, v] for a, v in ev], "logspace": draw(st.booleans())}


def render(case):
    lines = []
    for f in case["facts"]:
        if f["style"] == "lit":
            lines.append("%s::%s." % (f["p"], f["name"]))
        elif f["style"] == "expr":
            v = Fraction(f["p"])
            a = v / 2
            lines.append("P::%s :- P is %s+%s." % (f["name"], float(a), float(v - a)))
        else:
            lines.append("w_%s(%s)." % (f["name"], f["p"]))
            lines.append("P::%s :- w_%s(P)." % (f["name"], f["name"]))
    for a in case["ads"]:
        lines.append("; ".join("%s::%s" % (h["p"], h["name"]) for h in a["heads"]) + ".")
    lines.append("q :- fail.")
    for x in case["in_q"]:
        lines.append("q :- %s." % x)
    if case["query_q"]:
        lines.append("query(q).")
    for x in case["direct"]:
        lines.append("query(%s)." % x)
    for a, v in case["evidence"]:
        lines.append("evidence(%s,%s)." % (a, "true" if v else "false"))
    return "\n".join(lines) + "\n"


def classify(case):
    """(any_invalid, relevant_invalid, partially_grounded_ad)"""
    grounded = set(case["direct"]) | set(a for a, _ in case["evidence"])
    if case["query_q"]:
        grounded |= set(case["in_q"])
    any_invalid = False
    relevant = False
    partial_only = False
    for f in case["facts"]:
        if f["p"] not in VALID:
            any_invalid = True
            if f["name"] in grounded:
                relevant = True
    for a in case["ads"]:
        if a["sum"] in ("1.2", "2.0"):
            any_invalid = True
            names = [h["name"] for h in a["heads"]]
            ng = sum(1 for n in names if n in grounded)
            if ng >= 1:
                relevant = True
                if ng < len(names):
                    partial_only = True
    return any_invalid, relevant, partial_only


def check(case):
    from problog.evaluator import SemiringLogProbability

    src = render(case)
    any_invalid, relevant, partial = classify(case)
    sr = SemiringLogProbability() if case["logspace"] else None
    res = plrun.run_problog(src, semiring=sr)
    if res[0] == "resource":
        return Outcome(inconclusive=res[1])
    feats = ["semiring:" + ("log" if case["logspace"] else "prob")]
    feats += ["style:" + f["style"] for f in case["facts"]]
    if any_invalid:
        feats.append("invalid-present")
    if relevant:
        feats.append("invalid-relevant")
    failure = None
    if res[0] == "crash":
        failure = Failure("crash", res[1], sig=res[1])
    elif relevant:
        if not (res[0] == "error" and res[1] == "InvalidValue"):
            kind = "invalid-ad-accepted" if _only_ads_invalid(case) else "invalid-accepted"
            failure = Failure(kind, "a relevant invalid annotation was not rejected: %r\n%s" % (res, src),
                              sig="%s:%s" % (kind, plrun._sigpart(res)))
    elif not any_invalid:
        if res[0] == "error" and res[1] == "InvalidValue":
            failure = Failure("valid-rejected", "InvalidValue raised for a program with valid annotations only\n%s" % src)
    outcome = res[0] if res[0] != "error" else "error:" + res[1]
    return Outcome(nontrivial=relevant, features=feats, failure=failure,
                   classes=[("relevant-invalid/" if relevant else "irrelevant-invalid/" if any_invalid else "valid/") + outcome],
                   sample={"program": src})


def _only_ads_invalid(case):
    grounded = set(case["direct"]) | set(a for a, _ in case["evidence"])
    if case["query_q"]:
        grounded |= set(case["in_q"])
    return not any(f["p"] not in VALID and f["name"] in grounded for f in case["facts"])


def ad_not_fully_grounded(case, failure):
    """Class of F-C30-1: every relevant invalid annotation is an over-full AD of which not all heads are grounded."""
    grounded = set(case["direct"]) | set(a for a, _ in case["evidence"])
    if case["query_q"]:
        grounded |= set(case["in_q"])
    if any(f["p"] not in VALID and f["name"] in grounded for f in case["facts"]):
        return False
    found = False
    for a in case["ads"]:
        if a["sum"] in ("1.2", "2.0"):
            names = [h["name"] for h in a["heads"]]
            ng = sum(1 for n in names if n in grounded)
            if ng == len(names):
                return False  # a fully grounded over-full AD must be rejected
            if ng >= 1:
                found = True
    return found


KNOWN_CLASSES = {"ad_not_fully_grounded": ad_not_fully_grounded}

SUBCHECKS = [
    SubCheck("annotations", check, strategy=_cases, budget={"quick": 3000, "thorough": 30000},
             timeout={"quick": 10, "thorough": 30}, render=render),
]
