"""C19 - findall/all in probabilistic programs follow the possible-world semantics."""
from fractions import Fraction

from pbt.core.api import Failure, Outcome, SubCheck
from pbt.core import plrun
from pbt.gen import c13_prolog as gen
from pbt.ref import c13_prolog as ref

PROPERTY_ID = "C19"
LEVEL = "exploration"
RULE = ("Programs generated as ASTs by construction: 1-2 base predicates (arity 1-2 over 2-3 constants) with "
        "deterministic facts, probabilistic facts (incl. duplicates of one fact, probability 0/1 now and then) and "
        "annotated disjunctions; 0-2 derived predicates with rules (several proofs per solution, negation, \\=), "
        "probabilistic rules and ADs with bodies; at most 4 probabilistic statements; 1-2 wrappers q_k(L) :- "
        "findall(T, Goal, L) / all(T, Goal, L) with Goal a call, conjunction, disjunction, call + negation, call + \\= "
        "(thorough tier: also a nested findall/all), each with query(q_k(L)). Oracle: decision-tree enumeration of "
        "the possible worlds with exact rationals (independent of pbt.ref.semantics); in every world the independent "
        "SLD interpreter computes the ordered list of solutions with duplicates; P(list) = total weight of the worlds "
        "producing it; compared with ProbLog's reported q_k([...]) instances in probability mode (zero entries "
        "dropped, list keys parsed structurally). Non-trivial: >= 2 relevant choices and >= 2 distinct result lists "
        "with positive probability. Distinct = distinct program. Failure signatures separate order-only, "
        "multiplicity-only and probability differences; the suffixes '|node-order', '|leafless', '|nested-all' mark the "
        "case classes of the known findings on findall's reconstruction of the list from proof nodes (computed from the "
        "reference run in which every choice is possible).")
ASSUMPTIONS = ["findall/3 keeps one list element per PROOF of a solution (test/findall_duplicates.pl: 0.3::p(a). "
               "0.2::p(b). 0.4::p(a). gives q([a, b, a]) 0.024), which is what SLD produces on the world's deterministic "
               "program; a probabilistic clause p::h :- b is the clause h :- b, choice (choice tested last)",
               "all/3 merges the proofs of one answer substitution of Goal: one list element per distinct binding of "
               "the template and the variables of Goal (engine_builtin._builtin_all calls Goal with head "
               "(Template, *Goal.variables()) on the ordinary target, where equal answers are one node; pinned by "
               "test/findall_duplicates.pl: all(X, r(X), L) over r(a). r(b). r(a). gives [a, b]; docs: findall "
               "'eliminates duplicate solutions (so it corresponds to all/3 in YAP Prolog)'), in order of first "
               "occurrence, and fails when there is none; in a world where the first-occurrence order differs from the "
               "order of first occurrence among all possible solutions the order of the all/3 list is NOT asserted "
               "(only its multiset of elements)",
               "each grounding of all variables of a probabilistic clause is an independent choice (as in "
               "pbt.ref.semantics, validated by C01)",
               "<= 8 relevant choices, <= 600 decision-tree leaves and <= 10 possible proofs per findall (ProbLog enumerates "
               "2^proofs sublists), otherwise inconclusive"]

MAX_CHOICES = 8
MAX_LEAVES = 600
MAX_PROOFS = 10


def _queries(prog):
    return [s[1] for s in prog if s[0] == "query"]


def _wrapper_kind(prog, pred):
    for s in prog:
        if s[0] == "cl" and s[1][0] == pred and s[2] is not None and s[2][0] in ("findall", "all"):
            return s[2][0]
    return None


def _has_kind(g, kinds):
    k = g[0]
    if k in kinds:
        return True
    if k in ("and", "or"):
        return any(_has_kind(x, kinds) for x in g[1])
    if k == "not":
        return _has_kind(g[1], kinds)
    if k in ("findall", "all"):
        return _has_kind(g[2], kinds)
    return False


def features(prog):
    f = set()
    seen_pf = set()
    for s in prog:
        k = s[0]
        if k == "pf":
            key = ref.render_atom(s[2])
            if key in seen_pf:
                f.add("dup-pfact")
            seen_pf.add(key)
            if s[1] in ("0.0", "1.0"):
                f.add("prob-0-or-1")
        elif k == "ad":
            f.add("ad:multihead" if len(s[1]) > 1 else "ad:prob-rule")
            if s[2] is not None:
                f.add("ad:body")
        elif k == "cl" and s[2] is not None:
            if s[2][0] in ("findall", "all"):
                f.add("wrapper:" + s[2][0])
                inner = s[2][2]
                if inner[0] in ("and", "or"):
                    f.add("goal:" + inner[0])
                if _has_kind(inner, ("not",)):
                    f.add("goal:not")
                if _has_kind(inner, ("findall", "all")):
                    f.add("goal:nested")
            elif _has_kind(s[2], ("not",)):
                f.add("rule:not")
    return f


def reference(prog):
    """Returns (expected, choice keys, (order-fragile, multiplicity-fragile), ambiguous, duplicates seen) where
    expected[qi] = {canonical list term: Fraction} and, for all/3 wrappers, ambiguous[qi] = {multiset of elements:
    Fraction} is the weight of the worlds in which the order of the distinct solutions is not asserted."""
    queries = _queries(prog)

    kinds = [_wrapper_kind(prog, q[0]) for q in queries]

    def run(it):
        out = []
        for q, kind in zip(queries, kinds):
            n0 = len(it.all_log)
            ans = it.query(q[0], q[1])
            order = tuple(it.all_log[-1]) if kind == "all" and len(it.all_log) > n0 else None
            out.append((tuple(ref.canonical(a) for a in ans), order))
        return tuple(out)

    # 'maximal' run: every choice succeeds, a negated goal succeeds unless it has a choice-free proof; gives the
    # order of all possible solutions and the proof leaves for the order-robustness class
    mx = ref.Interp(prog, budget=40000)
    mx.all_choices = True
    mx.track_proofs = True
    global_order = []
    for q, kind in zip(queries, kinds):
        n0, l0 = len(mx.all_log), len(mx.findall_log)
        mx.query(q[0], q[1])
        global_order.append(tuple(mx.all_log[-1]) if kind == "all" and len(mx.all_log) > n0 else None)
        inner = mx.findall_log[l0:-1]
        # a nested findall/all with k possible proofs yields up to 2^k lists, each one a solution of the outer goal
        if inner and sum(2 ** len(proofs) for _k, proofs, _u in inner) > MAX_PROOFS:
            raise ref.Budget()
    fragile = (any(not ref.order_robust(proofs, uses) for _k, proofs, uses in mx.findall_log),
               any(not ref.multiplicity_robust(uses) for _k, _p, uses in mx.findall_log))
    if any(len(proofs) > MAX_PROOFS for _k, proofs, _u in mx.findall_log):
        raise ref.Budget()  # ProbLog enumerates 2^proofs sublists
    worlds, keys = ref.enumerate_worlds(prog, run, max_leaves=MAX_LEAVES, budget=20000)
    expected = [dict() for _ in queries]
    ambiguous = [dict() for _ in queries]
    dup_world = False
    for w, res, _world, it in worlds:
        dup_world = dup_world or it.dup_call
        for qi, (ans, order) in enumerate(res):
            for a in ans:
                lst = a[0]
                if order is not None and global_order[qi] is not None:
                    pos = dict((x, i) for i, x in enumerate(global_order[qi]))
                    # (answers that the maximal run does not have - elements with inner lists that only exist in
                    # this world - have no position among all possible solutions: order not asserted either)
                    if not all(x in pos for x in order) or sorted(order, key=lambda x: pos[x]) != list(order):
                        key = _as_multiset(lst)
                        ambiguous[qi][key] = ambiguous[qi].get(key, 0) + w
                        continue
                expected[qi][lst] = expected[qi].get(lst, 0) + w
    return expected, keys, fragile, ambiguous, dup_world


def _parse_results(res, queries):
    """ProbLog result dict -> per query {canonical list term: float}; raises ParseError."""
    got = [dict() for _ in queries]
    names = dict((q[0], i) for i, q in enumerate(queries))
    for k, v in plrun.drop_zero(res).items():
        t = ref.parse_term(k)
        if t[0] != "c" or t[1] not in names or len(t[2]) != 1:
            raise ref.ParseError(k)
        lst = ref.canonical((t[2][0],))[0]
        d = got[names[t[1]]]
        d[lst] = d.get(lst, 0.0) + float(v)
    return got


def _proj(d, fn):
    out = {}
    for k, v in d.items():
        k2 = fn(k)
        out[k2] = out.get(k2, 0) + v
    return out


def _close_dict(a, b):
    for k in set(a) | set(b):
        if not plrun.close(float(a.get(k, 0)), float(b.get(k, 0))):
            return False
    return True


def _as_multiset(lst):
    """The list modulo the order inside lists (at every depth)."""
    return ref.sort_lists(lst)


def _as_set(lst):
    """The list modulo order and multiplicity inside lists (at every depth)."""
    return ref.dedup_lists(lst)


def _fmt(d):
    return "{" + ", ".join("%s: %s" % (ref.show(k), (str(v) if isinstance(v, Fraction) else "%.10g" % v))
                           for k, v in sorted(d.items(), key=lambda kv: ref.show(kv[0]))) + "}"


def compare_query(kind, exp, amb, got):
    """Returns None or (failure kind, detail).  `amb` (all/3 only): weight per multiset of elements of the worlds in
    which the order of the list is not asserted."""
    if not amb:
        if _close_dict(exp, got):
            return None
    else:
        # per multiset of elements the totals agree; an exact list has at least its exact mass and at most the exact
        # mass plus the order-free mass of its multiset
        ok = True
        tot_e = _proj(exp, _as_multiset)
        for k, v in amb.items():
            tot_e[k] = tot_e.get(k, 0) + v
        if not _close_dict(tot_e, _proj(got, _as_multiset)):
            ok = False
        for lst in set(exp) | set(got):
            e = float(exp.get(lst, 0))
            g = float(got.get(lst, 0))
            slack = float(amb.get(_as_multiset(lst), 0))
            if g < e and not plrun.close(g, e):
                ok = False
            if g > e + slack and not plrun.close(g, e + slack):
                ok = False
        if ok:
            return None
    detail = "reference %s%s, ProbLog %s" % (_fmt(exp), (" + order-free mass %s" % dict(
        (ref.show(k), str(v)) for k, v in amb.items())) if amb else "", _fmt(got))
    tot_m = _proj(exp, _as_multiset)
    for k, v in amb.items():
        tot_m[k] = tot_m.get(k, 0) + v
    if _close_dict(tot_m, _proj(got, _as_multiset)):
        return ("order-mismatch", detail)
    tot_s = _proj(exp, _as_set)
    for k, v in amb.items():
        tot_s[_as_set(k)] = tot_s.get(_as_set(k), 0) + v
    if _close_dict(tot_s, _proj(got, _as_set)):
        return ("duplicates-mismatch", detail)
    return ("prob-mismatch", detail)


def check(case):
    prog = case["prog"]
    feats = features(prog)
    src = ref.render_program(prog)
    queries = _queries(prog)
    try:
        expected, keys, fragile, ambiguous, dup_world = reference(prog)
    except ref.Budget:
        return Outcome(inconclusive="oversize", features=sorted(feats))
    except ref.Unsupported:
        return Outcome(inconclusive="unsupported", features=sorted(feats))
    if len(keys) > MAX_CHOICES:
        return Outcome(inconclusive="oversize", features=sorted(feats))
    feats.add("choices:%s" % ("0-1" if len(keys) < 2 else "2-4" if len(keys) < 5 else "5-8"))
    if any(ambiguous):
        feats.add("all:order-not-asserted")
    if dup_world:
        feats.add("duplicate-solutions")
    res = plrun.run_problog(src)
    if res[0] == "resource":
        return Outcome(inconclusive=res[1], features=sorted(feats))
    nlists = max(len(e) + len(a) for e, a in zip(expected, ambiguous)) if queries else 0
    nontrivial = len(keys) >= 2 and nlists >= 2
    sample = {"program": src, "reference": [_fmt(e) for e in expected]}
    cls = ["order-fragile" if fragile[0] else "order-robust"]
    failure = None
    if res[0] == "crash":
        failure = Failure("crash", "internal exception %s\nprogram:\n%s" % (res[1], src), sig=res[1])
    elif res[0] == "error":
        failure = Failure("unexpected-error", "reference answers %s but ProbLog raised %s\nprogram:\n%s" % (
            [_fmt(e) for e in expected], res[1], src), sig="unexpected-error:%s" % res[1])
    else:
        try:
            got = _parse_results(res[1], queries)
        except ref.ParseError as exc:
            failure = Failure("unparsable-instance", "ProbLog reported %r\nprogram:\n%s" % (str(exc), src))
            got = None
        if got is not None:
            for qi, q in enumerate(queries):
                kind = _wrapper_kind(prog, q[0])
                r = compare_query(kind, expected[qi], ambiguous[qi], got[qi])
                if r is not None:
                    suffix = ""
                    if r[0] == "order-mismatch" and fragile[0]:
                        # (under an outer all/3 it is the order INSIDE an inner findall list)
                        suffix = "|node-order"
                    elif r[0] == "duplicates-mismatch" and complementary_clause_pair(case):
                        suffix = "|complement"
                    elif r[0] == "duplicates-mismatch" and fragile[1]:
                        suffix = "|leafless"
                    elif r[0] == "duplicates-mismatch" and nested_all_in_findall(case):
                        suffix = "|nested-all"
                    failure = Failure(r[0], "%s (%s/3): %s\nprogram:\n%s" % (q[0], kind, r[1], src),
                                      sig="%s:%s%s" % (kind, r[0], suffix))
                    break
    return Outcome(nontrivial=nontrivial, features=sorted(feats), failure=failure, classes=cls, sample=sample)


def _strategy():
    return gen.findall_cases(nested=False)


def _strategy_nested():
    return gen.findall_cases(nested=True)


def render(case):
    return ref.render_program(case["prog"])


def nested_all_in_findall(case, failure=None):
    """Class of the finding 'an all/3 or findall/3 inside the goal of a findall/3 repeats the outer element once per
    branch of the inner list's condition node': some findall goal of the program contains an all/3 or findall/3."""
    def has(g, inside):
        k = g[0]
        if k in ("all", "findall") and inside:
            return True
        if k in ("and", "or"):
            return any(has(x, inside) for x in g[1])
        if k == "not":
            return has(g[1], inside)
        if k in ("findall", "all"):
            return has(g[2], inside or k == "findall")
        return False

    return any(s[0] in ("cl", "ad") and s[2] is not None and has(s[2], False) for s in case["prog"])


def findall_node_order(case, failure=None):
    """Class of the finding 'findall/3 orders its solutions by the largest node id of their proofs' (see
    pbt/props/c13.py): in the run where every probabilistic choice is possible some findall has solutions that do not
    all end in a proof leaf of their own."""
    try:
        return bool(reference(case["prog"])[2][0])
    except (ref.Budget, ref.Unsupported):
        return False


def findall_leafless_proof(case, failure=None):
    """Class of the finding 'proofs without leaves collapse into one findall element' (see pbt/props/c13.py)."""
    try:
        return bool(reference(case["prog"])[2][1])
    except (ref.Budget, ref.Unsupported):
        return False


def complementary_clause_pair(case, failure=None):
    """Class of the finding 'an answer with the proofs g and \\+ g is ONE findall element': some predicate has a clause
    whose body is a single call and another clause whose body is the negation of a call of the same predicate (in
    findall's keep_all formula even deterministic facts are atom nodes, so the answer's disjunction has the children
    n and -n and collapses to TRUE, which absorbs every other proof of that answer)."""
    pos, neg = set(), set()
    for s in case["prog"]:
        if s[0] != "cl" or s[2] is None:
            continue
        b = s[2]
        if b[0] == "call":
            pos.add((s[1][0], b[1]))
        elif b[0] == "not" and b[1][0] == "call":
            neg.add((s[1][0], b[1][1]))
    return bool(pos & neg)


KNOWN_CLASSES = {"findall_node_order": findall_node_order, "findall_complement_pair": complementary_clause_pair, "findall_leafless_proof": findall_leafless_proof,
                 "nested_all_in_findall": nested_all_in_findall}

SUBCHECKS = [
    SubCheck("worlds", check, strategy=_strategy, budget={"quick": 2400, "thorough": 11000},
             timeout={"quick": 15, "thorough": 60}, render=render),
    SubCheck("nested", check, strategy=_strategy_nested, budget={"quick": 0, "thorough": 4000},
             timeout={"quick": 15, "thorough": 30}, render=render),
]
