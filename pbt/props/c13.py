"""C13 - deterministic programs agree with standard Prolog, including findall order."""
from pbt.core.api import Failure, Outcome, SubCheck
from pbt.core import plrun
from pbt.gen import c13_prolog as gen
from pbt.ref import c13_prolog as ref

PROPERTY_ID = "C13"
LEVEL = "exploration"
RULE = ("Pure Prolog programs without probabilities or cut, generated as ASTs by construction. (a) 'nonrec': 1-4 "
        "layered predicates of arity 1-3 (predicate i only calls predicates < i, plus mem/2 on proper lists), 1-5 "
        "clauses each whose head arguments mix ground terms (constants, integers, f/1, g/2, lists), variables and "
        "partial terms in interleaved order; bodies with calls, =, \\=, safe negation, disjunction, findall/3; 1-3 "
        "wrappers w_k(L) :- findall(T, Goal, L) with Goal a call / conjunction / disjunction with bound and unbound "
        "arguments; a sequence of 2-9 queries (wrappers and direct calls, with repetitions) run with "
        "DefaultEngine().query on ONE prepared database. Oracle: an independent SLD interpreter; direct calls are "
        "compared as answer sets (modulo variable renaming), wrappers as the exact list (order and duplicates). "
        "'index': bounded-exhaustive programs p/2 with 2-3 clauses whose first argument is ground / a variable bound "
        "in the body / a partial term, queried 7 times. (b) 'datalog': definite Datalog with arbitrary recursion; "
        "oracle: semi-naive least Herbrand model restricted to the query. Non-trivial: the query (or wrapper list) "
        "has >= 2 solutions and a called predicate has clauses whose head arguments differ in groundness at some "
        "position. Distinct = distinct (program, query sequence). Failure signatures separate order-only, "
        "multiplicity-only and content differences; the suffixes '|node-order' / '|leafless' mark cases in which the "
        "reference run shows that a findall solution does not end in a proof leaf of its own / that a repeated answer "
        "has a proof without leaves (classes of the known findings on findall's reconstruction of the list from proof "
        "nodes).")
ASSUMPTIONS = ["no SWI-Prolog in the sandbox: pbt/ref/c13_prolog.py (SLD interpreter and bottom-up evaluator, "
               "cross-checked against each other on the non-recursive Datalog cases) is the oracle",
               "answers of engine.query are compared as sets because tabling removes duplicate answers; only findall "
               "lists are compared with order and multiplicity",
               "programs where a negated goal is reached with unbound variables, or where the reference exceeds its "
               "step budget, are inconclusive",
               "calls that repeat a variable inside one literal are generated rarely and classified "
               "(known finding F-ENG-4)"]


# ------------------------------------------------------------------------------------------------ helpers

def from_problog(t):
    """problog term (or engine variable) -> internal reference term."""
    from problog.logic import Term, Constant, Var

    if t is None or isinstance(t, int):
        return ("v", t)
    if isinstance(t, Var):
        return ("v", t.name)
    if isinstance(t, Constant):
        v = t.functor
        if isinstance(v, bool):
            return ("a", str(t))
        if isinstance(v, int):
            return ("i", v)
        return ("a", str(t))
    if isinstance(t, Term):
        if t.arity == 0:
            return ("a", str(t.functor))
        return ("c", str(t.functor), tuple(from_problog(a) for a in t.args))
    return ("a", str(t))


def clause_list(prog):
    return [s for s in prog if s[0] == "cl"]


def _term_ground(t):
    k = t[0]
    if k == "v":
        return False
    if k == "c":
        return all(_term_ground(x) for x in t[2])
    if k == "l":
        return all(_term_ground(x) for x in t[1]) and (t[2] is None or _term_ground(t[2]))
    return True


def mixed_groundness(prog, pred, arity):
    """Some argument position is ground in one clause head of pred/arity and non-ground in another."""
    heads = [s[1][1] for s in clause_list(prog) if s[1][0] == pred and len(s[1][1]) == arity]
    for k in range(arity):
        g = set(_term_ground(h[k]) for h in heads)
        if len(g) == 2:
            return True
    return False


def goal_calls(g, acc):
    k = g[0]
    if k == "call":
        acc.append(g)
    elif k in ("and", "or"):
        for x in g[1]:
            goal_calls(x, acc)
    elif k == "not":
        goal_calls(g[1], acc)
    elif k in ("findall", "all"):
        goal_calls(g[2], acc)
    return acc


def goal_kinds(g, acc):
    k = g[0]
    acc.add(k)
    if k in ("and", "or"):
        for x in g[1]:
            goal_kinds(x, acc)
    elif k == "not":
        goal_kinds(g[1], acc)
    elif k in ("findall", "all"):
        goal_kinds(g[2], acc)
    return acc


def pred_graph(prog):
    g = {}
    for s in clause_list(prog):
        d = g.setdefault((s[1][0], len(s[1][1])), set())
        if s[2] is not None:
            for c in goal_calls(s[2], []):
                d.add((c[1], len(c[2])))
    return g


def recursive_preds(prog):
    g = pred_graph(prog)
    rec = set()
    for v in g:
        seen = set()
        stack = list(g.get(v, ()))
        while stack:
            w = stack.pop()
            if w == v:
                rec.add(v)
                break
            if w in seen:
                continue
            seen.add(w)
            stack.extend(g.get(w, ()))
    return rec


def _rep(args):
    vs = []

    def go(t):
        if t[0] == "v":
            if t[1] != "_":
                vs.append(t[1])
        elif t[0] == "c":
            for x in t[2]:
                go(x)
        elif t[0] == "l":
            for x in t[1]:
                go(x)
            if t[2] is not None:
                go(t[2])

    for a in args:
        go(a)
    return len(vs) != len(set(vs))


def _shared_call_hits_rule(pred, args, rule_heads):
    """A call with the same variable twice whose predicate has a clause WITH A BODY that the defect can reach: the
    variable also occurs inside a compound argument (not analysed further), or it is repeated at the top-level
    positions i, j and some such clause has syntactically different head arguments at i and j."""
    if not _rep(args):
        return False
    heads = rule_heads.get((pred, len(args)), ())
    if not heads:
        return False
    pos = {}
    for i, t in enumerate(args):
        if t[0] == "v" and t[1] != "_":
            pos.setdefault(t[1], []).append(i)
    if _rep([t for t in args if t[0] != "v"]):
        return True  # repeated inside compound arguments
    for v, ps in pos.items():
        if _occurs_in_compound(v, args):
            return True
        if len(ps) >= 2 and any(h[i] != h[j] for h in heads for i in ps for j in ps if i < j):
            return True
    return False


def _occurs_in_compound(v, args):
    def go(t):
        if t[0] == "v":
            return t[1] == v
        if t[0] == "c":
            return any(go(x) for x in t[2])
        if t[0] == "l":
            return any(go(x) for x in t[1]) or (t[2] is not None and go(t[2]))
        return False
    return any(go(t) for t in args if t[0] != "v")


def shared_var_call(case):
    """Class of finding F-ENG-4 (a clause body is evaluated without the bindings that head unification puts on
    shared call variables): some call literal (body or query) has the same variable twice and its predicate has a
    clause with a body whose head distinguishes the shared positions.  Calls to predicates that only have facts, and
    clauses whose head has the same term at the shared positions, are not affected by that finding."""
    rule_heads = {}
    for s in clause_list(case["prog"]):
        if s[2] is not None:
            rule_heads.setdefault((s[1][0], len(s[1][1])), []).append(s[1][1])
    for s in clause_list(case["prog"]):
        if s[2] is not None and any(_shared_call_hits_rule(c[1], c[2], rule_heads) for c in goal_calls(s[2], [])):
            return True
    return any(_shared_call_hits_rule(q[0], q[1], rule_heads) for q in case.get("queries", ()))


def features(prog):
    f = set()
    kinds = set()
    for s in clause_list(prog):
        if s[2] is not None:
            goal_kinds(s[2], kinds)
        for t in s[1][1]:
            if t[0] in ("c", "l"):
                f.add("head:compound")
    for k in kinds:
        if k in ("or", "not", "findall", "=", "\\="):
            f.add("body:" + k)
    rec = recursive_preds(prog)
    if any(p[0] != "mem" for p in rec):
        f.add("recursive")
    if ("mem", 2) in rec:
        f.add("lists:mem")
    return f


def _prepare(src):
    from problog.program import PrologString
    from problog.engine import DefaultEngine

    plrun.reset_state()
    eng = DefaultEngine()
    with plrun.captured_output():
        db = eng.prepare(PrologString(src))
    return eng, db


def _query(eng, db, q):
    from problog.logic import Term

    with plrun.captured_output():
        t = Term.from_string(ref.render_atom(q))
        res = eng.query(db, t)
    return [ref.canonical(tuple(from_problog(x) for x in r)) for r in res]


def _show_answers(ans):
    return "[" + "; ".join("(" + ", ".join(ref.show(t) for t in a) + ")" for a in ans) + "]"


def _exc_failure(exc, what):
    kind, sig = plrun.classify_exception(exc)
    if kind == "resource":
        return None, sig
    if kind == "error" and sig == "OccursCheck":
        # a unification that binds a variable to a term containing it: standard Prolog builds a cyclic term there,
        # ProbLog raises (C14 admits both); the program is outside the statement of C13
        return None, "occurs-check"
    if kind == "error":
        return Failure("unexpected-error", "%s: ProbLog raised %s: %s" % (what, sig, str(exc)[:300]),
                       sig="unexpected-error:%s" % sig), None
    return Failure("crash", "%s: internal exception %s" % (what, sig), sig=sig), None


def _is_wrapper(prog, pred):
    """w_k(L) :- findall(T, Goal, L): the generated findall wrappers."""
    if not pred.startswith("w"):
        return False
    for s in clause_list(prog):
        if s[1][0] == pred and s[2] is not None and s[2][0] == "findall" and len(s[1][1]) == 1:
            return True
    return False


def _compare(prog, q, expected, got, flags, qi):
    """expected: list of canonical answers in SLD order with duplicates; got: list of canonical answers.
    flags = (fragile, leafless): class flags of the reference evaluation of this query; they only refine the failure
    signature ('|node-order' on order failures, '|leafless' on multiplicity failures)."""
    fragile, leafless = flags
    head = "query #%d %s" % (qi, ref.render_atom(q))
    wrapper = _is_wrapper(prog, q[0])
    if wrapper:
        exp_list = ref.list_items(expected[0][0]) if len(expected) == 1 else None
        if len(got) != 1 or ref.list_items(got[0][0]) is None or exp_list is None:
            return Failure("findall-answers", "%s: expected %s got %s" % (head, _show_answers(expected),
                                                                         _show_answers(got)))
        if got[0][0] == expected[0][0]:
            return None
        detail = "%s: SLD list %s, ProbLog list %s" % (head, ref.show(expected[0][0]), ref.show(got[0][0]))
        prefix = "findall"
        es, gs = set(expected), set(got)
    else:
        es, gs = set(expected), set(got)
        if es == gs:
            return None
        miss = sorted(es - gs, key=repr)
        extra = sorted(gs - es, key=repr)
        detail = "%s: reference answers %s, ProbLog answers %s (missing %s, extra %s)" % (
            head, _show_answers(sorted(es, key=repr)), _show_answers(sorted(gs, key=repr)), _show_answers(miss),
            _show_answers(extra))
        prefix = "answer"
    # which aspect differs: only the order inside (findall) lists, only multiplicities inside lists, or the content
    if set(tuple(ref.sort_lists(t) for t in a) for a in es) == set(tuple(ref.sort_lists(t) for t in a) for a in gs):
        kind = prefix + "-order"
        return Failure(kind, detail, sig=kind + ("|node-order" if fragile else ""))
    if set(tuple(ref.dedup_lists(t) for t in a) for a in es) == set(tuple(ref.dedup_lists(t) for t in a) for a in gs):
        kind = prefix + "-duplicates"
        return Failure(kind, detail, sig=kind + ("|leafless" if leafless else ""))
    kind = prefix + ("-content" if wrapper else "-set")
    return Failure(kind, detail)


def _called_preds(prog, q):
    if _is_wrapper(prog, q[0]):
        out = []
        for s in clause_list(prog):
            if s[1][0] == q[0]:
                out += [(c[1], len(c[2])) for c in goal_calls(s[2][2], [])]
        return out
    return [(q[0], len(q[1]))]


def _nsolutions(prog, q, expected):
    if _is_wrapper(prog, q[0]) and len(expected) == 1:
        items = ref.list_items(expected[0][0])
        return len(items) if items is not None else 0
    return len(set(expected))


# ------------------------------------------------------------------------------------------------ checks

def _datalog_only(prog):
    kinds = set()
    for s in clause_list(prog):
        if s[2] is not None:
            goal_kinds(s[2], kinds)
        for t in s[1][1]:
            if t[0] in ("c", "l"):
                return False
        if s[2] is not None:
            for c in goal_calls(s[2], []):
                if any(t[0] in ("c", "l") for t in c[2]):
                    return False
    return not (kinds - set(["call", "and", "or", "=", "\\=", "true"]))


def check_sld(case):
    prog, queries = case["prog"], case["queries"]
    feats = features(prog)
    src = ref.render_program(prog)
    refs = []
    any_dup = False
    any_fragile = False
    try:
        for q in queries:
            it = ref.Interp(prog, budget=30000, max_depth=120)
            it.track_proofs = True
            ans = it.query(q[0], q[1])
            if it.floundered:
                return Outcome(inconclusive="flounder", features=sorted(feats))
            fragile = any(not ref.order_robust(proofs, uses) for _k, proofs, uses in it.findall_log)
            leafless = any(not ref.multiplicity_robust(uses) for _k, _p, uses in it.findall_log)
            refs.append(([ref.canonical(a) for a in ans], (fragile, leafless)))
            any_dup = any_dup or it.dup_call
            any_fragile = any_fragile or fragile
    except ref.Budget:
        return Outcome(inconclusive="ref-budget", features=sorted(feats))
    # self check of the two references on the pure Datalog part of the space
    core = [s for s in prog if not _is_wrapper(prog, s[1][0])]
    if _datalog_only(core):
        try:
            model = ref.least_model(core)
        except (ref.Unsupported, ref.Budget):
            model = None
        if model is not None:
            for q, (ans, _d) in zip(queries, refs):
                if not _is_wrapper(prog, q[0]) and all(t[0] in ("a", "i", "v") for t in q[1]):
                    m = set(ref.canonical(a) for a in ref.model_answers(model, q[0], q[1]))
                    if m != set(ans):
                        raise AssertionError("reference evaluators disagree on %s: SLD %r bottom-up %r\n%s" % (
                            ref.render_atom(q), sorted(set(ans)), sorted(m), src))
            feats.add("refs-cross-checked")
    if any_dup:
        feats.add("duplicate-answers")
    nontrivial = False
    failure = None
    try:
        eng, db = _prepare(src)
    except plrun.CaseTimeout:
        raise
    except BaseException as exc:  # noqa
        if isinstance(exc, (KeyboardInterrupt, SystemExit)):
            raise
        failure, res = _exc_failure(exc, "prepare")
        if failure is None:
            return Outcome(inconclusive=res, features=sorted(feats))
        return Outcome(failure=failure, features=sorted(feats), sample={"program": src})
    seen = {}
    for qi, (q, (expected, flags)) in enumerate(zip(queries, refs)):
        key = ref.render_atom(q)
        try:
            got = _query(eng, db, q)
        except plrun.CaseTimeout:
            raise
        except BaseException as exc:  # noqa
            if isinstance(exc, (KeyboardInterrupt, SystemExit)):
                raise
            failure, res = _exc_failure(exc, "query #%d %s" % (qi, key))
            if failure is None:
                return Outcome(inconclusive=res, features=sorted(feats))
            break
        failure = _compare(prog, q, expected, got, flags, qi)
        if failure is not None:
            if seen.get(key) is True:
                failure.detail += " [the same query was answered correctly earlier on this database]"
                feats.add("fails-on-repeat-only")
            failure.detail += "\nprogram:\n" + src
            break
        seen[key] = True
        if _nsolutions(prog, q, expected) >= 2 and any(mixed_groundness(prog, p, n) for p, n in _called_preds(prog, q)):
            nontrivial = True
            feats.add("nontrivial:" + ("findall" if _is_wrapper(prog, q[0]) else "call"))
    return Outcome(nontrivial=nontrivial, features=sorted(feats), failure=failure,
                   classes=["order-fragile" if any_fragile else "order-robust"],
                   sample={"program": src, "queries": [ref.render_atom(q) for q in queries],
                           "reference": [_show_answers(r[0]) for r in refs]})


def check_datalog(case):
    prog, queries = case["prog"], case["queries"]
    feats = features(prog)
    src = ref.render_program(prog)
    try:
        model = ref.least_model(prog)
    except ref.Unsupported:
        return Outcome(inconclusive="unsupported", features=sorted(feats))
    except ref.Budget:
        return Outcome(inconclusive="ref-budget", features=sorted(feats))
    g = pred_graph(prog)
    rec = recursive_preds(prog)
    if len(rec) > 1:
        feats.add("rec:multi")
    for s in clause_list(prog):
        if s[2] is not None:
            hp = (s[1][0], len(s[1][1]))
            n_in = sum(1 for c in goal_calls(s[2], []) if (c[1], len(c[2])) in rec and hp in rec)
            if n_in >= 2:
                feats.add("rec:nonlinear")
            cs = goal_calls(s[2], [])
            if cs and (cs[0][1], len(cs[0][2])) == hp:
                feats.add("rec:left")
    failure = None
    nontrivial = False
    try:
        eng, db = _prepare(src)
    except plrun.CaseTimeout:
        raise
    except BaseException as exc:  # noqa
        if isinstance(exc, (KeyboardInterrupt, SystemExit)):
            raise
        failure, res = _exc_failure(exc, "prepare")
        if failure is None:
            return Outcome(inconclusive=res, features=sorted(feats))
        return Outcome(failure=failure, features=sorted(feats), sample={"program": src})
    expected_all = []
    for qi, q in enumerate(queries):
        expected = [ref.canonical(a) for a in sorted(ref.model_answers(model, q[0], q[1]))]
        expected_all.append(expected)
        try:
            got = _query(eng, db, q)
        except plrun.CaseTimeout:
            raise
        except BaseException as exc:  # noqa
            if isinstance(exc, (KeyboardInterrupt, SystemExit)):
                raise
            failure, res = _exc_failure(exc, "query #%d %s" % (qi, ref.render_atom(q)))
            if failure is None:
                return Outcome(inconclusive=res, features=sorted(feats))
            failure.detail += "\nprogram:\n" + src
            break
        failure = _compare(prog, q, expected, got, (False, False), qi)
        if failure is not None:
            failure.kind = "model-" + failure.kind
            failure.sig = "model-" + failure.sig
            failure.detail += "\nprogram:\n" + src
            break
        # reachability of a recursive predicate from the query
        reach = set()
        stack = [(q[0], len(q[1]))]
        while stack:
            v = stack.pop()
            if v in reach:
                continue
            reach.add(v)
            stack.extend(g.get(v, ()))
        if len(expected) >= 2 and mixed_groundness(prog, q[0], len(q[1])) and (reach & rec):
            nontrivial = True
    return Outcome(nontrivial=nontrivial, features=sorted(feats), failure=failure,
                   classes=["recursive" if rec else "nonrecursive"],
                   sample={"program": src, "queries": [ref.render_atom(q) for q in queries],
                           "least-model answers": [_show_answers(e) for e in expected_all]})


def render(case):
    return {"program": ref.render_program(case["prog"]), "queries": [ref.render_atom(q) for q in case["queries"]]}


def _findall_class(case, pred):
    prog = case["prog"]
    try:
        for q in case["queries"]:
            it = ref.Interp(prog, budget=30000, max_depth=120)
            it.track_proofs = True
            it.query(q[0], q[1])
            if any(pred(proofs, uses) for _k, proofs, uses in it.findall_log):
                return True
    except ref.Budget:
        return False
    return False


def findall_node_order(case, failure=None):
    """Class of the finding 'findall/3 orders its solutions by the largest node id of their proofs': the reference
    evaluation of some query of the case runs a findall whose solutions do NOT all end in a proof leaf of their own
    (see ref.order_robust), so the node order can differ from the SLD order."""
    return _findall_class(case, lambda proofs, uses: not ref.order_robust(proofs, uses))


def findall_leafless_proof(case, failure=None):
    """Class of the finding 'proofs without leaves collapse into one findall element': in the reference evaluation of
    some query a call, disjunction or findall goal returns the same answer twice and one of those proofs consists of
    negations / nested findalls only (see ref.multiplicity_robust)."""
    return _findall_class(case, lambda proofs, uses: not ref.multiplicity_robust(uses))


KNOWN_CLASSES = {
    "shared_var_call": lambda case, failure: shared_var_call(case),
    "findall_node_order": findall_node_order,
    "findall_leafless_proof": findall_leafless_proof,
}

SUBCHECKS = [
    SubCheck("index", check_sld, enumerate=gen.index_cases, budget={"quick": 0, "thorough": 0},
             timeout={"quick": 10, "thorough": 20},
             exhaustive="p/2 with 2-3 clauses, first argument in {a, b, X=a, X=b, X over r/1} (thorough: also f(a), "
                        "f(X)), second argument = clause number in the head (thorough: or bound in the body), mixing "
                        "ground and non-ground first arguments; 2 fixed sequences of 7 queries", render=render),
    SubCheck("nonrec", check_sld, strategy=gen.nonrec_cases, budget={"quick": 1300, "thorough": 32000},
             timeout={"quick": 10, "thorough": 30}, render=render),
    SubCheck("datalog", check_datalog, strategy=gen.datalog_cases, budget={"quick": 700, "thorough": 18000},
             timeout={"quick": 10, "thorough": 30}, render=render),
]
