"""C06 - inference options do not change the answer."""
from hypothesis import strategies as st

from pbt.core.api import Failure, Outcome, SubCheck
from pbt.core import plrun
from pbt.gen import programs as gp
from pbt.ref import semantics as sem

PROPERTY_ID = "C06"
LEVEL = "exploration"
RULE = ("C01-style generated programs x Hypothesis-drawn option sets over {propagate_evidence, propagate_weights "
        "(with the evaluation semiring), label_all, avoid_name_clash, keep_order, keep_all, keep_duplicates, "
        "hide_builtins, logspace} passed the way tasks/probability.execute passes them (engine constructor + "
        "create_from), plus a rewrite of the evidence syntax (evidence(a) <-> evidence(a,true); evidence(\\+a) <-> "
        "evidence(a,false)). Oracle: metamorphic in probability mode (zero entries dropped) and same accept/reject "
        "class against the run without options. Non-trivial: option set non-empty and the program has evidence (for "
        "propagate options) or a derived query. Distinct = distinct (program, option sets).")
ASSUMPTIONS = ["metamorphic oracle between runs of the real code", "probability mode: options may change which "
               "zero-probability instances are listed"]

BOOL_OPTS = ["propagate_evidence", "propagate_weights", "label_all", "avoid_name_clash", "keep_order", "keep_all",
             "keep_duplicates", "hide_builtins", "logspace"]


def run_with(src, opts):
    from problog.evaluator import SemiringProbability, SemiringLogProbability

    o = dict((k, v) for k, v in opts.items() if v)
    logspace = o.pop("logspace", False)
    semiring = SemiringLogProbability() if logspace else None
    if o.pop("propagate_weights", False):
        o["propagate_weights"] = SemiringLogProbability() if logspace else SemiringProbability()
    return plrun.run_problog(src, semiring=semiring, engine_args=dict(o), ground_args=dict(o))


def run_exported(src, opts):
    """Ground with the options, export as ProbLog text, evaluate that text without options."""
    from problog.program import PrologString
    from problog.formula import LogicFormula
    from problog.engine import DefaultEngine
    from problog.evaluator import SemiringProbability

    from problog.evaluator import SemiringLogProbability

    o = dict((k, v) for k, v in opts.items() if v)
    o.pop("logspace", None)
    # the ground task (the documented user of keep_all) always grounds with these three on
    o["label_all"] = True
    o["avoid_name_clash"] = True
    o["keep_order"] = True
    if o.pop("propagate_weights", False):
        o["propagate_weights"] = SemiringLogProbability()
    plrun.reset_state()
    try:
        with plrun.captured_output():
            eng = DefaultEngine(**o)
            db = eng.prepare(PrologString(src))
            lf = LogicFormula.create_from(db, engine=eng, database=db, **o)
            text = lf.to_prolog()
    except plrun.CaseTimeout:
        raise
    except BaseException as exc:
        if isinstance(exc, (KeyboardInterrupt, SystemExit)):
            raise
        return plrun.classify_exception(exc)
    return plrun.run_problog(text)


def _has_nonground(r):
    import re
    return r[0] == "ok" and any(re.search(r"\bX\d+\b", k) for k in r[1])


def _ground_only(r):
    return r


def check(case):
    prog = case["prog"]
    feats = gp.features(prog)
    src = sem.render_program(prog)
    base = run_with(src, {})
    if base[0] == "resource":
        return Outcome(inconclusive=base[1], features=feats)
    failure = None
    used = set()
    for oi, opts in enumerate(case["optsets"]):
        prog2 = []
        flip = opts.get("flip_evidence_style")
        for s in prog:
            if s[0] == "evidence" and flip:
                s = [s[0], s[1], s[2], 1 - s[3]]
            prog2.append(s)
        src2 = sem.render_program(prog2)
        o = dict((k, v) for k, v in opts.items() if k != "flip_evidence_style")
        for k, v in opts.items():
            if v:
                used.add(k)
        names = sorted(k for k, v in opts.items() if v)
        if o.get("keep_all"):
            # keep_all is an option of the ground task: its documented use is to export the ground program.
            # Route 1 (strict): ground with the options, export with to_prolog(), evaluate the exported text.
            res = run_exported(src2, o)
            if res[0] == "resource":
                return Outcome(inconclusive=res[1], features=feats)
            f = plrun.compare_prob_mode(_ground_only(base), _ground_only(res), "no options", "exported with %s" % names)
            if f is not None and not (base[0] == "ok" and _has_nonground(base)):
                f.sig = "export:keep_all|%s" % f.sig
                failure = f
                break
        res = run_with(src2, o)
        if res[0] == "resource":
            return Outcome(inconclusive=res[1], features=feats)
        f = plrun.compare_prob_mode(base, res, "no options", "options %s" % names)
        if f is not None:
            if o.get("keep_all"):
                tag = "direct:keep_all"
            else:
                tag = "+".join(names) if len(names) <= 2 else "multi"
            f.sig = "%s|%s" % (tag, f.sig)
            failure = f
            break
    for k in used:
        feats.add("opt:" + k)
    has_ev = any(s[0] == "evidence" for s in prog)
    nontrivial = bool(used) and (has_ev or "query:derived" in feats)
    return Outcome(nontrivial=nontrivial, features=sorted(feats), failure=failure,
                   classes=[base[0] if base[0] != "error" else "error:" + base[1]],
                   sample={"program": src, "optsets": case["optsets"]})


def _optset():
    keys = BOOL_OPTS + ["flip_evidence_style"]
    single = st.sampled_from(keys).map(lambda k: {k: True})
    multi = st.lists(st.sampled_from(keys), min_size=2, max_size=5, unique=True).map(lambda ks: dict((k, True) for k in ks))
    return st.one_of(single, single, multi)


def _strategy(n):
    def f():
        return st.tuples(st.one_of(gp.programs(), gp.programs(evidence_bias=True), gp.programs(negdef_bias=True, max_preds=3)),
                         st.lists(_optset(), min_size=n, max_size=n)).map(
            lambda t: {"prog": t[0], "optsets": t[1]})
    return f


def _single_option_pred(opt):
    return lambda case, failure: True


def _keep_all_propagate_recursive(case, failure):
    if not gp.cyclic_preds(case["prog"])[2]:
        return False
    return any(o.get("keep_all") and (o.get("propagate_weights") or o.get("propagate_evidence")) for o in case["optsets"])


KNOWN_CLASSES = {
    "keep_all_body_disjunction": lambda case, failure: any(s[0] == "rule_or" for s in case["prog"]) and any(
        o.get("keep_all") for o in case["optsets"]),
    "cyclic_or_complement": lambda case, failure: gp.cyclic_body_disjunction_with_complement(case["prog"]),
    "keep_all_propagate_recursive": _keep_all_propagate_recursive,
    "always": lambda case, failure: True,
    "negcycle_fp": lambda case, failure: gp.neg_on_cyclic_goal_under_active_cycle(case["prog"]),
    "neg_under_cycle": lambda case, failure: gp.neg_under_active_cycle(case["prog"]),
    "ad_cyclic_complement": lambda case, failure: gp.cyclic_multihead_ad_with_complementary_body(case["prog"]),
    "shared_var_call": lambda case, failure: gp.shared_var_call(case["prog"]),
}

SUBCHECKS = [
    SubCheck("options", check, strategy=_strategy(5), budget={"quick": 700, "thorough": 12000},
             timeout={"quick": 10, "thorough": 60}, render=lambda c: sem.render_program(c["prog"])),
]
