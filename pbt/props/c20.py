"""C20 - MPE returns a most probable world consistent with the evidence (problog/tasks/mpe.py, both modes)."""
import math

from pbt.core.api import Failure, Outcome, SubCheck, case_hash
from pbt.core import plrun
from pbt.gen import programs as gp
from pbt.ref import semantics as sem
from pbt.ref import c20_worlds as cw
from pbt.ref import c20_locate

PROPERTY_ID = "C20"
LEVEL = "exploration"
RULE = (
    "Programs: C01-style generated ASTs (pbt.gen.programs.programs, probabilities from a grid without 0.0/1.0 for "
    "probabilistic facts and rules; AD heads in tenths incl. 0.0 and residual 0) that contain >= 1 evidence "
    "statement; no negated queries; generator bias: every program meeting the non-trivial rule is kept, of the "
    "others one in three (deterministic in the program). Each program is run in two variants - 'noq' (query/1 statements removed: every "
    "choice atom is reported) and 'q' (queries kept: output restricted to the query atoms) - through the two "
    "modes exactly as the CLI does: mpe_maxsat(LogicDAG.createFrom(model, avoid_name_clash=True, label_all=True, "
    "labels=[('output',1)])) and mpe_semiring(LogicFormula.create_from(model, label_all=True, "
    "avoid_name_clash=True)). "
    "Oracle (brute force over the worlds of the reference semantics, restricted to the choices relevant to evidence "
    "[+ queries in 'q']). CHOICE SET D: the probabilistic atoms of the tool's own ground program (read from the "
    "LogicDAG before solving; mapped to reference choice values by atom name / AD group (clause-variable values), "
    "head index, head atom and probability): "
    "a probabilistic fact is a two-valued choice; a ground AD instance is a choice between its grounded heads and "
    "one 'rest' value (extra node / negative literal) that merges 'no head' with the heads that are not part of "
    "the ground program; a choice without any atom in D is marginalised (factor 1). P_D(w) = product over choices "
    "of the probability of the D-value that world w selects. E = worlds of positive probability that satisfy the "
    "evidence. REPORTED LITERALS T: 'noq' and semiring-'q': literals on choice atoms (a name shared by k duplicate "
    "probabilistic facts denotes k independent choices: maxsat lists one literal per choice -> at least #positive "
    "of them true and #negative false; semiring returns a set -> only-positive = all true, only-negative = all "
    "false, both = at least one each; a literal whose name is not a choice atom of the ground program but a "
    "ground atom of the program - the semiring mode names a choice atom after the head it alone defines - is read "
    "as the truth value of that atom); maxsat-'q': truth values of the query atoms. Required: (1) some world of E "
    "agrees with T; (2) some such world w has P_D(w) >= (1-tol)*max_{E} P_D; (3) the reported probability equals "
    "P_D(w) for such a w (rel. 1e-9; semiring mode, whose NNF may omit atoms the evidence formula does not need: each "
    "choice of D on which the evidence does not depend may either be counted at a most probable value or be left "
    "out, in (2) and (3)); (4) 'noq' only: every positive-probability world that agrees with T satisfies "
    "the evidence (T decides the evidence). tol: semiring 1e-9; maxsat exp(|D|*1e-4)-1 (soft-clause weights are "
    "int(max(-1e4, ln p)*1e4): truncation error < 1 unit = 1e-4 nats per atom of D). Evidence false in every world "
    "(also the zero-probability ones): must be reported as unsatisfiable (UnsatisfiableError, facts=None, "
    "InconsistentEvidenceError; semiring: probability 0.0 with no literals) - never literals. Evidence true only in "
    "zero-probability worlds: an unsatisfiable report or a reported probability <= 1e-9 are both accepted. Ties are "
    "covered by the existential form of (1)-(3). Non-trivial: >= 2 evidence-relevant choices, E non-empty with two "
    "worlds of different probability. Distinct = distinct program AST.")
ASSUMPTIONS = [
    "reference enumerator (pbt/ref/semantics.py) is the semantics; the tool's ground program (which atoms exist) "
    "is trusted as the definition of the choice set D - grounding itself is checked by C01",
    "MaxSAT solver = bundled maxsatz (the default; scip/sat4j are not installed)",
    "semiring mode: probability 0.0 with an empty literal list is accepted as 'reported unsatisfiable'",
    "programs with > 9 relevant choices or > 4096 worlds are skipped (inconclusive: oversize)"]

MAXC = 9
MAXW = 1 << 12


# ------------------------------------------------------------------------------------------------ running the tool

def _ground_dag(src, with_output_label):
    from problog.program import PrologString
    from problog.formula import LogicDAG

    kw = {"avoid_name_clash": True, "label_all": True}
    if with_output_label:
        kw["labels"] = [("output", 1)]
    return LogicDAG.createFrom(PrologString(src), **kw)


def run_mode(src, mode):
    """-> ('ok', prob, [Term]) | ('unsat', how) | ('error', cls) | ('crash', sig) | ('resource', name), atoms"""
    from problog.program import PrologString
    from problog.formula import LogicFormula
    from problog.tasks import mpe
    from problog.maxsat import UnsatisfiableError
    from problog.errors import InconsistentEvidenceError

    plrun.reset_state()
    atoms = None
    try:
        with plrun.captured_output(), cw.scratch_cwd():
            if mode == "maxsat":
                dag = _ground_dag(src, True)
                atoms = cw.atoms_of(dag)
                prob, facts = mpe.mpe_maxsat(dag, verbose=None, solver=None, minpe=False)
            else:
                atoms = cw.atoms_of(_ground_dag(src, False))
                lf = LogicFormula.create_from(PrologString(src), label_all=True, avoid_name_clash=True)
                prob, facts = mpe.mpe_semiring(lf, None, minpe=False)
        if facts is None:
            return ("unsat", "facts=None"), atoms
        return ("ok", float(prob), list(facts)), atoms
    except plrun.CaseTimeout:
        raise
    except UnsatisfiableError:
        return ("unsat", "UnsatisfiableError"), atoms
    except InconsistentEvidenceError:
        return ("unsat", "InconsistentEvidenceError"), atoms
    except BaseException as exc:  # noqa
        if isinstance(exc, (KeyboardInterrupt, SystemExit)):
            raise
        return plrun.classify_exception(exc), atoms


# ------------------------------------------------------------------------------------------------ literals

def split_literal(t):
    if t.is_negated():
        return False, -t
    return True, t


def assignment_mask(lay, dref, by_name, lits, semantics):
    """Worlds that agree with the reported literals.  semantics: 'choice-list' | 'choice-set' | 'atom'.
    Returns (mask, unknown literal texts)."""
    mask = lay.full
    unknown = []
    if semantics == "atom":
        for t in lits:
            pos, base = split_literal(t)
            text = str(base)
            m = lay.atom_mask(text)
            mask &= m if pos else (lay.full & ~m)
        return mask, unknown
    per = {}
    for t in lits:
        pos, base = split_literal(t)
        d = per.setdefault(str(base), [0, 0])
        d[0 if pos else 1] += 1
    for text in sorted(per):
        npos, nneg = per[text]
        targets = by_name.get(text)
        if not targets:
            if text in lay.atom_by_text:
                # Not the name of a probabilistic atom of the ground program, but a ground atom of the program:
                # the semiring mode reports a choice atom under the user-level name of the head it defines when
                # that head has no other node of its own (LogicFormula.add_or renames the single child of a
                # compacted disjunction, e.g. '\+r' for the head-0 choice of '0.0::r; 0.0::p.').  The literal is
                # read as what it says: the truth value of that atom.
                m = lay.atom_mask(text)
                if npos:
                    mask &= m
                if nneg:
                    mask &= lay.full & ~m
                continue
            unknown.append(text)
            continue
        if len(targets) == 1:
            if npos:
                mask &= cw.literal_mask(lay, dref, targets[0], True)
            if nneg:
                mask &= cw.literal_mask(lay, dref, targets[0], False)
            continue
        tm = [cw.literal_mask(lay, dref, tg, True) for tg in targets]
        k = len(tm)
        atl = cw.at_least_masks(tm, lay.full)  # atl[j]: >= j true
        if semantics == "choice-set":
            if npos and not nneg:
                mask &= atl[k]
            elif nneg and not npos:
                mask &= lay.full & ~atl[1]
            else:
                mask &= atl[1] & ~atl[k]
        else:
            npos = min(npos, k)
            nneg = min(nneg, k)
            mask &= atl[npos]
            # at least nneg false <=> at most k-nneg true
            if nneg:
                mask &= lay.full & ~(atl[k - nneg + 1] if k - nneg + 1 <= k else 0)
    return mask, unknown


# ------------------------------------------------------------------------------------------------ oracle

def judge(prog, variant, mode, src):
    """Returns (Failure|None, inconclusive|None, info dict)."""
    try:
        ref = sem.evaluate(prog, max_choices=MAXC, max_worlds=MAXW, want_masks=True)
    except sem.TooLarge:
        return None, "oversize", {}
    if ref.undefined_any:
        return None, "undefined", {}
    lay = cw.Layout(ref, prog)
    res, atoms = run_mode(src, mode)
    tag = "%s|%s|" % (mode, variant)
    info = {"ref": ref, "lay": lay, "res": res}
    if res[0] == "resource":
        return None, res[1], info
    if res[0] == "crash":
        return Failure("crash", "%s %s: internal exception %s\n%s" % (mode, variant, res[1], src),
                       sig=tag + "crash:" + res[1]), None, info
    E_all = ref.emask
    E = ref.emask & ref.posw
    if res[0] == "error":
        return Failure("unexpected-error", "%s %s raised %s\n%s" % (mode, variant, res[1], src),
                       sig=tag + "unexpected-error:" + res[1]), None, info
    if res[0] == "unsat":
        if E:
            return Failure("spurious-unsat", "%s %s reports '%s' but %d positive-probability worlds satisfy the "
                           "evidence\n%s" % (mode, variant, res[1], bin(E).count("1"), src),
                           sig=tag + "spurious-unsat"), None, info
        return None, None, info
    prob, lits = res[1], res[2]
    lit_txt = sorted(str(t) for t in lits)
    if not E:
        if not E_all:
            if mode == "semiring" and prob == 0.0 and not lits:
                return None, None, info
            return Failure("unsat-not-reported", "%s %s: the evidence is false in every world but the tool returned "
                           "probability %r literals %s\n%s" % (mode, variant, prob, lit_txt, src),
                           sig=tag + "unsat-not-reported"), None, info
        if prob <= 1e-9:
            return None, None, info
        return Failure("prob-for-zero-evidence", "%s %s: evidence has probability 0 but the tool reports "
                       "probability %r literals %s\n%s" % (mode, variant, prob, lit_txt, src),
                       sig=tag + "prob-for-zero-evidence"), None, info
    try:
        stmt_map = c20_locate.statement_map(src)
    except Exception:  # noqa - the tool itself accepted the program; fall back to name matching
        stmt_map = None
    _per_atom, by_name, dref, unmapped = cw.map_atoms(atoms or [], lay, stmt_map)
    if unmapped:
        return None, "unmapped-atom", info
    if mode == "maxsat":
        semantics = "atom" if variant == "q" else "choice-list"
    else:
        semantics = "choice-set"
    mt, unknown = assignment_mask(lay, dref, by_name, lits, semantics)
    late = None
    if unknown:
        # reported after the semantic checks (which then run without the unknown literals and without (4))
        late = Failure("unknown-literal", "%s %s: reported literal(s) on %s are not probabilistic atoms of the ground "
                       "program (atoms: %s; reported %s, probability %r)\n%s" % (
                           mode, variant, unknown, sorted(by_name), lit_txt, prob, src), sig=tag + "unknown-literal")
    natoms = len(atoms or [])
    tol = 1e-9 if mode == "semiring" else (math.exp(natoms * 1e-4) - 1.0 + 1e-9)
    table = cw.block_prob_table(lay, dref)
    W = E & mt
    if not W:
        return Failure("inconsistent-assignment", "%s %s: no positive-probability world satisfying the evidence "
                       "agrees with the reported literals %s (probability %r)\n%s" % (mode, variant, lit_txt, prob, src),
                       sig=tag + "inconsistent-assignment"), None, info
    if variant == "noq" and not unknown:
        bad = mt & ref.posw & ~E_all
        if bad:
            w = next(cw.iter_bits(bad))
            return Failure("evidence-not-decided", "%s %s: the reported literals %s (probability %r) also agree with "
                           "world %s which violates the evidence\n%s" % (
                               mode, variant, lit_txt, prob, cw.describe_world(lay, w), src),
                           sig=tag + "evidence-not-decided"), None, info
    # Choices of D on which the evidence does not depend at all.  The MaxSAT mode multiplies the weights of all
    # atoms of the DAG it was given (D is exact).  The semiring mode evaluates an NNF that it builds itself and that
    # can lack atoms the top-level formula does not need: each evidence-independent choice may be counted (at its
    # most probable value) or left out (factor 1).
    irr = []
    if mode == "semiring":
        irr = [ci for ci in lay.choices if dref.get(ci) and lay.independent(E_all, ci)]
    rel_table = dict(table)
    for ci in irr:
        rel_table[ci] = [1] * len(table[ci])
    pw = {}
    for w in cw.iter_bits(E):
        pw[w] = cw.world_block_prob(lay, rel_table, w)
    opt = max(pw.values())
    best_w = max(cw.iter_bits(W), key=lambda w: pw[w])
    if float(pw[best_w]) < (1.0 - tol) * float(opt):
        wopt = max(pw, key=lambda w: pw[w])
        return Failure("not-optimal", "%s %s: best evidence-consistent world agreeing with the reported literals %s "
                       "has probability %s (%r) but world %s has %s (%r); reported %r; tol %.3g\n%s" % (
                           mode, variant, lit_txt, pw[best_w], float(pw[best_w]), cw.describe_world(lay, wopt), opt,
                           float(opt), prob, tol, src), sig=tag + "not-optimal"), None, info
    ok = False
    seen_values = set()
    for w in cw.iter_bits(W):
        if float(pw[w]) < (1.0 - tol) * float(opt):
            continue
        products = [float(pw[w])]
        for ci in irr:
            pv = float(table[ci][lay.value(ci, w)])
            if pv >= (1.0 - tol) * float(max(table[ci])):
                products = products + [x * pv for x in products]
        seen_values.update(products)
        if any(plrun.close(prob, x) for x in products):
            ok = True
            break
    if not ok:
        return Failure("prob-mismatch", "%s %s: reported probability %r but the near-optimal worlds agreeing with the "
                       "reported literals %s have probability %s (optimum over the evidence-relevant choices %r)\n%s" % (
                           mode, variant, prob, lit_txt, sorted(seen_values)[:8], float(opt), src),
                       sig=tag + "prob-mismatch"), None, info
    return late, None, info


def has_evidence(prog):
    return any(s[0] == "evidence" for s in prog)


def make_check(mode):
    def check(case):
        prog = case["prog"]
        feats = gp.features(prog)
        if not has_evidence(prog):
            return Outcome(inconclusive="no-evidence", features=sorted(feats))
        noq = [s for s in prog if s[0] != "query"]
        variants = [("noq", noq)]
        if any(s[0] == "query" for s in prog):
            variants.append(("q", prog))
        failure = None
        nontrivial = False
        classes = []
        sample = None
        inconcl = []
        for variant, p in variants:
            src = sem.render_program(p)
            f, inc, info = judge(p, variant, mode, src)
            if inc is not None:
                inconcl.append(inc)
                continue
            res = info["res"]
            classes.append("%s:%s" % (variant, res[0] if res[0] != "unsat" else "unsat:" + res[1]))
            if variant == "noq":
                ref = info["ref"]
                E = ref.emask & ref.posw
                if ref.n_choices >= 2 and E:
                    ws = set()
                    for w in cw.iter_bits(E):
                        ws.add(ref.weights[w])
                        if len(ws) >= 2:
                            break
                    nontrivial = len(ws) >= 2
                feats.add("choices:%s" % ("0-1" if ref.n_choices < 2 else "2-4" if ref.n_choices < 5 else "5+"))
                if not ref.emask:
                    feats.add("evidence:unsatisfiable")
                elif not E:
                    feats.add("evidence:zero-probability-only")
                sample = {"program": src, "mode": mode, "result": repr(res)[:300]}
            if f is not None and failure is None:
                failure = f
        if failure is None and inconcl and len(inconcl) == len(variants):
            return Outcome(inconclusive=inconcl[0], features=sorted(feats))
        return Outcome(nontrivial=nontrivial, features=sorted(feats), failure=failure, classes=classes, sample=sample)
    return check


def _nontrivial_noq(prog):
    """Non-trivial rule on the 'noq' variant; None when the reference is oversize."""
    noq = [s for s in prog if s[0] != "query"]
    try:
        ref = sem.evaluate(noq, max_choices=MAXC, max_worlds=MAXW, want_masks=True)
    except sem.TooLarge:
        return None
    E = ref.emask & ref.posw
    if ref.n_choices < 2 or not E:
        return False
    first = None
    for w in cw.iter_bits(E):
        if first is None:
            first = ref.weights[w]
        elif ref.weights[w] != first:
            return True
    return False


def _keep(prog):
    """Generator bias (part of the generator, deterministic in the program): all programs that meet the
    non-trivial rule are kept, of the others (single choice, unsatisfiable or deterministic evidence) one in three."""
    if not has_evidence(prog):
        return False
    if _nontrivial_noq(prog):
        return True
    return int(case_hash(prog), 16) % 3 == 0


def _strategy():
    grid = [p for p in gp.PROB_GRID if p not in ("0.0", "1.0")]
    return gp.programs(allow_neg_query=False, prob_grid=grid).filter(_keep).map(lambda p: {"prog": p})


def render(case):
    return sem.render_program(case["prog"])


# ------------------------------------------------------------------------------------------------ known classes

def _variant_ref(case, failure):
    parts = failure.sig.split("|")
    if len(parts) < 3 or parts[0] != "semiring":
        return None, None, None
    prog = case["prog"]
    if parts[1] == "noq":
        prog = [s for s in prog if s[0] != "query"]
    try:
        return parts[1], sem.evaluate(prog, max_choices=MAXC, max_worlds=MAXW, want_masks=True), prog
    except sem.TooLarge:
        return None, None, None


def semiring_unsupported_structure(case, failure):
    """Class of finding F-C20-3 (semiring mode = max-product on a plain NNF without the AD constraints): the
    relevant ground program of the failing variant (reference grounding, a function of the case) has
    (a) a ground AD instance with >= 2 relevant heads, or (b) a conjunction - a rule body with its choice, the
    rules of a negated atom, or the top-level conjunction of the evidence literals [and of the (q ; \\+q) pairs
    of the queries] - two members of which depend on a common probabilistic choice, or (c) a positive cycle."""
    r = _variant_ref(case, failure)
    if r[0] is None:
        return False
    variant, ref, prog = r
    vals = {}
    by_head = {}
    for rule in ref.rules:
        by_head.setdefault(rule[0], []).append(rule)
        if rule[3] is not None:
            vals.setdefault(rule[3][0], set()).add(rule[3][1])
    if any(len(v) >= 2 for v in vals.values()):
        return True
    sup = {}
    cyclic = [False]

    def support(a, active):
        if a in sup:
            return sup[a]
        if a in active:
            cyclic[0] = True
            return frozenset()
        active.add(a)
        out = set()
        for rule in by_head.get(a, ()):
            out |= rule_support(rule, active)
        active.discard(a)
        sup[a] = frozenset(out)
        return sup[a]

    def rule_support(rule, active):
        out = set()
        if rule[3] is not None:
            out.add(rule[3][0])
        for b in rule[1]:
            out |= support(b, active)
        for b in rule[2]:
            out |= support(b, active)
        return out

    def overlap(parts):
        seen = set()
        for part in parts:
            if seen & part:
                return True
            seen |= part
        return False

    roots = []
    for s in prog:
        if s[0] == "evidence":
            roots.append((s[1][0], sem._inst(s[1][1], {})))
    qroots = [g for g in ref.query_atoms.values()] if variant == "q" else []
    all_roots = set(roots) | set(qroots)
    if overlap([support(a, set()) for a in roots] + [support(a, set()) for a in sorted(set(qroots))]):
        return True
    if cyclic[0]:
        return True
    seen = set()
    stack = [(a, True) for a in all_roots] + [(a, False) for a in all_roots]
    while stack:
        a, positive = stack.pop()
        if (a, positive) in seen:
            continue
        seen.add((a, positive))
        rules = by_head.get(a, ())
        if positive:
            for rule in rules:
                parts = [frozenset([rule[3][0]])] if rule[3] is not None else []
                parts += [support(b, set()) for b in rule[1]] + [support(b, set()) for b in rule[2]]
                if overlap(parts):
                    return True
        else:
            if overlap([frozenset(rule_support(rule, set())) for rule in rules]):
                return True
        for rule in rules:
            for b in rule[1]:
                stack.append((b, positive))
            for b in rule[2]:
                stack.append((b, not positive))
    return False


def semiring_single_literal_evidence(case, failure):
    """Class of finding F-C20-4: 'noq' variant whose evidence is equivalent to one literal on one probabilistic
    atom (reference semantics: the set of worlds satisfying the evidence is exactly the set of worlds in which
    one choice takes / does not take one value).  The conjunction of the evidence nodes is then that atom's
    node, which receives the name 'query'."""
    r = _variant_ref(case, failure)
    if r[0] != "noq":
        return False
    ref = r[1]
    for key, m in ref.cmask.items():
        if ref.emask == m or ref.emask == (ref.full & ~m):
            return True
    return False


KNOWN_CLASSES = {
    "negcycle_fp": lambda case, failure: gp.neg_on_cyclic_goal_under_active_cycle(case["prog"]),
    "neg_under_cycle": lambda case, failure: gp.neg_under_active_cycle(case["prog"]),
    "ad_cyclic_complement": lambda case, failure: gp.cyclic_multihead_ad_with_complementary_body(case["prog"]),
    "shared_var_call": lambda case, failure: gp.shared_var_call(case["prog"]),
    "cyclic_or_complement": lambda case, failure: gp.cyclic_body_disjunction_with_complement(case["prog"]),
    "semiring_unsupported_structure": semiring_unsupported_structure,
    "semiring_single_literal_evidence": semiring_single_literal_evidence,
}

SUBCHECKS = [
    SubCheck("maxsat", make_check("maxsat"), strategy=_strategy, budget={"quick": 400, "thorough": 10000},
             timeout={"quick": 10, "thorough": 30}, render=render),
    SubCheck("semiring", make_check("semiring"), strategy=_strategy, budget={"quick": 500, "thorough": 10000},
             timeout={"quick": 10, "thorough": 30}, render=render),
]
