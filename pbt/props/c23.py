"""C23 - k-best anytime bounds are sound and tight on completion; explain lists proofs that sum to the probability
(problog/kbest.py, problog/tasks/explain.py)."""
import re

from pbt.core.api import Failure, Outcome, SubCheck, case_hash
from pbt.core import plrun
from pbt.gen import programs as gp
from pbt.ref import semantics as sem
from pbt.ref import c20_worlds as cw
from pbt.ref import c20_locate

PROPERTY_ID = "C23"
LEVEL = "exploration"
RULE = (
    "Programs: evidence-free C01-style generated ASTs (pbt.gen.programs.programs(allow_evidence=False): facts, "
    "probabilistic facts incl. probability 0/1 and duplicates, ADs, probabilistic rules, stratified negation, "
    "positive recursion; 1-3 ground/non-ground/negated queries) with <= 8 relevant choices and <= 4096 worlds. "
    "Subcheck 'kbest': get_evaluatable('kbest').create_from(PrologString(src)).evaluate(); every reported value is "
    "either a float within 1e-9 of the reference probability (KBestEvaluator returns the completed lower bound, or "
    "1 - completed upper bound) or a pair (lower, upper) - returned when lower+1-upper closes to the convergence "
    "threshold 1e-9 - with lower - 1e-6 <= p <= upper + 1e-6; instances missing from the result must have reference "
    "probability 0, extra instances value 0. Subcheck 'explain': the function API used by tasks/explain.py main "
    "(KBestFormula.create_from(DefaultEngine().prepare(model), label_all=True).evaluate(explain=list)); the list is "
    "parsed ('name :- lit, ..., lit.  % P=x', 'name :- true.', 'name :- fail.'). Every literal is resolved to an "
    "atom of the ground program through the formula's name table ('choice_N' = atom N) and mapped to a reference "
    "choice value (probabilistic fact: true/false; ground AD instance: one of its grounded heads, or the 'rest' value "
    "= no grounded head, for the extra node). For every query: (a) each proof, as a partial assignment, entails "
    "the query in every positive-probability world; (b) the proofs are pairwise mutually exclusive (the tool makes "
    "them so by adding the negation of every found proof as a hard clause before searching the next one); (c) the "
    "printed P equals the probability of the partial assignment recomputed from the program (8 significant digits "
    "are printed: rel. 1e-7); (d) the recomputed probabilities sum to the reference probability (1e-9); (e) the "
    "returned probability equals the reference (1e-9). Non-trivial: some query with 0 < p < 1 whose atom has >= 2 "
    "relevant ground rules or depends on >= 2 choices (so >= 2 proofs are needed). Distinct = distinct program AST.")
ASSUMPTIONS = [
    "reference enumerator (pbt/ref/semantics.py) is the semantics",
    "MaxSAT solver = bundled maxsatz",
    "the ground program (LogicDAG built from the same database with the same options) defines which AD heads are "
    "grounded, i.e. what the extra node of an AD stands for; grounding itself is checked by C01",
    "programs with > 8 relevant choices or > 4096 worlds are skipped (inconclusive: oversize)"]

MAXC = 8
MAXW = 1 << 12
TOL_INTERVAL = 1e-6


def _classify(exc):
    return plrun.classify_exception(exc)


# ------------------------------------------------------------------------------------------------ kbest

def run_kbest(src):
    from problog import get_evaluatable
    from problog.program import PrologString

    plrun.reset_state()
    try:
        with plrun.captured_output(), cw.scratch_cwd():
            formula = get_evaluatable("kbest").create_from(PrologString(src))
            result = formula.evaluate()
        return ("ok", dict((str(k), v) for k, v in result.items()))
    except plrun.CaseTimeout:
        raise
    except BaseException as exc:  # noqa
        if isinstance(exc, (KeyboardInterrupt, SystemExit)):
            raise
        return _classify(exc)


def _support_info(ref):
    """{atom: (number of relevant ground rules, number of choices it depends on)}"""
    by_head = {}
    for r in ref.rules:
        by_head.setdefault(r[0], []).append(r)
    memo = {}

    def support(a, active):
        if a in memo:
            return memo[a]
        if a in active:
            return frozenset()
        active.add(a)
        out = set()
        for r in by_head.get(a, ()):
            if r[3] is not None:
                out.add(r[3][0])
            for b in r[1] + r[2]:
                out |= support(b, active)
        active.discard(a)
        if not active:
            memo[a] = frozenset(out)
        return frozenset(out)

    return dict((a, (len(by_head.get(a, ())), len(support(a, set())))) for a in ref.masks)


def nontrivial(ref):
    info = _support_info(ref)
    for key, p in ref.probs.items():
        if p is None or not (0 < p < 1):
            continue
        n_rules, n_ch = info.get(ref.query_atoms[key], (0, 0))
        if n_rules >= 2 or n_ch >= 2:
            return True
    return False


def _reference(prog):
    try:
        ref = sem.evaluate(prog, max_choices=MAXC, max_worlds=MAXW, want_masks=True)
    except sem.TooLarge:
        return None, "oversize"
    if ref.undefined_any:
        return None, "undefined"
    return ref, None


def _feats(prog, ref):
    feats = gp.features(prog)
    feats.add("choices:%s" % ("0-1" if ref.n_choices < 2 else "2-4" if ref.n_choices < 5 else "5-8"))
    return feats


def check_kbest(case):
    prog = case["prog"]
    ref, inc = _reference(prog)
    if ref is None:
        return Outcome(inconclusive=inc, features=sorted(gp.features(prog)))
    feats = _feats(prog, ref)
    src = sem.render_program(prog)
    res = run_kbest(src)
    if res[0] == "resource":
        return Outcome(inconclusive=res[1], features=sorted(feats))
    failure = None
    classes = [res[0] if res[0] != "error" else "error:" + res[1]]
    if res[0] == "crash":
        failure = Failure("crash", "kbest: internal exception %s\n%s" % (res[1], src), sig="kbest|crash:" + res[1])
    elif res[0] == "error":
        failure = Failure("unexpected-error", "kbest raised %s; reference %s\n%s" % (
            res[1], dict((k, str(v)) for k, v in ref.probs.items()), src), sig="kbest|unexpected-error:" + res[1])
    else:
        got = res[1]
        for k in sorted(got):
            v = got[k]
            p = ref.probs.get(k)
            pf = float(p) if p is not None else 0.0
            if isinstance(v, (tuple, list)):
                feats.add("result:interval")
                if len(v) != 2:
                    failure = Failure("malformed-result", "kbest: %s -> %r\n%s" % (k, v, src), sig="kbest|malformed-result")
                    break
                lo, hi = float(v[0]), float(v[1])
                if not (lo - TOL_INTERVAL <= pf <= hi + TOL_INTERVAL):
                    failure = Failure("bounds-exclude-reference", "kbest: %s -> [%r, %r] but the reference probability is "
                                      "%s (=%r)\n%s" % (k, lo, hi, p, pf, src), sig="kbest|bounds-exclude-reference")
                    break
            else:
                try:
                    fv = float(v)
                except Exception:
                    failure = Failure("malformed-result", "kbest: %s -> %r\n%s" % (k, v, src), sig="kbest|malformed-result")
                    break
                if k not in ref.probs:
                    if abs(fv) > 1e-9:
                        failure = Failure("extra-instance", "kbest: %s reported with %r; not derivable in the reference\n%s"
                                          % (k, fv, src), sig="kbest|extra-instance")
                        break
                elif not plrun.close(fv, pf):
                    failure = Failure("prob-mismatch", "kbest: %s -> %r but the reference probability is %s (=%r)\n%s" % (
                        k, fv, p, pf, src), sig="kbest|prob-mismatch")
                    break
        if failure is None:
            for k, p in ref.probs.items():
                if k not in got and p is not None and abs(float(p)) > 1e-9:
                    failure = Failure("missing-instance", "kbest: %s has reference probability %s but is not reported\n%s"
                                      % (k, p, src), sig="kbest|missing-instance")
                    break
    return Outcome(nontrivial=nontrivial(ref), features=sorted(feats), failure=failure, classes=classes,
                   sample={"program": src, "result": repr(res)[:300]})


# ------------------------------------------------------------------------------------------------ explain

def run_explain(src):
    """-> ('ok', results {str: value}, explanation lines, name table {text: index}, atoms [(index, name, p, extra)])"""
    from problog.engine import DefaultEngine
    from problog.formula import LogicDAG
    from problog.kbest import KBestFormula
    from problog.program import PrologString

    plrun.reset_state()
    try:
        with plrun.captured_output(), cw.scratch_cwd():
            db = DefaultEngine().prepare(PrologString(src))
            cnf = KBestFormula.create_from(db, label_all=True)
            explanation = []
            results = cnf.evaluate(explain=explanation)
            names = {}
            for name, index in cnf.get_names():
                if isinstance(index, int) and index > 0:
                    names.setdefault(str(name), set()).add(index)
            weighted = sorted(cnf.get_weights())
            atomcount = cnf.atomcount
            db2 = DefaultEngine().prepare(PrologString(src))
            dag = LogicDAG.create_from(db2, label_all=True)
            atoms = cw.atoms_of(dag)
            consistent = (len(dag) == atomcount and sorted(a["index"] for a in atoms) == weighted)
        return ("ok", dict((str(k), v) for k, v in results.items()), list(explanation), names, atoms, consistent)
    except plrun.CaseTimeout:
        raise
    except BaseException as exc:  # noqa
        if isinstance(exc, (KeyboardInterrupt, SystemExit)):
            raise
        return _classify(exc)


def split_top(text):
    """Split 'a, f(b,c), \\+d' at top-level commas."""
    out = []
    depth = 0
    cur = []
    for ch in text:
        if ch in "([":
            depth += 1
        elif ch in ")]":
            depth -= 1
        if ch == "," and depth == 0:
            out.append("".join(cur).strip())
            cur = []
        else:
            cur.append(ch)
    last = "".join(cur).strip()
    if last:
        out.append(last)
    return out


_LINE = re.compile(r"^(?P<name>.*?) :- (?P<body>.*)\.\s+% P=(?P<p>\S+)$")


def parse_explanation(lines):
    """-> {query text: {'proofs': [([(positive, name text)], printed P)], 'true': bool, 'fail': bool}}, bad lines"""
    out = {}
    bad = []
    for line in lines:
        if not line.strip():
            continue
        if line.endswith(" :- fail."):
            out.setdefault(line[:-len(" :- fail.")], {"proofs": [], "true": False, "fail": False})["fail"] = True
            continue
        if line.endswith(" :- true."):
            out.setdefault(line[:-len(" :- true.")], {"proofs": [], "true": False, "fail": False})["true"] = True
            continue
        m = _LINE.match(line)
        if not m:
            bad.append(line)
            continue
        lits = []
        for l in split_top(m.group("body")):
            pos = True
            while l.startswith("\\+"):
                pos = not pos
                l = l[2:].strip()
            lits.append((pos, l))
        try:
            p = float(m.group("p"))
        except ValueError:
            bad.append(line)
            continue
        out.setdefault(m.group("name"), {"proofs": [], "true": False, "fail": False})["proofs"].append((lits, p))
    return out, bad


def value_ok(val, pf):
    """A returned value: float equal to the reference, or (lower, upper) containing it."""
    if val is None:
        return False
    if isinstance(val, (tuple, list)):
        return len(val) == 2 and float(val[0]) - TOL_INTERVAL <= pf <= float(val[1]) + TOL_INTERVAL
    try:
        return plrun.close(float(val), pf)
    except Exception:
        return False


def check_explain(case):
    prog = case["prog"]
    ref, inc = _reference(prog)
    if ref is None:
        return Outcome(inconclusive=inc, features=sorted(gp.features(prog)))
    feats = _feats(prog, ref)
    src = sem.render_program(prog)
    res = run_explain(src)
    if res[0] == "resource":
        return Outcome(inconclusive=res[1], features=sorted(feats))
    nt = nontrivial(ref)
    classes = [res[0] if res[0] != "error" else "error:" + res[1]]
    sample = {"program": src, "result": repr(res[1:3])[:400]}

    def done(failure):
        return Outcome(nontrivial=nt, features=sorted(feats), failure=failure, classes=classes, sample=sample)

    if res[0] == "crash":
        return done(Failure("crash", "explain: internal exception %s\n%s" % (res[1], src), sig="explain|crash:" + res[1]))
    if res[0] == "error":
        return done(Failure("unexpected-error", "explain raised %s; reference %s\n%s" % (
            res[1], dict((k, str(v)) for k, v in ref.probs.items()), src), sig="explain|unexpected-error:" + res[1]))
    _, results, lines, names, atoms, consistent = res
    if not consistent:
        return Outcome(inconclusive="aux-dag-mismatch", features=sorted(feats))
    lay = cw.Layout(ref, prog)
    try:
        stmt_map = c20_locate.statement_map(src)
    except Exception:  # noqa
        stmt_map = None
    per_atom, _by_name, dref, unmapped = cw.map_atoms(atoms, lay, stmt_map)
    target_of = dict((atoms[k]["index"], per_atom[k]) for k in range(len(atoms)))
    parsed, bad = parse_explanation(lines)
    if bad:
        return done(Failure("unparsable-proof", "explain: cannot parse %r\n%s" % (bad[:3], src),
                            sig="explain|unparsable-proof"))
    shown = "\n".join(lines)
    scale = ref.scale
    # every reported query needs its own proof lines (reported first: one root cause, one signature)
    for key in sorted(results):
        if key in ref.probs and key not in parsed:
            return done(Failure("no-proofs-listed", "explain: %s -> %r but no proof line is listed under that name\n"
                                "proofs:\n%s\n%s" % (key, results[key], shown, src), sig="explain|no-proofs-listed"))
    for key in sorted(ref.probs):
        p = ref.probs[key]
        if p is None:
            continue
        entry = parsed.get(key)
        val = results.get(key)
        if entry is None and val is None:
            if abs(float(p)) > 1e-9:
                return done(Failure("missing-instance", "explain: %s has reference probability %s but is not reported\n%s"
                                    % (key, p, src), sig="explain|missing-instance"))
            continue
        if not value_ok(val, float(p)):
            return done(Failure("prob-mismatch", "explain: %s -> %r but the reference probability is %s (=%r)\nproofs:\n%s\n%s"
                                % (key, val, p, float(p), shown, src), sig="explain|prob-mismatch"))
        if entry is None:
            return done(Failure("no-proofs-listed", "explain: %s -> %r but no proof line for it\nproofs:\n%s\n%s" % (
                key, val, shown, src), sig="explain|no-proofs-listed"))
        g = ref.query_atoms[key]
        qmask = ref.masks.get(g, 0)
        if key.startswith("\\+"):
            qmask = ref.full & ~qmask
        masks = []
        if entry["true"]:
            masks.append((ref.full, 1.0, "true"))
        for lits, printed in entry["proofs"]:
            m = ref.full
            for pos, text in lits:
                mm = re.match(r"^choice_(\d+)$", text)
                # the printed name can belong to several nodes (a probabilistic fact p and the derived atom p):
                # the literal is the one that is a probabilistic atom
                cand = [int(mm.group(1))] if mm else sorted(i for i in names.get(text, ()) if i in target_of)
                if len(cand) > 1:
                    return Outcome(inconclusive="ambiguous-literal-name", features=sorted(feats))
                index = cand[0] if cand else None
                tg = target_of.get(index) if index is not None else None
                if tg is None:
                    if index is not None and index in target_of and unmapped:
                        return Outcome(inconclusive="unmapped-atom", features=sorted(feats))
                    return done(Failure("unknown-proof-literal", "explain: literal %r of a proof of %s is not a "
                                        "probabilistic atom of the ground program\nproofs:\n%s\n%s" % (text, key, shown, src),
                                        sig="explain|unknown-proof-literal"))
                m &= cw.literal_mask(lay, dref, tg, pos)
            masks.append((m, printed, ", ".join(("" if pos else "\\+") + t for pos, t in lits)))
        total = 0
        for i, (m, printed, text) in enumerate(masks):
            if m & ref.posw & ~qmask:
                w = next(cw.iter_bits(m & ref.posw & ~qmask))
                return done(Failure("proof-does-not-entail-query", "explain: proof '%s' of %s also holds in world %s "
                                    "where the query is false\nproofs:\n%s\n%s" % (text, key, cw.describe_world(lay, w),
                                                                                  shown, src),
                                    sig="explain|proof-does-not-entail-query"))
            wt = sem._weight(m & ref.posw, ref.weights)
            exact = float(wt) / float(scale)
            if abs(printed - exact) > 1e-7 * max(abs(exact), abs(printed)) + 1e-12:
                return done(Failure("proof-probability-mismatch", "explain: proof '%s' of %s is printed with P=%r but the "
                                    "probability of this partial assignment is %r\nproofs:\n%s\n%s" % (
                                        text, key, printed, exact, shown, src), sig="explain|proof-probability-mismatch"))
            for j in range(i):
                if masks[j][0] & m & ref.posw:
                    return done(Failure("proofs-overlap", "explain: proofs '%s' and '%s' of %s are not mutually exclusive\n"
                                        "proofs:\n%s\n%s" % (masks[j][2], text, key, shown, src),
                                        sig="explain|proofs-overlap"))
            total += wt
        if not plrun.close(float(total) / float(scale), float(p)):
            return done(Failure("proof-sum-mismatch", "explain: the proofs of %s sum to %r but the reference probability "
                                "is %s (=%r)\nproofs:\n%s\n%s" % (key, float(total) / float(scale), p, float(p), shown, src),
                                sig="explain|proof-sum-mismatch"))
        if len(masks) >= 2:
            feats.add("proofs:2+")
    for k, v in results.items():
        if k not in ref.probs:
            try:
                if abs(float(v)) > 1e-9:
                    return done(Failure("extra-instance", "explain: %s reported with %r; not derivable in the reference\n%s"
                                        % (k, v, src), sig="explain|extra-instance"))
            except Exception:
                return done(Failure("malformed-result", "explain: %s -> %r\n%s" % (k, v, src), sig="explain|malformed-result"))
    return done(None)


def _keep(prog):
    """Generator bias (deterministic in the program): programs that meet the non-trivial rule are all kept, of the
    others (deterministic queries, single proofs, oversize) one in four.  Every maxsatz call costs ~0.4 s CPU."""
    try:
        ref = sem.evaluate(prog, max_choices=MAXC, max_worlds=MAXW, want_masks=True)
    except sem.TooLarge:
        ref = None
    if ref is not None and not ref.undefined_any and nontrivial(ref):
        return True
    return int(case_hash(prog), 16) % 4 == 0


def _strategy():
    return gp.programs(allow_evidence=False).filter(_keep).map(lambda p: {"prog": p})


def render(case):
    return sem.render_program(case["prog"])


KNOWN_CLASSES = {
    # F-C23-1: explain names proofs by node index; ambiguous as soon as two queries can share a node
    "queries_share_node": lambda case, failure: sum(1 for s in case["prog"] if s[0] == "query") >= 2,
    "negcycle_fp": lambda case, failure: gp.neg_on_cyclic_goal_under_active_cycle(case["prog"]),
    "neg_under_cycle": lambda case, failure: gp.neg_under_active_cycle(case["prog"]),
    "ad_cyclic_complement": lambda case, failure: gp.cyclic_multihead_ad_with_complementary_body(case["prog"]),
    "shared_var_call": lambda case, failure: gp.shared_var_call(case["prog"]),
    "cyclic_or_complement": lambda case, failure: gp.cyclic_body_disjunction_with_complement(case["prog"]),
}

SUBCHECKS = [
    SubCheck("kbest", check_kbest, strategy=_strategy, budget={"quick": 120, "thorough": 4000},
             timeout={"quick": 20, "thorough": 60}, render=render),
    SubCheck("explain", check_explain, strategy=_strategy, budget={"quick": 120, "thorough": 4000},
             timeout={"quick": 20, "thorough": 60}, render=render),
]
