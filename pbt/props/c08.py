"""C08 - a query's answer does not depend on what else was grounded before it."""
from hypothesis import strategies as st

from pbt.core.api import Failure, Outcome, SubCheck
from pbt.core import plrun
from pbt.gen import programs as gp
from pbt.ref import semantics as sem

PROPERTY_ID = "C08"
LEVEL = "exploration"
RULE = ("Histories (operation lists drawn by Hypothesis) over ONE prepared ClauseDB of a C01-style generated program "
        "and ONE shared target LogicFormula: ground(query q) | ground(evidence e, +/-) | engine.query(db, q) "
        "(deterministic, no target) | fresh target; queries may repeat and overlap, ground and non-ground. Invariant "
        "after every step: evaluating the shared target gives every query grounded so far the probabilities (and the "
        "same error class) obtained by grounding that query ALONE in a fresh target with the same evidence; "
        "engine.query answers equal those on a freshly prepared database. Any grounding step may use a NEW engine "
        "instance on the same database and target (fresh_engine). Sub-check collect-wrappers adds two clauses "
        "w_i(L) :- all|findall(X, p(X,..), L) over smaller programs and starts every history by grounding both "
        "wrappers through different engine instances. Non-trivial: >= 3 grounding steps on one "
        "target, at least two of them queries on derived predicates. Distinct = distinct (program, history).")
ASSUMPTIONS = ["differential oracle: shared target vs fresh single-query target of the same engine code",
               "probability mode (zero-probability instances dropped)"]


def _term(atom):
    from problog.logic import Term, Var, Constant

    args = []
    for t in atom[1]:
        if t[0] == "v":
            args.append(Var(t[1]))
        elif t[0] == "i":
            args.append(Constant(t[1]))
        else:
            args.append(Term(t[1]))
    return Term(atom[0], *args)


def _evaluate(target):
    from problog import get_evaluatable

    try:
        with plrun.captured_output():
            res = get_evaluatable().create_from(target).evaluate()
        return ("ok", plrun.norm_result(res))
    except plrun.CaseTimeout:
        raise
    except BaseException as exc:
        if isinstance(exc, (KeyboardInterrupt, SystemExit)):
            raise
        return plrun.classify_exception(exc)


def _ground(eng, db, target, term, label):
    try:
        with plrun.captured_output():
            return ("ok", eng.ground(db, term, target, label=label))
    except plrun.CaseTimeout:
        raise
    except BaseException as exc:
        if isinstance(exc, (KeyboardInterrupt, SystemExit)):
            raise
        return plrun.classify_exception(exc)


def check(case):
    from problog.program import PrologString
    from problog.engine import DefaultEngine
    from problog.formula import LogicFormula

    prog = case["prog"]
    feats = gp.features(prog)
    src = sem.render_program(prog)
    if any(s[0] == "raw" for s in prog):
        feats.add("all/3-wrapper")
    plrun.reset_state()
    try:
        eng = DefaultEngine()
        db = eng.prepare(PrologString(src))
    except Exception as exc:
        r = plrun.classify_exception(exc)
        return Outcome(failure=Failure("prepare-failed", repr(r), sig="prepare-failed:%s" % (r[1],)))
    derived = set()
    for s in sem.expand(prog):
        if s[0] in ("rule", "ad") and s[2]:
            for h in ([s[1]] if s[0] == "rule" else [a for _, a in s[1]]):
                derived.add((h[0], len(h[1])))
    engines_ = [eng]
    target = None
    evidence = []  # (atom, val)
    queries = []  # atoms
    nsteps = 0
    nderived = 0
    failure = None
    for step, op in enumerate(case["ops"]):
        kind = op[0]
        if kind == "fresh":
            target = None
            evidence = []
            queries = []
            nsteps = 0
            nderived = 0
            continue
        atom = op[1]
        if kind == "det":
            # deterministic query: answers must equal those on a freshly prepared database
            try:
                with plrun.captured_output():
                    got = sorted(str(x) for x in eng.query(db, _term(atom)))
                r1 = ("ok", got)
            except plrun.CaseTimeout:
                raise
            except BaseException as exc:
                r1 = plrun.classify_exception(exc)
            try:
                with plrun.captured_output():
                    eng2 = DefaultEngine()
                    db2 = eng2.prepare(PrologString(src))
                    exp = sorted(str(x) for x in eng2.query(db2, _term(atom)))
                r2 = ("ok", exp)
            except plrun.CaseTimeout:
                raise
            except BaseException as exc:
                r2 = plrun.classify_exception(exc)
            if r1[0] == "resource" or r2[0] == "resource":
                return Outcome(inconclusive="resource", features=feats)
            if r1 != r2:
                failure = Failure("det-query-mismatch", "step %d engine.query(%s): reused db %r, fresh db %r" % (
                    step, sem.render_atom(atom), r1, r2))
                break
            continue
        # a grounding step may be made by another engine instance on the same prepared database and the same
        # shared target (successive ground()/create_from(target=...) calls each build a fresh engine)
        step_eng = eng
        if op[-1] == "fresh_engine":
            step_eng = DefaultEngine()
            engines_.append(step_eng)
            feats.add("fresh-engine-step")
        if kind == "q":
            r = _ground(step_eng, db, target, _term(atom), LogicFormula.LABEL_QUERY)
            label = "query"
        else:
            r = _ground(step_eng, db, target, _term(atom),
                        LogicFormula.LABEL_EVIDENCE_POS if op[2] else LogicFormula.LABEL_EVIDENCE_NEG)
        if r[0] == "resource":
            return Outcome(inconclusive=r[1], features=feats)
        # the same grounding step on a fresh target with the same evidence
        fresh_err = None
        if r[0] != "ok":
            # grounding raised: it must raise the same way on a fresh target with the same history of evidence
            ft = None
            for (ea, ev) in evidence:
                fr = _ground(eng, db, ft, _term(ea), LogicFormula.LABEL_EVIDENCE_POS if ev else LogicFormula.LABEL_EVIDENCE_NEG)
                if fr[0] != "ok":
                    fresh_err = fr
                    break
                ft = fr[1]
            if fresh_err is None:
                fr = _ground(eng, db, ft, _term(atom), LogicFormula.LABEL_QUERY if kind == "q" else
                             (LogicFormula.LABEL_EVIDENCE_POS if op[2] else LogicFormula.LABEL_EVIDENCE_NEG))
                if fr[0] == "ok":
                    failure = Failure("ground-error-only-shared",
                                      "step %d: grounding %s on the shared target raised %r but succeeds on a fresh target" % (
                                          step, sem.render_atom(atom), r),
                                      sig="ground-error-only-shared:%s" % (r[1],))
            break
        target = r[1]
        nsteps += 1
        if kind == "q":
            queries.append(atom)
            if (atom[0], len(atom[1])) in derived:
                nderived += 1
        else:
            evidence.append((atom, op[2]))
        shared = _evaluate(target)
        if shared[0] == "resource":
            return Outcome(inconclusive=shared[1], features=feats)
        # expected: each query alone
        for qa in queries:
            ft = None
            ok = True
            for (ea, ev) in evidence:
                fr = _ground(DefaultEngine(), db, ft, _term(ea), LogicFormula.LABEL_EVIDENCE_POS if ev else LogicFormula.LABEL_EVIDENCE_NEG)
                if fr[0] != "ok":
                    ok = False
                    break
                ft = fr[1]
            if not ok:
                break
            fr = _ground(DefaultEngine(), db, ft, _term(qa), LogicFormula.LABEL_QUERY)
            if fr[0] != "ok":
                break
            alone = _evaluate(fr[1])
            if alone[0] == "resource":
                return Outcome(inconclusive=alone[1], features=feats)
            if alone[0] != "ok" or shared[0] != "ok":
                if alone[0] != shared[0] or alone[1] != shared[1]:
                    failure = Failure("outcome-mismatch", "step %d query %s: shared target %r, alone %r" % (
                        step, sem.render_atom(qa), shared, alone),
                        sig="outcome-mismatch:%s/%s" % (plrun._sigpart(shared), plrun._sigpart(alone)))
                break
            da = plrun.drop_zero(alone[1])
            ds = plrun.drop_zero(shared[1])
            for k, v in da.items():
                if not plrun.close(v, ds.get(k, 0.0)):
                    failure = Failure("prob-mismatch", "step %d: %s alone=%r in shared target=%r (history %r)" % (
                        step, k, v, ds.get(k, 0.0), case["ops"][:step + 1]))
                    break
            if failure is None:
                # instances of this query reported only by the shared target
                al_keys = set(alone[1])
                for k, v in ds.items():
                    if k not in da and _same_pred(k, qa) and _only_query_with_pred(qa, queries) and k not in al_keys:
                        failure = Failure("extra-instance", "step %d: %s=%r reported by the shared target only" % (step, k, v))
                        break
            if failure is not None:
                break
        if failure is not None:
            break
    nontrivial = nsteps >= 3 and nderived >= 2
    return Outcome(nontrivial=nontrivial, features=sorted(feats), failure=failure,
                   sample={"program": src, "ops": case["ops"]})


def _same_pred(key, atom):
    name = key[2:] if key.startswith("\\+") else key
    return name.split("(")[0] == atom[0]


def _only_query_with_pred(atom, queries):
    return sum(1 for q in queries if q[0] == atom[0]) == 1


def _make_cases(wrappers):
    @st.composite
    def _cases(draw):
        if wrappers:
            # smaller programs: all/3 enumerates every subset of the probabilistic answers of the collected goal
            prog = draw(gp.programs(min_queries=2, allow_neg_query=False, max_preds=3, max_clauses=2, max_consts=2,
                                    allow_body_or=False))
        elif draw(st.integers(0, 2)) == 0:
            # a binary relation called with different variable-sharing patterns (p(X,X) / p(X,Y) must not share a table)
            prog = draw(gp.programs(min_queries=3, allow_neg_query=False, share_bias=True, max_preds=3))
        else:
            prog = draw(gp.programs(min_queries=3, allow_neg_query=False))
        base = [s for s in prog if s[0] not in ("query", "evidence")]
        qpool = [s[1] for s in prog if s[0] == "query"]
        epool = [s[1] for s in prog if s[0] == "evidence"]
        # more ground atoms over the program's predicates
        preds = sorted(set((s[1][0], len(s[1][1])) for s in base if s[0] in ("fact", "rule", "rule_or")) |
                       set((s[2][0], len(s[2][1])) for s in base if s[0] == "pfact") |
                       set((a[0], len(a[1])) for s in base if s[0] == "ad" for _, a in s[1]))
        nextra = draw(st.integers(0, 3))
        for _ in range(nextra):
            p = draw(st.sampled_from(preds))
            atom = [p[0], [["a", draw(st.sampled_from(["a", "b"]))] for _ in range(p[1])]]
            (qpool if draw(st.booleans()) else epool).append(atom)
        for p in preds:
            if p[1] == 2 and draw(st.integers(0, 2)) == 0:
                qpool.append([p[0], [["v", "X"], ["v", "X"]]])
                qpool.append([p[0], [["v", "X"], ["v", "Y"]]])
        ops = []
        wrappable = [p for p in preds if p[1] >= 1]
        if wrappers and wrappable:
            # all/3 and findall/3 wrappers over the program's predicates (their helper goals are excluded from
            # tabling); two wrappers are grounded into one target by two engine instances, each of which numbers
            # its helper goals from 1
            for wi in range(2):
                p = draw(st.sampled_from(wrappable))
                args = ",".join(["X"] + ["_"] * (p[1] - 1))
                which = draw(st.sampled_from(["all", "all", "findall"]))
                base.append(["raw", "w%d(L) :- %s(X, %s(%s), L)." % (wi, which, p[0], args)])
                qpool.append(["w%d" % wi, [["v", "L"]]])
            first = draw(st.integers(0, 1))
            ops.append(["q", ["w%d" % first, [["v", "L"]]]] + (["fresh_engine"] if draw(st.booleans()) else []))
            ops.append(["q", ["w%d" % (1 - first), [["v", "L"]]], "fresh_engine"])
        n = draw(st.integers(1, 5) if wrappers else st.integers(3, 9))
        for _ in range(n):
            k = draw(st.sampled_from(["q", "q", "q", "q", "q", "q", "e", "e", "det", "fresh"]))
            if k == "fresh":
                ops.append(["fresh"])
            elif k == "e":
                if not epool:
                    continue
                a = draw(st.sampled_from(epool))
                ops.append(["e", a, draw(st.booleans())] + (["fresh_engine"] if draw(st.integers(0, 2)) == 0 else []))
            else:
                a = draw(st.sampled_from(qpool))
                ops.append([k, a] + (["fresh_engine"] if k == "q" and draw(st.integers(0, 1)) == 0 else []))
        return {"prog": base, "ops": ops}
    return _cases


KNOWN_CLASSES = {
    "cyclic_or_complement": lambda case, failure: gp.cyclic_body_disjunction_with_complement(case["prog"]),
    "negcycle_fp": lambda case, failure: gp.neg_on_cyclic_goal_under_active_cycle(case["prog"]),
    "neg_under_cycle": lambda case, failure: gp.neg_under_active_cycle(case["prog"]),
    "ad_cyclic_complement": lambda case, failure: gp.cyclic_multihead_ad_with_complementary_body(case["prog"]),
    "shared_var_call": lambda case, failure: gp.shared_var_call(case["prog"]) or any(
        len(op) > 1 and len([t for t in op[1][1] if t[0] == "v"]) != len(set(t[1] for t in op[1][1] if t[0] == "v"))
        for op in case["ops"]),
}

_render = lambda c: {"program": sem.render_program(c["prog"]), "ops": c["ops"]}

SUBCHECKS = [
    SubCheck("histories", check, strategy=_make_cases(False), budget={"quick": 400, "thorough": 6000},
             timeout={"quick": 20, "thorough": 60}, render=_render),
    SubCheck("collect-wrappers", check, strategy=_make_cases(True), budget={"quick": 250, "thorough": 3000},
             timeout={"quick": 10, "thorough": 30}, render=_render),
]
