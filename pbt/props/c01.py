"""C01 - exact inference computes the distribution semantics."""
from hypothesis import strategies as st

from pbt.core.api import Outcome, SubCheck
from pbt.core import plrun, refcmp
from pbt.gen import programs as gp
from pbt.ref import semantics as sem

PROPERTY_ID = "C01"
LEVEL = "exploration"
RULE = ("Programs generated as ASTs by construction (1-5 predicates of arity 0-2 over <=3 constants; facts, "
        "probabilistic facts incl. probability 0/1 and duplicates, annotated disjunctions with/without bodies, "
        "probabilistic rules, rules with 1-3 literals, predicate-stratified negation, self/mutual/non-linear "
        "positive recursion; 1-3 ground/non-ground/negated queries; 0-2 positive/negative evidence atoms), "
        "rendered to text and evaluated by get_evaluatable(None).create_from(...).evaluate(); oracle = independent "
        "possible-world enumeration with exact rationals. Non-trivial: >=2 relevant probabilistic choices and a "
        "query with reference probability strictly between 0 and 1 (or inconsistent evidence with >=1 choice). "
        "Distinct = distinct program AST. Families mixed in: body disjunctions, a binary relation called with "
        "different variable-sharing patterns, densely mutually recursive propositional programs. Sub-check 'cli' runs "
        "the same oracle through tasks.probability.execute on a model file (the command-line entry point, evidence "
        "propagation on/off); sub-check 'small-exhaustive' enumerates all propositional programs '0.3::a. 0.6::b.' + "
        "1-3 rules over heads p,q and bodies of 1-2 literals from a,b,p,q,\\+a,\\+b (98 854 programs in the thorough tier, "
        "every 40th in the quick tier).")
ASSUMPTIONS = ["reference enumerator (pbt/ref/semantics.py) is the semantics; float tolerance 1e-9",
               "programs with more relevant choices than the tier bound are skipped and counted as inconclusive"]

MAXC = {"quick": 10, "thorough": 13}


def make_check(max_choices, **run_kw):
    def check(case):
        prog = case["prog"]
        feats = gp.features(prog)
        try:
            ref = sem.evaluate(prog, max_choices=max_choices, max_worlds=1 << 14)
        except sem.TooLarge:
            return Outcome(inconclusive="oversize", features=feats)
        src = sem.render_program(prog)
        res = plrun.run_problog(src, **run_kw)
        if res[0] == "resource":
            return Outcome(inconclusive=res[1], features=feats)
        failure = refcmp.compare_with_ref(ref, res)
        nontrivial = (ref.n_choices >= 2 and any(v is not None and 0 < v < 1 for v in ref.probs.values())) or \
                     (ref.inconsistent and ref.n_choices >= 1)
        cls = "rejected-inconsistent" if ref.inconsistent else "answered"
        feats.add("choices:%s" % ("0-1" if ref.n_choices < 2 else "2-4" if ref.n_choices < 5 else "5-8" if ref.n_choices < 9 else "9+"))
        return Outcome(nontrivial=nontrivial, features=sorted(feats), failure=failure, classes=[cls],
                       sample={"program": src, "reference": dict((k, str(v)) for k, v in ref.probs.items())})
    return check


def _strategy():
    return st.one_of(gp.programs(), gp.programs(), gp.programs(), gp.programs(), gp.programs(), gp.programs(),
                     gp.programs(share_bias=True, max_preds=3), gp.programs(share_bias=True, max_preds=3),
                     gp.dense_cycles(), gp.reach_programs()).map(lambda p: {"prog": p})


def render(case):
    return sem.render_program(case["prog"])


KNOWN_CLASSES = {
    "cyclic_or_complement": lambda case, failure: gp.cyclic_body_disjunction_with_complement(case["prog"]),
    "shared_var_call": lambda case, failure: gp.shared_var_call(case["prog"]),
    "ad_cyclic_complement": lambda case, failure: gp.cyclic_multihead_ad_with_complementary_body(case["prog"]),
    "neg_under_cycle": lambda case, failure: gp.neg_under_active_cycle(case["prog"]),
    "negcycle_fp": lambda case, failure: gp.neg_on_cyclic_goal_under_active_cycle(case["prog"]),
}

# ------------------------------------------------------------------------------------------------ CLI entry point

def check_cli(case):
    """The same oracle through the entry point of the `problog` command line (tasks.probability.execute on a
    model file), with the options the CLI passes by default (evidence propagation on)."""
    import os
    import tempfile
    from problog.tasks import probability

    prog = case["prog"]
    feats = gp.features(prog)
    try:
        ref = sem.evaluate(prog, max_choices=10, max_worlds=1 << 14)
    except sem.TooLarge:
        return Outcome(inconclusive="oversize", features=feats)
    src = sem.render_program(prog)
    fd, fn = tempfile.mkstemp(suffix=".pl")
    try:
        with os.fdopen(fd, "w") as f:
            f.write(src)
        plrun.reset_state()
        with plrun.captured_output():
            ok, result = probability.execute(fn, propagate_evidence=case.get("propagate", True))
    finally:
        try:
            os.unlink(fn)
        except OSError:
            pass
    if ok:
        res = ("ok", plrun.norm_result(result))
    else:
        if isinstance(result, plrun.CaseTimeout):
            raise result
        res = plrun.classify_exception(result)
    if res[0] == "resource":
        return Outcome(inconclusive=res[1], features=feats)
    failure = refcmp.compare_with_ref(ref, res)
    nontrivial = (ref.n_choices >= 2 and any(v is not None and 0 < v < 1 for v in ref.probs.values())) or \
                 (ref.inconsistent and ref.n_choices >= 1)
    feats.add("cli:propagate_evidence=%s" % case.get("propagate", True))
    return Outcome(nontrivial=nontrivial, features=sorted(feats), failure=failure,
                   classes=["rejected-inconsistent" if ref.inconsistent else "answered"], sample={"program": src})


def _cli_strategy():
    return st.tuples(st.one_of(gp.programs(), gp.programs(evidence_bias=True)), st.booleans()).map(
        lambda t: {"prog": t[0], "propagate": t[1]})


# ------------------------------------------------------------------------------------------------ exhaustive family

def _small_rules():
    lits = [[False, "a", []], [False, "b", []], [False, "p", []], [False, "q", []], [True, "a", []], [True, "b", []]]
    rules = []
    for h in ("p", "q"):
        for l1 in lits:
            rules.append(["rule", [h, []], [l1]])
            for l2 in lits:
                rules.append(["rule", [h, []], [l1, l2]])
    return rules


def enumerate_small(tier):
    """All propositional programs  0.3::a. 0.6::b.  + 1..3 distinct rules (heads p, q; bodies of 1-2 literals from
    a, b, p, q, \\+a, \\+b; rules in a fixed canonical order) + query(p). query(q).   98 854 programs; the quick
    tier takes every 40th."""
    import itertools

    rules = _small_rules()
    base = [["pfact", "0.3", ["a", []]], ["pfact", "0.6", ["b", []]]]
    tail = [["query", ["p", []], False], ["query", ["q", []], False]]
    stride = 40 if tier == "quick" else 1
    i = 0
    for n in (1, 2, 3):
        for combo in itertools.combinations(range(len(rules)), n):
            if i % stride == 0:
                yield {"prog": base + [rules[k] for k in combo] + tail}
            i += 1


def check_small(case):
    # rules whose head predicate has no clause are fine (query on an undefined atom raises UnknownClause in
    # ProbLog: make every queried predicate defined by adding a failing clause)
    prog = list(case["prog"])
    heads = set(s[1][0] for s in prog if s[0] == "rule")
    for h in ("p", "q"):
        if h not in heads:
            prog.insert(2, ["rule", [h, []], [[False, "a", []], [True, "a", []]]])
    return _check10({"prog": prog})


_check10 = make_check(10)

SUBCHECKS = [
    SubCheck("default", _check10, strategy=_strategy, budget={"quick": 4000, "thorough": 60000},
             timeout={"quick": 5, "thorough": 20}, render=render),
    SubCheck("cli", check_cli, strategy=_cli_strategy, budget={"quick": 2400, "thorough": 10000},
             timeout={"quick": 5, "thorough": 20}, render=render),
    SubCheck("small-exhaustive", check_small, enumerate=enumerate_small, exhaustive_tiers=("thorough",), timeout={"quick": 5, "thorough": 20},
             exhaustive="all programs '0.3::a. 0.6::b.' + 1-3 rules (heads p,q; bodies of 1-2 literals over a,b,p,q,\\+a,\\+b) + "
                        "query(p). query(q). - 98 854 programs (thorough); every 40th in the quick tier", render=render),
]
