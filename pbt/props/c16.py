"""C16 - arithmetic and term-inspection builtins match Yap/SWI-Prolog semantics.

Three oracles, all against pbt/ref/arith.py (a transcription of the documented SWI-Prolog 9 / Yap 6 behaviour
that returns the SET of admissible results; where the two systems differ both are admitted):

  eval     `X is Expr` (and `Lit is Expr`): the value (and int/float type) must be admissible; an error must be a
           ProbLogError subclass and is only accepted where Prolog raises one; no raw Python exception may
           escape; the result must be a number (a Python complex is not).
  compare  `L op R` for < =< > >= =:= =\\=: truth value admissible, errors as above.
  inspect  between/3, succ/2, plus/3, length/2, functor/3, arg/3, =../2, atom_number/2 in every mode their
           check_mode strings declare, and the ten type tests: exact solution multiset (up to variable
           renaming, order ignored).

Failures are classified by root cause: the smallest failing sub-expression is located by re-evaluating the
sub-expressions, and kind/sig are derived from that node only (exhaustive enumeration finds every cause many
times, and random trees contain them as sub-terms).

Deliberately NOT checked (see UNCHECKED): listed there with the reason.
"""
import math
import re

from hypothesis import strategies as st

from pbt.core.api import Failure, Outcome, SubCheck
from pbt.core import plrun
from pbt.ref import arith as ref

PROPERTY_ID = "C16"
LEVEL = "exploration"

UNCHECKED = [
    "integer-only functions (// mod rem div /\\ \\/ xor # >< << >> \\) applied to a float: SWI and Yap raise "
    "type_error(integer,_); ProbLog returns Python's float result for // mod rem div; the statement speaks about "
    "values the systems give, so only 'no raw exception' is asserted there",
    "string operands (\"a\"+1): SWI evaluates one-char strings, Yap code lists; only 'no raw exception' asserted",
    "any function applied to inf or nan, or to an operand that may be inf/nan (float overflow, float zero "
    "division, domain errors: SWI raises, Yap may return C's inf/nan): only 'no raw exception' asserted",
    "comparisons involving nan",
    "negative shift counts of << and >> (implementation defined)",
    "int ** negative int and int ^ negative int with |base| > 1: error (SWI ^) and the float value are both admitted",
    "result TYPE of sign/1, float_integer_part/1, float_fractional_part/1 on the other type, min/max of numerically "
    "equal mixed arguments, **, ^ and exp/2 on two integers, / on two integers with exact quotient: both types "
    "admitted (value still checked)",
    "integer/1 on floats: rounding (SWI) and truncation (Yap) both admitted",
    "round/1 on exact halves: away from zero (SWI), to even (Yap 6 manual) and floor(X+1/2) (ISO) all admitted",
    "mod/div with a negative divisor: ISO result and Yap's documented 'always positive' residue both admitted",
    "atan(0,0) and the sign of atan(0,X<0): depends on signed zeros, error/0/pi/-pi admitted",
    "integers of more than 4096 bits (9**9**9, 1 << 2**31): not evaluated at all (cost), counted as skipped-too-big",
    "float results below ~5e-4 in magnitude lose precision because problog.logic.Constant rounds to 15 DECIMALS "
    "(epsilon becomes 0.0): tolerated up to 5.1e-16 absolute as DESIGN.md states, counted as class "
    "'tolerated-15-decimal-rounding'",
    "elementary functions are compared with Python's math module (same libm): this checks the wiring (which "
    "function, which argument order, error behaviour), not libm",
    "type tests on strings (except atom/var/number/integer/float/ground) and atom/callable on '[]': SWI-7 and "
    "Yap 6 differ",
    "functor/3 and =../2 on lists: both '.' (Yap) and '[|]' (SWI-7) admitted as list functor",
    "functor/=../type tests on operator terms and quoted functors other than the shapes listed in the generator",
    "atom_number/2 on number syntax that is not plain -?digits or -?digits.digits (0x1A, 1e10, 1.0Inf, ' 5', '+5')",
    "succ/2 and length/2 with negative integers, arg/3 with a non-compound second argument, unsupported call "
    "modes (ProbLog raises CallModeError there, which is a ProbLogError)",
    "goals on which ProbLog raises OccursCheck (a variable shared between the term and the list of =.. / the "
    "argument of arg/3 such that some unification order builds a cyclic term)",
    "documented-as-unsupported functions (gcd, msb, random, ...) and undocumented extras (atan2/2, gamma/1, +/1)",
]

RULE = ("eval: bounded-exhaustive enumeration of every function/operator docs/source/prolog.rst lists as supported "
        "(31 unary, 21 binary, 5 constants) over integers -9..9,100,2^31,2^64 and floats -2.5,-0.5,0.0,0.5,1.0,2.5,"
        "1e10 (all argument pairs for binary functions; 8 more non-half floats for the unary functions; thorough tier: "
        "49 values), plus every function with an "
        "unbound variable / atom / string / inf / nan operand, plus `Lit is Expr` with bound left sides; Hypothesis "
        "expression trees of call depth <= 4 over the same leaves. compare: the six comparison operators over all "
        "value pairs (exhaustive) and over random trees. inspect: every call mode declared by the check_mode strings "
        "of between/3, succ/2, plus/3, length/2, functor/3, arg/3, =../2, atom_number/2 and the ten type tests over "
        "argument shapes (unbound, atoms incl. [] and quoted, ints, floats, strings, proper/partial/improper lists, "
        "compounds with variables), exhaustively, plus random terms (depth <= 3). Oracle: pbt/ref/arith.py "
        "(set of admissible results per SWI-Prolog 9 / Yap 6 documentation). Non-trivial: the reference asserts a "
        "value set, a truth value or a solution set (i.e. the case is not 'unchecked' and not skipped for size) and, "
        "for eval/compare, the expression contains at least one function application or constant. "
        "Distinct = distinct case (expression / goal).")
ASSUMPTIONS = [
    "pbt/ref/arith.py is my transcription of the SWI-Prolog 9 (iso=false, prefer_rationals=false) and Yap 6 manuals; "
    "no Prolog binary is available here; behaviour I could not pin down is admitted or unchecked (UNCHECKED list)",
    "float tolerance 1e-12 relative; plus 5.1e-16 absolute for Constant's 15-decimal rounding (counted separately)",
    "libm (Python math) is trusted for the elementary functions",
    "rem is checked against mod (documented deviation)",
    "order of between/3 solutions is not compared",
    "unchecked: " + " | ".join(UNCHECKED),
]

# ------------------------------------------------------------------------------------------------ rendering

_PLAIN_ATOM = re.compile(r"^[a-z][A-Za-z0-9_]*$")


def render_float(x):
    r = repr(float(x))
    if "e" in r:
        m, e = r.split("e")
        if "." not in m:
            m += ".0"
        r = m + "e" + e
    if r.startswith("-"):
        return "(%s)" % r
    return r


def render_expr(e):
    t = e[0]
    if t == "int":
        return str(e[1]) if e[1] >= 0 else "(%d)" % e[1]
    if t == "flt":
        return render_float(e[1])
    if t == "const":
        return e[1]
    if t == "var":
        return "Unbound"
    if t == "atom":
        return e[1]
    if t == "str":
        return '"%s"' % e[1]
    name, args = e[1], [render_expr(a) for a in e[2:]]
    if len(args) == 2 and name in ref.INFIX:
        return "(%s %s %s)" % (args[0], name, args[1])
    if len(args) == 1 and name in ("-", "+", "\\"):
        return "%s(%s)" % (name, args[0])
    return "%s(%s)" % (name, ", ".join(args))


def render_atom(name):
    if name == "[]" or _PLAIN_ATOM.match(name):
        return name
    return "'%s'" % name


def render_term(t):
    k = t[0]
    if k == "var":
        return "V%d" % t[1]
    if k == "int":
        return "%d" % t[1]
    if k == "flt":
        return repr(float(t[1]))
    if k == "atom":
        return render_atom(t[1])
    if k == "str":
        return '"%s"' % t[1]
    if k == "cmp":
        if t[1] == "." and len(t[2]) == 2:
            elems, tail = ref.list_parts(t)
            s = ", ".join(render_term(x) for x in elems)
            if tail == ref.NIL:
                return "[%s]" % s
            return "[%s | %s]" % (s, render_term(tail))
        if t[1] == "-" and len(t[2]) == 1:
            return "-(%s)" % render_term(t[2][0])
        return "%s(%s)" % (render_atom(t[1]), ", ".join(render_term(x) for x in t[2]))
    raise ValueError(t)


def render_goal(pred, args):
    if pred == "=..":
        return "%s =.. %s" % (render_term(args[0]), render_term(args[1]))
    return "%s(%s)" % (pred, ", ".join(render_term(a) for a in args))


# ------------------------------------------------------------------------------------------------ running


def run_query(src, arity):
    """('sols', [tuple of problog terms]) | ('error', Class, msg) | ('raw', Class, sig, msg) | ('resource', name).
    A fresh engine per call: an exception leaves the engine's stack dirty."""
    from problog.program import PrologString
    from problog.engine import DefaultEngine
    from problog.logic import Term
    from problog.errors import ProbLogError

    try:
        with plrun.captured_output():
            eng = DefaultEngine()
            db = eng.prepare(PrologString(src))
            res = eng.query(db, Term("q", *([None] * arity)))
        return ("sols", [tuple(r) for r in res])
    except plrun.RESOURCE_ERRORS as exc:
        return ("resource", type(exc).__name__)
    except ProbLogError as exc:
        return ("error", type(exc).__name__, str(exc)[:200])
    except Exception as exc:  # noqa - a raw Python exception is what the property forbids
        return ("raw", type(exc).__name__, plrun.exc_signature(exc), str(exc)[:200])


def run_is(expr, lhs=None):
    """Outcome of `X is expr`: ('value', v) | ('nonnumber', repr) | ('fail',) | ('true',) | error/raw/resource."""
    from problog.logic import Constant

    if lhs is None:
        r = run_query("q(X) :- X is %s." % render_expr(expr), 1)
    else:
        r = run_query("q(x) :- %s is %s." % (render_expr(lhs), render_expr(expr)), 1)
    if r[0] != "sols":
        return r
    if not r[1]:
        return ("fail",)
    if lhs is not None:
        return ("true",)
    t = r[1][0][0]
    v = t.functor if isinstance(t, Constant) else None
    if type(v) in (int, float):
        return ("value", v)
    return ("nonnumber", "%s %r" % (type(v).__name__ if v is not None else type(t).__name__, t))


# ------------------------------------------------------------------------------------------------ eval oracle


def _node_name(expr):
    if expr[0] == "call":
        return "%s/%d" % (expr[1], len(expr) - 2)
    if expr[0] == "const":
        return "const:%s" % expr[1]
    return expr[0]


def judge_eval(expr, spec, got):
    """None (admissible), ('tolerated', why) or (basic kind, message)."""
    if got[0] == "raw":
        return ("raw", "raw Python exception %s (%s): %s" % (got[1], got[2], got[3]))
    if got[0] == "nonnumber" and got[1].startswith("complex"):
        return ("complex", "result is not a Prolog number: " + got[1])
    if spec.unchecked:
        return None  # includes string operands, where ProbLog may hand back a string
    if got[0] == "nonnumber":
        return ("nonnumber", "result is not a Prolog number: " + got[1])
    if got[0] == "error":
        if spec.error:
            return None
        return ("error-instead-of-value", "ProbLog raised %s (%s), reference: %s" % (got[1], got[2], spec.describe()))
    if got[0] == "fail":
        return ("no-solution", "`X is Expr` failed, reference: %s" % spec.describe())
    v = got[1]
    m = ref.match_value(spec, v)
    if m == "exact":
        return None
    if m == "rounded15":
        return ("tolerated", "15-decimal rounding")
    if not spec.values and not spec.nonfinite:
        return ("value-instead-of-error", "ProbLog returned %r, reference: %s" % (v, spec.describe()))
    if ref.numerically_admissible(spec, v):
        return ("wrong-type", "ProbLog returned %r (%s), reference: %s" % (v, type(v).__name__, spec.describe()))
    return ("wrong-value", "ProbLog returned %r, reference: %s" % (v, spec.describe()))


def _eval_failure(expr):
    """(basic kind, message, got) of the standalone evaluation of expr, or None."""
    try:
        spec = ref.evaluate(expr)
    except ref.TooBig:
        return None
    got = run_is(expr)
    if got[0] == "resource":
        return None
    j = judge_eval(expr, spec, got)
    if j is None or j[0] == "tolerated":
        return None
    return (j[0], j[1], got)


def localise(expr, first):
    """Smallest failing sub-expression: descend into a child that fails on its own."""
    cur, cur_fail = expr, first
    while cur[0] == "call":
        nxt = None
        for child in cur[2:]:
            if child[0] not in ("call", "const"):
                continue
            f = _eval_failure(child)
            if f is not None:
                nxt = (child, f)
                break
        if nxt is None:
            break
        cur, cur_fail = nxt
    return cur, cur_fail


def classify(node, basic, got):
    """(kind, sig) from the culprit node."""
    name = _node_name(node)
    if basic == "raw":
        return "raw-exception", "raw-exception:%s:%s" % (got[1], name)
    if basic == "complex":
        return "complex-result", "complex-result"
    if basic == "wrong-value" and node[0] == "call" and got[0] == "value":
        args = node[2:]
        vals = []
        for a in args:
            try:
                s = ref.evaluate(a)
            except ref.TooBig:
                s = None
            vals.append(s.values if s is not None and not s.unchecked else [])
        if node[1] == "//" and len(args) == 2:
            for a in vals[0]:
                for b in vals[1]:
                    if ref.is_int(a) and ref.is_int(b) and b != 0 and got[1] == a // b:
                        return "intdiv-floor", "intdiv-floor"
    return basic, "%s:%s" % (basic, name)


def expr_features(expr, acc=None, depth=0):
    if acc is None:
        acc = {"fn": set(), "depth": 0, "calls": 0, "leaf": set()}
    if expr[0] == "call":
        acc["fn"].add("fn:%s/%d" % (expr[1], len(expr) - 2))
        acc["calls"] += 1
        acc["depth"] = max(acc["depth"], depth + 1)
        for a in expr[2:]:
            expr_features(a, acc, depth + 1)
    else:
        acc["leaf"].add("leaf:%s" % expr[0])
    return acc


def _features(*exprs):
    fs = set()
    depth = 0
    calls = 0
    for e in exprs:
        acc = expr_features(e)
        fs |= acc["fn"] | acc["leaf"]
        depth = max(depth, acc["depth"])
        calls += acc["calls"]
    fs.add("depth:%d" % depth)
    return sorted(fs), calls


def _has_const(expr):
    if expr[0] == "const":
        return True
    return expr[0] == "call" and any(_has_const(a) for a in expr[2:])


def check_eval(case):
    expr = case["expr"]
    lhs = case.get("lhs")
    feats, calls = _features(expr)
    try:
        spec = ref.evaluate(expr)
    except ref.TooBig:
        return Outcome(features=feats, classes=["skipped-too-big"])
    got = run_is(expr, lhs)
    if got[0] == "resource":
        return Outcome(inconclusive=got[1], features=feats)
    src = "%s is %s" % ("X" if lhs is None else render_expr(lhs), render_expr(expr))
    classes = []
    if lhs is None:
        j = judge_eval(expr, spec, got)
    else:
        feats.append("is-bound-lhs")
        j = _judge_bound(expr, spec, got, lhs)
    nontrivial = not spec.unchecked and (calls > 0 or _has_const(expr))
    if spec.unchecked:
        classes.append("unchecked")
    elif got[0] == "error":
        classes.append("error-expected-and-raised")
    else:
        classes.append("value-checked")
    if j is not None and j[0] == "tolerated":
        return Outcome(nontrivial=nontrivial, features=feats, classes=classes + ["tolerated-15-decimal-rounding"])
    if j is None:
        return Outcome(nontrivial=nontrivial, features=feats, classes=classes)
    basic, msg = j
    if lhs is not None and basic == "is-bound-mismatch":
        # a wrong value of the right-hand side explains it: report that root cause
        f = _eval_failure(expr)
        if f is None:
            return Outcome(nontrivial=True, features=feats,
                           failure=Failure("is-bound-mismatch", "%s: %s" % (src, msg), sig="is-bound-mismatch"))
        basic, msg, got = f
    node, (basic, msg2, got2) = localise(expr, (basic, msg, got))
    kind, sig = classify(node, basic, got2)
    detail = "%s: %s" % (src, msg)
    if node is not expr:
        detail += " | smallest failing sub-expression: X is %s: %s" % (render_expr(node), msg2)
    return Outcome(nontrivial=True, features=feats, failure=Failure(kind, detail, sig=sig))


def _judge_bound(expr, spec, got, lhs):
    if got[0] in ("raw", "nonnumber"):
        return judge_eval(expr, spec, got)
    if spec.unchecked:
        return None
    if got[0] == "error":
        return None if spec.error else ("error-instead-of-value", "ProbLog raised %s, reference %s" % (got[1], spec.describe()))
    lv = lhs[1]
    outcomes = set()
    for v in spec.values:
        if type(v) is type(lv) and (v == lv):
            outcomes.add(True)
        elif type(v) is type(lv) and ref.is_float(v) and ref.finite(v) and abs(v - lv) <= 1e-9 * max(1.0, abs(v)):
            outcomes.update([True, False])
        else:
            outcomes.add(False)
    if spec.nonfinite:
        outcomes.add(False)
    if not outcomes:
        return ("value-instead-of-error", "`%s is Expr` %s, reference: %s" % (render_expr(lhs), got[0], spec.describe()))
    if (got[0] == "true") in outcomes:
        return None
    return ("is-bound-mismatch", "ProbLog says %s, reference values of the right-hand side: %s" % (got[0], spec.describe()))


# ------------------------------------------------------------------------------------------------ compare oracle


def check_compare(case):
    op, left, right = case["op"], case["l"], case["r"]
    feats, calls = _features(left, right)
    feats.append("op:" + op)
    try:
        cs = ref.compare(op, left, right)
    except ref.TooBig:
        return Outcome(features=feats, classes=["skipped-too-big"])
    src = "%s %s %s" % (render_expr(left), op, render_expr(right))
    r = run_query("q(x) :- %s." % src, 1)
    if r[0] == "resource":
        return Outcome(inconclusive=r[1], features=feats)
    nontrivial = not cs.unchecked and len(cs.outcomes) <= 1
    basic = None
    if r[0] == "raw":
        basic, msg = "raw", "raw Python exception %s (%s): %s" % (r[1], r[2], r[3])
    elif cs.unchecked:
        pass
    elif r[0] == "error":
        if not cs.error:
            basic, msg = "error-instead-of-value", "ProbLog raised %s (%s), reference: %s" % (r[1], r[2], sorted(cs.outcomes))
    else:
        got = bool(r[1])
        if not cs.outcomes:
            basic, msg = "value-instead-of-error", "ProbLog says %s, reference: error only %s" % (got, sorted(cs.tags))
        elif got not in cs.outcomes:
            basic, msg = "compare-mismatch", "ProbLog says %s, reference: %s" % (got, sorted(cs.outcomes))
    if basic is None:
        cls = "unchecked" if cs.unchecked else ("error-expected-and-raised" if r[0] == "error" else "truth-checked")
        return Outcome(nontrivial=nontrivial, features=feats, classes=[cls])
    # root cause inside one of the operands?
    for side in (left, right):
        if side[0] in ("call", "const"):
            f = _eval_failure(side)
            if f is not None:
                node, (b2, m2, g2) = localise(side, f)
                kind, sig = classify(node, b2, g2)
                return Outcome(nontrivial=True, features=feats, failure=Failure(
                    kind, "%s: %s | smallest failing sub-expression: X is %s: %s" % (src, msg, render_expr(node), m2),
                    sig=sig))
    if basic == "raw":
        kind, sig = "raw-exception", "raw-exception:%s:%s/2" % (r[1], op)
    else:
        kind, sig = basic, "%s:%s/2" % (basic, op)
    return Outcome(nontrivial=True, features=feats, failure=Failure(kind, "%s: %s" % (src, msg), sig=sig))


# ------------------------------------------------------------------------------------------------ inspect oracle


class _Malformed(Exception):
    pass


def _unq(s):
    if len(s) >= 2 and s[0] == "'" and s[-1] == "'":
        return s[1:-1].replace("''", "'")
    return s


def from_problog(t, counter):
    """problog term -> reference term; raises _Malformed for objects that are not well-formed Prolog terms."""
    from problog.logic import Constant, Var, Term

    if t is None:
        counter[0] += 1
        return ["var", "anon%d" % counter[0]]
    if isinstance(t, bool):
        raise _Malformed("bool %r" % (t,))
    if isinstance(t, int):
        return ["var", "p%d" % t]
    if isinstance(t, Var):
        return ["var", "n%s" % t.name]
    if isinstance(t, Constant):
        v = t.functor
        if type(v) is int:
            return ["int", v]
        if type(v) is float:
            return ["flt", v]
        if type(v) is str:
            s = v
            if len(s) >= 2 and s[0] == '"' and s[-1] == '"':
                s = s[1:-1]
            return ["str", s]
        raise _Malformed("Constant with %s value %r" % (type(v).__name__, v))
    if isinstance(t, Term):
        if type(t.functor) is not str:
            raise _Malformed("Term whose functor is a %s (%r) instead of a name: it prints like the expected term but "
                             "is not equal to it (==, integer/1, is/2 treat it differently)"
                             % (type(t.functor).__name__, t.functor))
        name = _unq(t.functor)
        if t.arity == 0:
            return ["atom", name]
        return ["cmp", name, [from_problog(a, counter) for a in t.args]]
    raise _Malformed("%s %r" % (type(t).__name__, t))


def arg_kind(t):
    k = t[0]
    if k == "var":
        return "v"
    if k == "int":
        return "i"
    if k == "flt":
        return "f"
    if k == "str":
        return "s"
    if k == "atom":
        return "a"
    if t[1] == "." and len(t[2]) == 2:
        elems, tail = ref.list_parts(t)
        if tail == ref.NIL:
            return "L"
        if tail[0] == "var":
            return "l"
        return "d"
    return "c"


def check_inspect(case):
    pred, args = case["pred"], case["args"]
    mode = "".join(arg_kind(a) for a in args)
    sigmode = mode[0]  # signatures name the predicate and the kind of its first argument only (root cause level)
    feats = ["pred:%s" % pred, "mode:%s:%s" % (pred, mode)]
    exp = ref.solve(pred, args)
    qvars = []
    for a in args:
        ref.term_vars(a, qvars)
    qvars = [v for v in qvars if isinstance(v, int)]
    goal = render_goal(pred, args)
    head = "q(%s)" % ", ".join("V%d" % v for v in qvars) if qvars else "q(x)"
    r = run_query("%s :- %s." % (head, goal), max(1, len(qvars)))
    if r[0] == "resource":
        return Outcome(inconclusive=r[1], features=feats)
    name = "%s/%d" % (pred, len(args))
    if r[0] == "raw":
        return Outcome(nontrivial=True, features=feats, failure=Failure(
            "raw-exception", "%s: raw Python exception %s (%s): %s" % (goal, r[1], r[2], r[3]),
            sig="raw-exception:%s:%s" % (r[1], name)))
    if exp.unchecked:
        return Outcome(features=feats, classes=["unchecked"])
    expected = []
    for alt in exp.alternatives:
        expected.append(sorted(ref.canonical([ref.resolve(["var", v], b) for v in qvars]) for b in alt))
    if r[0] == "error":
        if r[1] == "OccursCheck":
            # ProbLog unifies with an occurs check and reports would-be cyclic terms eagerly, Prolog's result there
            # depends on the order of unification: not compared
            return Outcome(features=feats, classes=["unchecked-occurs-check"])
        if exp.error_ok:
            return Outcome(nontrivial=True, features=feats, classes=["error-expected-and-raised"])
        return Outcome(nontrivial=True, features=feats, failure=Failure(
            "error-instead-of-solutions", "%s: ProbLog raised %s (%s); Prolog solutions for (%s): %s" % (
                goal, r[1], r[2], ", ".join("V%d" % v for v in qvars), expected[0]),
            sig="error-instead-of-solutions:%s:%s" % (name, sigmode)))
    try:
        got = []
        for tup in r[1]:
            counter = [0]
            terms = [from_problog(t, counter) for t in tup] if qvars else []
            got.append(ref.canonical(terms))
        got.sort()
    except _Malformed as exc:
        return Outcome(nontrivial=True, features=feats, failure=Failure(
            "malformed-term", "%s: a solution contains %s; Prolog solutions: %s" % (goal, exc, expected[0]),
            sig="malformed-term:%s:%s" % (name, sigmode)))
    if got in expected:
        return Outcome(nontrivial=True, features=feats, classes=["solutions-checked"])
    return Outcome(nontrivial=True, features=feats, failure=Failure(
        "solutions-mismatch", "%s: ProbLog solutions for (%s): %s; Prolog: %s" % (
            goal, ", ".join("V%d" % v for v in qvars) or "-", got, " or ".join(str(e) for e in expected)),
        sig="solutions-mismatch:%s:%s" % (name, sigmode)))


# ------------------------------------------------------------------------------------------------ enumeration

INTS_Q = list(range(-9, 10)) + [100, 2 ** 31, 2 ** 64]
FLOATS_Q = [-2.5, -0.5, 0.0, 0.5, 1.0, 2.5, 1e10]
INTS_T = sorted(set(list(range(-12, 13)) + [100, 127, 128, 255, -256, 2 ** 31 - 1, 2 ** 31, -2 ** 31, 2 ** 32, 2 ** 53,
                                           2 ** 53 + 1, 2 ** 63 - 1, 2 ** 63, -2 ** 63, 2 ** 64, -2 ** 64 - 1]))
FLOATS_T = [-1e10, -2.7, -2.5, -1.5, -1.0, -0.5, -0.3, 0.0, 0.1, 0.5, 1.0, 1.5, 2.3, 2.5, 3.0, 1e10, 1e100, 1.0e308]
# extra floats for the unary functions only: not halves, so that rounding/truncation/floor/ceiling all differ
FLOATS_UNARY_EXTRA = [-3.5, -2.7, -1.5, -0.3, 0.3, 1.5, 2.7, 3.5]
SPECIAL_OPERANDS = [["var"], ["atom", "foo"], ["str", "a"], ["const", "inf"], ["const", "nan"]]


def lit(v):
    return ["int", v] if type(v) is int else ["flt", v]


def _values(tier):
    if tier == "thorough":
        return [lit(v) for v in INTS_T] + [lit(v) for v in FLOATS_T]
    return [lit(v) for v in INTS_Q] + [lit(v) for v in FLOATS_Q]


def _evaluable(expr):
    try:
        ref.evaluate(expr)
        return True
    except ref.TooBig:
        return False


_BOUND_EXPRS = [
    ["call", "+", ["int", 1], ["int", 2]], ["call", "+", ["flt", 1.0], ["int", 2]],
    ["call", "*", ["flt", 1.5], ["int", 2]], ["call", "//", ["int", 7], ["int", 2]],
    ["call", "-", ["int", 3]], ["call", "-", ["flt", 3.0]], ["call", "truncate", ["flt", 3.5]],
    ["call", "float", ["int", 3]], ["call", "/", ["int", 7], ["int", 2]], ["call", "abs", ["int", -3]],
    ["call", "max", ["int", 3], ["flt", 2.5]], ["call", "min", ["int", 4], ["flt", 3.5]],
    ["call", "/", ["int", 1], ["int", 0]], ["call", "+", ["var"], ["int", 1]], ["int", 3], ["flt", 3.0],
]
_BOUND_LHS = [["int", 3], ["flt", 3.0], ["int", -3], ["flt", -3.0], ["flt", 3.5], ["int", 4]]


def enumerate_eval(tier):
    vals = _values(tier)
    for c in ref.DOC_CONSTANTS:
        yield {"expr": ["const", c]}
    seen = set(v[1] for v in vals if v[0] == "flt")
    uvals = vals + [lit(v) for v in FLOATS_UNARY_EXTRA if v not in seen]
    for f in ref.DOC_UNARY:
        for a in uvals:
            yield {"expr": ["call", f, a]}
        for s in SPECIAL_OPERANDS:
            yield {"expr": ["call", f, s]}
    for f in ref.DOC_BINARY:
        for a in vals:
            for b in vals:
                e = ["call", f, a, b]
                if _evaluable(e):
                    yield {"expr": e}
        for s in SPECIAL_OPERANDS:
            yield {"expr": ["call", f, s, ["int", 1]]}
            yield {"expr": ["call", f, ["int", 1], s]}
            yield {"expr": ["call", f, ["flt", 2.5], s]}
    for s in SPECIAL_OPERANDS:
        yield {"expr": s}
    for e in _BOUND_EXPRS:
        for l in _BOUND_LHS:
            yield {"expr": e, "lhs": l}


def enumerate_compare(tier):
    vals = _values(tier)
    for op in ref.COMPARISONS:
        for a in vals:
            for b in vals:
                yield {"op": op, "l": a, "r": b}
        for s in SPECIAL_OPERANDS + [["const", "pi"], ["const", "e"], ["const", "epsilon"]]:
            yield {"op": op, "l": s, "r": ["int", 1]}
            yield {"op": op, "l": ["flt", 0.5], "r": s}
        # evaluated operands: both sides are evaluated before comparing
        yield {"op": op, "l": ["call", "+", ["int", 1], ["int", 2]], "r": ["flt", 3.0]}
        yield {"op": op, "l": ["call", "*", ["int", 2], ["flt", 1.5]], "r": ["call", "-", ["int", 4], ["int", 1]]}
        yield {"op": op, "l": ["call", "/", ["int", 1], ["int", 0]], "r": ["int", 1]}


def V(n):
    return ["var", n]


def A(name):
    return ["atom", name]


def I(n):
    return ["int", n]


def Fl(x):
    return ["flt", x]


def Cm(name, *args):
    return ["cmp", name, list(args)]


def Ls(*elems, **kw):
    return ref.mk_list(list(elems), kw.get("tail"))


# argument shapes for the type tests and as first argument of functor/=..
SHAPES = [
    V(0), A("foo"), A("bar"), A("[]"), A("hello world"), I(0), I(3), I(-3), I(2 ** 64), Fl(2.5), Fl(1.0), Fl(-0.5),
    ["str", "abc"], ["str", ""],
    Ls(), Ls(A("a")), Ls(A("a"), A("b")), Ls(I(1), I(2), I(3)), Ls(V(0), V(1)), Ls(Ls(A("a")), A("b")),
    Ls(A("a"), tail=V(0)), Ls(A("a"), A("b"), tail=V(0)), Ls(V(1), tail=V(0)),
    Ls(A("a"), tail=A("b")), Ls(A("a"), tail=I(1)),
    Cm("foo", A("a")), Cm("foo", A("a"), A("b")), Cm("foo", V(0)), Cm("foo", V(0), A("b")), Cm("foo", V(0), V(0)),
    Cm("g", Cm("foo", A("a")), V(1)), Cm("-", I(3)), Cm("-", A("a")), Cm("f", I(1), Fl(2.5), ["str", "s"]),
    Cm("foo", Ls(A("a"), tail=V(0))), Cm("point", I(1), I(2), I(3)),
]


def enumerate_inspect(tier):
    # ---- type tests
    for p in ref.TYPE_TESTS:
        for s in SHAPES:
            yield {"pred": p, "args": [s]}
    big = tier == "thorough"
    # ---- between/3: iii, iiv
    rng = list(range(-3, 5)) if big else list(range(-2, 4))
    for lo in rng:
        for hi in rng:
            for v in [V(0)] + [I(x) for x in ([-4] + rng + [rng[-1] + 1])]:
                yield {"pred": "between", "args": [I(lo), I(hi), v]}
    for v in [V(0), I(2 ** 64), I(2 ** 64 + 1), I(2 ** 64 + 3)]:
        yield {"pred": "between", "args": [I(2 ** 64), I(2 ** 64 + 2), v]}
    # ---- succ/2: vI, Iv, II
    nat = [0, 1, 2, 3, 9, 2 ** 64]
    for a in nat:
        yield {"pred": "succ", "args": [V(0), I(a)]}
        yield {"pred": "succ", "args": [I(a), V(0)]}
        for b in nat + [a + 1]:
            yield {"pred": "succ", "args": [I(a), I(b)]}
    # ---- plus/3: iii, iiv, ivi, vii
    pr = list(range(-4, 5)) if big else list(range(-3, 4))
    for a in pr:
        for b in pr:
            yield {"pred": "plus", "args": [I(a), I(b), V(0)]}
            yield {"pred": "plus", "args": [I(a), V(0), I(b)]}
            yield {"pred": "plus", "args": [V(0), I(a), I(b)]}
            for c in pr:
                yield {"pred": "plus", "args": [I(a), I(b), I(c)]}
    yield {"pred": "plus", "args": [I(2 ** 64), I(1), V(0)]}
    yield {"pred": "plus", "args": [V(0), I(1), I(2 ** 64)]}
    # ---- length/2: LI, Lv, lI, vI
    proper = [Ls(), Ls(A("a")), Ls(A("a"), A("b")), Ls(V(1), V(2), V(1)), Ls(Ls(A("a"), A("b")), I(1), Fl(2.5), A("c"))]
    partial = [Ls(A("a"), tail=V(0)), Ls(A("a"), A("b"), tail=V(0)), Ls(V(1), tail=V(0)), Ls(V(1), V(1), V(2), tail=V(0))]
    for l in proper:
        yield {"pred": "length", "args": [l, V(0)]}
        for n in range(0, 6):
            yield {"pred": "length", "args": [l, I(n)]}
    for l in partial + [V(0)]:
        for n in range(0, 6):
            yield {"pred": "length", "args": [l, I(n)]}
    # ---- functor/3: vaI, n**
    for f in [A("foo"), A("[]"), A("hello world"), A("bar")]:
        for n in range(0, 5):
            yield {"pred": "functor", "args": [V(0), f, I(n)]}
    for t in SHAPES:
        if t[0] == "var":
            continue
        t2 = _shift_vars(t, 10)
        names = [V(0), A("foo"), A("bar"), A("."), A("[]"), A("-"), I(3), Fl(2.5)]
        for f in names:
            for a in [V(1), I(0), I(1), I(2), I(3)]:
                yield {"pred": "functor", "args": [t2, f, a]}
        yield {"pred": "functor", "args": [t2, V(0), V(0)]}
    # ---- arg/3: In*
    comps = [t for t in SHAPES if t[0] == "cmp"]
    thirds = [V(5), A("a"), A("b"), A("c"), I(1), I(3), Cm("foo", A("a")), Cm("foo", V(5)), Ls(A("b")), V(0), V(1)]
    for t in comps:
        for n in range(0, 5):
            for x in thirds:
                yield {"pred": "arg", "args": [I(n), t, x]}
    # ---- =../2: vL, nv, nl
    for l in [Ls(A("foo")), Ls(A("foo"), A("a")), Ls(A("foo"), A("a"), A("b")), Ls(A("foo"), V(1)),
              Ls(A("foo"), V(1), V(1)), Ls(A("foo"), V(1), V(2)), Ls(I(5)), Ls(Fl(2.5)), Ls(I(-3)), Ls(A("[]")),
              Ls(A("hello world"), I(1)), Ls(A("foo"), Ls(A("a"), tail=V(1))), Ls(A("foo"), Cm("g", V(1)), I(2), Fl(0.5)),
              Ls(A("."), A("a"), A("[]")), Ls(A("-"), I(3))]:
        yield {"pred": "=..", "args": [V(0), l]}
    lists = [V(0), Ls(V(0), tail=V(1)), Ls(A("foo"), V(0)), Ls(A("bar"), V(0)), Ls(A("foo"), V(0), V(1)),
             Ls(A("foo"), A("a")), Ls(A("foo"), A("a"), A("b")), Ls(V(0)), Ls(V(0), A("a"), tail=V(1)),
             Ls(A("foo"), tail=V(0)), Ls(V(0), V(1), V(2)), Ls(I(3)), Ls(A("foo")), Ls(), Ls(V(0), V(0)),
             Ls(A("."), V(0), V(1)), Ls(A("-"), V(0))]
    for t in SHAPES:
        if t[0] == "var":
            continue
        t2 = _shift_vars(t, 10)
        for l in lists:
            yield {"pred": "=..", "args": [t2, l]}
    # ---- atom_number/2: vf, vi, av, af, ai
    nums = [I(0), I(5), I(-3), I(42), I(2 ** 64), Fl(2.5), Fl(3.0), Fl(-0.5), Fl(1e10), Fl(0.0)]
    atoms = [A("5"), A("0"), A("-3"), A("42"), A("05"), A("3.0"), A("2.5"), A("-0.5"), A("2.50"), A("foo"), A("inf"),
             A("nan"), A("18446744073709551616"), A("10000000000.0"), A("infinity"), A("e")]
    for n in nums:
        yield {"pred": "atom_number", "args": [V(0), n]}
    for a in atoms:
        yield {"pred": "atom_number", "args": [a, V(0)]}
        for n in nums:
            yield {"pred": "atom_number", "args": [a, n]}


def _shift_vars(t, d):
    if t[0] == "var":
        return ["var", t[1] + d]
    if t[0] == "cmp":
        return ["cmp", t[1], [_shift_vars(a, d) for a in t[2]]]
    return t


# ------------------------------------------------------------------------------------------------ strategies

_POOL_INTS = INTS_Q + [7, -7, 3, -3, 2, -2, 2 ** 53 + 1, 2 ** 63, -2 ** 31]
_POOL_FLOATS = FLOATS_Q + [-1.0, 1.5, -1.5, 0.1, 3.0, -2.7, 2.3, -0.3, 1.25]


def _leaf():
    return st.one_of(
        st.sampled_from(_POOL_INTS).map(lambda v: ["int", v]),
        st.integers(-20, 20).map(lambda v: ["int", v]),
        st.sampled_from(_POOL_FLOATS).map(lambda v: ["flt", v]),
        st.sampled_from(_POOL_INTS).map(lambda v: ["int", v]),
        st.sampled_from(ref.DOC_CONSTANTS[:3]).map(lambda c: ["const", c]),
        st.sampled_from([["const", "inf"], ["const", "nan"], ["var"], ["atom", "foo"], ["str", "a"]]),
    )


def _tree(depth):
    if depth == 0:
        return _leaf()
    sub = _tree(depth - 1)
    un = st.tuples(st.sampled_from(ref.DOC_UNARY), sub).map(lambda t: ["call", t[0], t[1]])
    bi = st.tuples(st.sampled_from(ref.DOC_BINARY), sub, sub).map(lambda t: ["call", t[0], t[1], t[2]])
    # integer-heavy operators are drawn more often: that is where the systems' semantics are subtle
    bi2 = st.tuples(st.sampled_from(["//", "mod", "rem", "div", "/", "**", "^", ">>", "<<", "-", "*"]), sub, sub).map(
        lambda t: ["call", t[0], t[1], t[2]])
    return st.one_of(_leaf(), un, bi, bi2, bi)


def _eval_strategy():
    return st.one_of(_tree(2), _tree(3), _tree(4)).map(lambda e: {"expr": e})


def _compare_strategy():
    return st.tuples(st.sampled_from(ref.COMPARISONS), _tree(2), _tree(2)).map(
        lambda t: {"op": t[0], "l": t[1], "r": t[2]})


def _term(depth):
    leaf = st.one_of(
        st.sampled_from([A("foo"), A("bar"), A("a"), A("b"), A("[]"), A("hello world")]),
        st.integers(-5, 5).map(I),
        st.sampled_from([2.5, 1.0, -0.5, 0.0]).map(Fl),
        st.integers(0, 2).map(lambda n: V(10 + n)),
        st.just(["str", "abc"]),
    )
    if depth == 0:
        return leaf
    sub = _term(depth - 1)
    comp = st.tuples(st.sampled_from(["foo", "g", "point", "f"]), st.lists(sub, min_size=1, max_size=3)).map(
        lambda t: ["cmp", t[0], t[1]])
    lst = st.tuples(st.lists(sub, max_size=3), st.sampled_from([None, None, V(10), A("b")])).map(
        lambda t: ref.mk_list(t[0], t[1]))
    return st.one_of(leaf, comp, comp, lst)


def _inspect_strategy():
    t = _term(3)
    small = st.one_of(st.just(V(0)), st.just(V(1)), st.sampled_from([A("foo"), A("a"), A("."), I(0), I(1), I(2), I(3)]))
    return st.one_of(
        st.tuples(st.sampled_from(ref.TYPE_TESTS), t).map(lambda x: {"pred": x[0], "args": [x[1]]}),
        st.tuples(t, small, small).map(lambda x: {"pred": "functor", "args": [x[0], x[1], x[2]]}),
        st.tuples(st.integers(0, 4), t, st.one_of(st.just(V(0)), _term(1))).map(
            lambda x: {"pred": "arg", "args": [I(x[0]), x[1], x[2]]}),
        st.tuples(t, st.one_of(st.just(V(0)), st.lists(st.one_of(small, _term(1)), max_size=4).map(
            lambda l: ref.mk_list(l)))).map(lambda x: {"pred": "=..", "args": [x[0], x[1]]}),
        st.tuples(st.lists(_term(1), max_size=4), st.sampled_from([None, None, V(0)]), st.one_of(
            st.just(V(1)), st.integers(0, 6).map(I))).map(
            lambda x: {"pred": "length", "args": [ref.mk_list(x[0], x[1]), x[2]]}),
        st.tuples(st.sampled_from([A("foo"), A("bar"), A("[]")]), st.integers(0, 4)).map(
            lambda x: {"pred": "functor", "args": [V(0), x[0], I(x[1])]}),
        st.tuples(st.sampled_from(["foo", "g"]), st.lists(_term(1), max_size=3)).map(
            lambda x: {"pred": "=..", "args": [V(0), ref.mk_list([A(x[0])] + x[1])]}),
    )


def render(case):
    if "expr" in case:
        return "%s is %s" % ("X" if case.get("lhs") is None else render_expr(case["lhs"]), render_expr(case["expr"]))
    if "op" in case:
        return "%s %s %s" % (render_expr(case["l"]), case["op"], render_expr(case["r"]))
    return render_goal(case["pred"], case["args"])


# ------------------------------------------------------------------------------------------------ known classes
#
# Narrow case classes for findings that are recorded but not repaired.  All are computed from the case (through
# the reference), never from ProbLog's behaviour.


def _case_exprs(case):
    if "expr" in case:
        return [case["expr"]]
    if "op" in case:
        return [case["l"], case["r"]]
    return []


def _nodes(case):
    out = []
    for e in _case_exprs(case):
        out.extend(ref.node_specs(e))
    return out


def _arg_values(node):
    """Per argument: list of admissible operand values, or None when the reference cannot tell (unchecked)."""
    res = []
    for a in node[2:]:
        try:
            s = ref.evaluate(a)
        except ref.TooBig:
            res.append(None)
            continue
        res.append(None if s.unchecked else s.values)
    return res


def has_intdiv_of_opposite_signs(case, failure=None):
    """Some `//` node whose operands can be integers of opposite sign with an inexact quotient (-7 // 2)."""
    for _path, node, _spec in _nodes(case):
        if node[1] == "//" and len(node) == 4:
            va, vb = _arg_values(node)
            for a in va or []:
                for b in vb or []:
                    if ref.is_int(a) and ref.is_int(b) and b != 0 and (a < 0) != (b < 0) and a % b != 0:
                        return True
    return False


def has_node_where_prolog_raises(case, failure=None):
    """Some function application where SWI/Yap raise an evaluation/type error (overflow, integer-only function on
    a float, string/atom operand...), i.e. where Python raises OverflowError/TypeError that compute_function does
    not convert."""
    for _path, _node, spec in _nodes(case):
        if spec is None or spec.error or spec.unchecked:
            return True
    return any(_has_leaf(e, ("str",)) for e in _case_exprs(case))


def has_negative_base_fractional_power(case, failure=None):
    """Some ** / ^ node whose base can be negative and whose exponent can be a non-integral float ((-8) ** 0.5);
    an operand the reference cannot evaluate (unchecked sub-expression) counts as 'can be'."""
    for _path, node, _spec in _nodes(case):
        if node[1] in ("**", "^") and len(node) == 4:
            va, vb = _arg_values(node)
            neg = va is None or any(ref.finite(a) and a < 0 for a in va)
            frac = vb is None or any(ref.is_float(b) and ref.finite(b) and b != math.floor(b) for b in vb)
            if neg and frac:
                return True
    return False


def _has_leaf(expr, kinds):
    if expr[0] == "call":
        return any(_has_leaf(a, kinds) for a in expr[2:])
    return expr[0] in kinds


def _pred_case(case, pred):
    return case.get("pred") == pred if isinstance(case, dict) else False


def is_list_of_partial_list(case, failure=None):
    return _pred_case(case, "is_list") and arg_kind(case["args"][0]) == "l"


def functor_constructs_term(case, failure=None):
    """functor(T, Name, N) with T unbound."""
    return _pred_case(case, "functor") and case["args"][0][0] == "var"


def functor_of_number(case, failure=None):
    """functor(Number, F, A)."""
    return _pred_case(case, "functor") and case["args"][0][0] in ("int", "flt")


def arg_selects_nonground_argument(case, failure=None):
    """arg(N, T, A) where the N-th argument of T contains a variable and A is not a variable foreign to T
    (so that unifying A with the argument has to bind a variable inside T)."""
    if not _pred_case(case, "arg"):
        return False
    n, t, a = case["args"]
    if n[0] != "int" or t[0] != "cmp" or not (1 <= n[1] <= len(t[2])):
        return False
    if not ref.term_vars(t[2][n[1] - 1]):
        return False
    return a[0] != "var" or a[1] in ref.term_vars(t)


def atom_number_of_bound_atom(case, failure=None):
    """atom_number(Atom, _) with Atom bound (in source text such an atom is necessarily quoted)."""
    return _pred_case(case, "atom_number") and case["args"][0][0] == "atom"


def succ_of_zero(case, failure=None):
    return _pred_case(case, "succ") and case["args"][0][0] == "var" and case["args"][1] == ["int", 0]


KNOWN_CLASSES = {
    "intdiv_opposite_signs": has_intdiv_of_opposite_signs,
    "prolog_raises_here": has_node_where_prolog_raises,
    "negative_base_fractional_power": has_negative_base_fractional_power,
    "is_list_partial_list": is_list_of_partial_list,
    "functor_constructs_term": functor_constructs_term,
    "functor_of_number": functor_of_number,
    "arg_nonground_argument": arg_selects_nonground_argument,
    "atom_number_bound_atom": atom_number_of_bound_atom,
    "succ_of_zero": succ_of_zero,
}

SUBCHECKS = [
    SubCheck("eval", check_eval, strategy=_eval_strategy, enumerate=enumerate_eval,
             budget={"quick": 8000, "thorough": 1200000}, timeout={"quick": 10, "thorough": 20}, render=render,
             exhaustive="X is f(a) / X is f(a,b) for the 31 unary and 21 binary documented functions and 5 constants "
                        "over integers -9..9,100,2^31,2^64 and floats -2.5,-0.5,0.0,0.5,1.0,2.5,1e10 (unary: 8 "
                        "more non-half floats; thorough: 49 values), all argument pairs, minus pairs that would build an integer of more than 4096 bits; "
                        "plus unbound/atom/string/inf/nan operands and `Lit is Expr`"),
    SubCheck("compare", check_compare, strategy=_compare_strategy, enumerate=enumerate_compare,
             budget={"quick": 3000, "thorough": 400000}, timeout={"quick": 10, "thorough": 20}, render=render,
             exhaustive="L op R for the 6 comparison operators over all pairs of the same value set, plus "
                        "unbound/atom/string/inf/nan/constant operands"),
    SubCheck("inspect", check_inspect, strategy=_inspect_strategy, enumerate=enumerate_inspect,
             budget={"quick": 3000, "thorough": 400000}, timeout={"quick": 10, "thorough": 20}, render=render,
             exhaustive="the 10 type tests over 36 argument shapes; every declared mode of between/3, succ/2, plus/3, "
                        "length/2, functor/3, arg/3, =../2, atom_number/2 over small argument sets"),
]
