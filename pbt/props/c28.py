"""C28 - Python and Prolog values convert losslessly (problog/pypl.py, problog/extern.py).

  roundtrip  pl2py(py2pl(v)) == v, with types (list vs tuple, int vs float) compared, for nested lists and tuples of
             length other than one built from ints, finite floats and strings (including quotes)
  extern     a generated Python module with a function exported through problog_export is written to the scratch
             directory, loaded by a generated ProbLog program with use_module and called; the value seen from
             ProbLog must be exactly the image of what the Python function returned

Case encoding (JSON): ints, floats and strings are themselves, a list is a JSON list, a tuple is {"t": [...]}.
"""
import hashlib
import itertools
import os
import sys
import tempfile
import types

from hypothesis import strategies as st

from pbt.core.api import Failure, Outcome, SubCheck
from pbt.core import plrun
from pbt.core.plrun import exc_signature, RESOURCE_ERRORS

PROPERTY_ID = "C28"
LEVEL = "exploration"
RULE = ("roundtrip: Hypothesis recursive values (leaves: small/large/negative ints; floats that are short decimals "
        "or arbitrary finite doubles; strings over an alphabet with ' \" \\ space, letters, digits and non-ASCII "
        "characters; containers: lists of any length and tuples of length 0 or >= 2, nested up to 12 leaves) and a "
        "bounded-exhaustive sub-space (all lists/tuples of length 0 or 2 over 9 leaves, nested twice, plus all "
        "length-3 containers over the leaves). Oracle: pl2py(py2pl(v)) equals v with identical container types and "
        "identical int/float typing. Non-trivial: nesting depth >= 2, or a string leaf with a quote character, or "
        "both int and float leaves. extern: a module generated from a template library (constant results of every "
        "type, +int/+int/-int, two int outputs, +str/+str/-str, +list/+list/-list, +term/-term, +float/-float, "
        "mixed +int/+str/+list with -int/-str/-list/-float, list building with nested tuples, term results built "
        "with py2pl) with case-supplied constants and arguments, called from 'query(f(args,X..))' or through a rule; "
        "for int-only outputs also with the outputs bound to the result and to a wrong value. Oracle: exactly one "
        "answer with probability 1 whose output arguments are py2pl(result) for int, float and list outputs, the "
        "returned Term itself for term outputs, and for str outputs the atom whose name is the Python string (the "
        "mapping documented by test/extern_test.pl) or the string constant py2pl gives. Non-trivial: the call was "
        "answered and compared and the function has input arguments or its result is structured (list/tuple of "
        "length >= 2, compound term, string of length >= 2). Distinct = distinct value / distinct (template, parameters, arguments, call form).")
ASSUMPTIONS = [
    "float leaves are finite (nan never equals itself; inf is not a ProbLog number)",
    "the Python result of an exported function is what the function body returned during the ProbLog call "
    "(recorded by the generated module itself through a recorder module placed in sys.modules)",
    "for '-str' outputs the documented image of a Python string is the atom with that name (test/extern_test.pl "
    "expects concat_str(a,b,ab)); py2pl's string constant is accepted as well",
    "'-term' functions return Term objects and '-list' functions return lists (documented argument types)",
    "for '-float'/'-int' outputs the image is py2pl(result), i.e. Constant's 15-decimal rounding of floats is "
    "judged by the roundtrip sub-check, not by extern",
]

# ------------------------------------------------------------------------------------------------ values


def decode(v):
    if isinstance(v, dict):
        return tuple(decode(x) for x in v["t"])
    if isinstance(v, list):
        return [decode(x) for x in v]
    return v


def encode(v):
    if isinstance(v, tuple):
        return {"t": [encode(x) for x in v]}
    if isinstance(v, list):
        return [encode(x) for x in v]
    return v


def first_difference(exp, got, path="v"):
    """None if got equals exp with identical types everywhere, else (kind, path, expected, got)."""
    if type(exp) is not type(got):
        kind = "structure" if isinstance(exp, (list, tuple)) or isinstance(got, (list, tuple)) else "type"
        return kind, path, exp, got
    if isinstance(exp, (list, tuple)):
        if len(exp) != len(got):
            return "structure", path, exp, got
        for i, (e, g) in enumerate(zip(exp, got)):
            d = first_difference(e, g, "%s[%d]" % (path, i))
            if d is not None:
                return d
        return None
    if exp != got:
        return type(exp).__name__, path, exp, got
    return None


def _walk(v):
    yield v
    if isinstance(v, (list, tuple)):
        for x in v:
            for y in _walk(x):
                yield y


def _depth(v):
    if isinstance(v, (list, tuple)):
        return 1 + max([_depth(x) for x in v] or [0])
    return 0


def has_quote_string(v):
    return any(isinstance(x, str) and ("'" in x or '"' in x) for x in _walk(v))


def has_float_beyond_15_decimals(v):
    return any(isinstance(x, float) and round(x, 15) != x for x in _walk(v))


def has_tuple_ending_in_tuple(v):
    return any(isinstance(x, tuple) and len(x) >= 2 and isinstance(x[-1], tuple) and len(x[-1]) >= 2
               for x in _walk(v))


def check_roundtrip(case):
    from problog.pypl import py2pl, pl2py

    v = decode(case["v"])
    feats = set()
    leaves = [x for x in _walk(v) if not isinstance(x, (list, tuple))]
    for x in _walk(v):
        feats.add("has:" + type(x).__name__)
    depth = _depth(v)
    feats.add("depth:%d" % min(depth, 5))
    quote = has_quote_string(v)
    if quote:
        feats.add("string-with-quote")
    nontrivial = depth >= 2 or quote or ({int, float} <= set(type(x) for x in leaves))
    try:
        term = py2pl(v)
        back = pl2py(term)
    except RESOURCE_ERRORS:
        raise
    except Exception as exc:
        return Outcome(nontrivial=nontrivial, features=sorted(feats),
                       failure=Failure("crash", "pl2py(py2pl(%r)): %r" % (v, exc), sig=exc_signature(exc)))
    d = first_difference(v, back)
    if d is not None:
        kind, path, e, g = d
        return Outcome(nontrivial=nontrivial, features=sorted(feats), failure=Failure(
            "roundtrip-mismatch", "pl2py(py2pl(%r)) = %r (Prolog term %s): at %s expected %r, got %r"
            % (v, back, term, path, e, g), sig="roundtrip-mismatch:" + kind))
    return Outcome(nontrivial=nontrivial, features=sorted(feats))


_ALPHABET = "abcXYZ019 _'\"\\,.()[]\u00e9\u4e2d\n"


def _leaf():
    ints = st.one_of(st.integers(-5, 5), st.integers(-10 ** 6, 10 ** 6), st.integers(-2 ** 70, 2 ** 70))
    short_floats = st.one_of(
        st.integers(-1000, 1000).map(lambda k: k / 8.0), st.integers(-10 ** 6, 10 ** 6).map(lambda k: k / 1000.0),
        st.integers(-50, 50).map(float), st.sampled_from([0.0, 1.0, -1.0, 0.5, 0.1, 1e10, 1e22, 1e300, -2.5e-3]))
    any_floats = st.floats(allow_nan=False, allow_infinity=False)
    plain = st.text(alphabet="abcXYZ019 _,.()[]\\\u00e9\u4e2d", max_size=6)
    quoted = st.text(alphabet=_ALPHABET, max_size=6)
    return st.one_of(ints, ints, short_floats, short_floats, any_floats, plain, plain, quoted)


def _value(max_leaves=12):
    return st.recursive(
        _leaf(),
        lambda ch: st.one_of(st.lists(ch, max_size=4),
                             st.lists(ch, max_size=4).filter(lambda l: len(l) != 1).map(tuple)),
        max_leaves=max_leaves)


def _roundtrip_strategy():
    # top level: always a container (the statement quantifies over nested lists and tuples)
    top = st.one_of(st.lists(_value(), max_size=4),
                    st.lists(_value(), max_size=4).filter(lambda l: len(l) != 1).map(tuple))
    return top.map(lambda v: {"v": encode(v)})


_ENUM_LEAVES = [0, 1, 1.0, -2, 0.5, "", "a", "'", '"']


def _roundtrip_enum(tier):
    leaves = _ENUM_LEAVES
    level1 = list(leaves)
    for mk in (list, tuple):
        level1.append(mk([]))
        for a, b in itertools.product(leaves, repeat=2):
            level1.append(mk([a, b]))
    for x in level1:
        if isinstance(x, (list, tuple)):
            yield {"v": encode(x)}
    for mk in (list, tuple):
        for a, b, c in itertools.product(leaves, repeat=3):
            yield {"v": encode(mk([a, b, c]))}
        for a, b in itertools.product(level1, repeat=2):
            if isinstance(a, (list, tuple)) or isinstance(b, (list, tuple)):
                yield {"v": encode(mk([a, b]))}


# ------------------------------------------------------------------------------------------------ extern

_HEADER = ("from problog.extern import problog_export\n"
           "from problog.logic import Term, Constant\n"
           "from problog.pypl import py2pl\n"
           "import c28_recorder\n\n\n"
           "def _rec(r):\n"
           "    c28_recorder.calls.append(r)\n"
           "    return r\n\n\n")


def _tmpl(sig, params, body):
    return {"sig": sig, "params": params, "body": body}


def _lit(v):
    return repr(decode(v))


def _term_src(t):
    """Python source of a Term from its JSON form {"f": name, "a": [...]} | {"c": number} | {"s": text}."""
    if "c" in t:
        return "Constant(%r)" % (t["c"],)
    if "s" in t:
        return "Constant(%r)" % ('"%s"' % t["s"],)
    return "Term(%s)" % ", ".join([repr(t["f"])] + [_term_src(a) for a in t["a"]])


def _term_pl(t):
    """ProbLog source of the same term (used for +term input arguments; only simple names/strings)."""
    if "c" in t:
        return repr(t["c"])
    if "s" in t:
        return '"%s"' % t["s"]
    if not t["a"]:
        return t["f"]
    return "%s(%s)" % (t["f"], ",".join(_term_pl(a) for a in t["a"]))


# template name -> (export signature, parameter names, function of params -> (argument names, return expression))
TEMPLATES = {
    "const_int": (["-int"], lambda p: ([], _lit(p["k"]))),
    "const_float": (["-float"], lambda p: ([], _lit(p["x"]))),
    "const_str": (["-str"], lambda p: ([], _lit(p["s"]))),
    "const_list": (["-list"], lambda p: ([], _lit(p["l"]))),
    "const_term": (["-term"], lambda p: ([], _term_src(p["t"]))),
    "term_pl": (["-term"], lambda p: ([], "py2pl(%s)" % _lit(p["v"]))),
    "int_affine": (["+int", "+int", "-int"], lambda p: (["a", "b"], "a * %s + b" % _lit(p["k"]))),
    "int_two": (["+int", "+int", "-int", "-int"], lambda p: (["a", "b"], "(a + b, a * b + %s)" % _lit(p["k"]))),
    "str_cat": (["+str", "+str", "-str"], lambda p: (["a", "b"], "a + %s + b" % _lit(p["s"]))),
    "list_cat": (["+list", "+list", "-list"], lambda p: (["a", "b"], "a + %s + b" % _lit(p["l"]))),
    "term_wrap": (["+term", "-term"], lambda p: (["a"], "Term(%r, a, %s)" % (p["f"], _term_src(p["t"])))),
    "float_scale": (["+float", "-float"], lambda p: (["x"], "x * %s" % _lit(p["x"]))),
    "mixed": (["+int", "+str", "+list", "-int", "-str", "-list", "-float"],
              lambda p: (["a", "s", "l"], "(len(l) + a, s + s, [a, s, l, %s], a / 4.0)" % _lit(p["v"]))),
    "list_build": (["+int", "+str", "-list"],
                   lambda p: (["a", "s"], "[a, s, (a, s), [s], (), %s]" % _lit(p["v"]))),
}


def module_source(case):
    sig, mk = TEMPLATES[case["template"]]
    argnames, expr = mk(case["params"])
    return _HEADER + "@problog_export(%s)\ndef c28_f(%s):\n    return _rec(%s)\n" % (
        ", ".join(repr(s) for s in sig), ", ".join(argnames), expr)


def _arg_pl(kind, a):
    if kind == "int":
        return str(int(a))
    if kind == "float":
        return repr(float(a))
    if kind == "str":  # {"atom": name} | {"string": text}
        return a["atom"] if "atom" in a else '"%s"' % a["string"]
    if kind == "list":
        return "[%s]" % ",".join(_elem_pl(x) for x in a)
    if kind == "term":
        return _term_pl(a)
    raise ValueError(kind)


def _elem_pl(x):
    if isinstance(x, list):
        return "[%s]" % ",".join(_elem_pl(y) for y in x)
    if isinstance(x, dict):
        return _arg_pl("str", x)
    if isinstance(x, float):
        return repr(x)
    return str(x)


def program_source(case, path, outputs=None):
    sig = TEMPLATES[case["template"]][0]
    ins = [s[1:] for s in sig if s[0] == "+"]
    nout = len([s for s in sig if s[0] == "-"])
    args = [_arg_pl(k, a) for k, a in zip(ins, case["args"])]
    outs = ["X%d" % i for i in range(nout)] if outputs is None else [str(o) for o in outputs]
    call = "c28_f(%s)" % ",".join(args + outs)
    src = ":- use_module('%s').\n" % path
    if case.get("via") == "rule" and outputs is None:
        head = "c28_p(%s)" % ",".join(outs)
        src += "%s :- %s.\nquery(%s).\n" % (head, call, head)
    else:
        src += "query(%s).\n" % call
    return src


def term_shape(t):
    """Structure of a Prolog term with the Python types of its functors (Constant(1) vs Constant(1.0) vs Term)."""
    from problog.logic import Constant, Term

    if isinstance(t, Constant):
        return ("const", type(t.functor).__name__, t.functor)
    if isinstance(t, Term):
        return ("term", type(t.functor).__name__, t.functor, tuple(term_shape(a) for a in t.args))
    return ("other", type(t).__name__, repr(t))


def expected_images(kind, r):
    """Accepted ProbLog images (term shapes) of the Python result r for an output argument of the given type."""
    from problog.logic import Term
    from problog.pypl import py2pl

    if kind == "term":
        return [term_shape(r)]
    if kind == "str":
        return [term_shape(Term(r)), term_shape(py2pl(r))]
    return [term_shape(py2pl(r))]


def _structured(r):
    from problog.logic import Term

    if isinstance(r, (list, tuple)):
        return len(r) >= 2
    if isinstance(r, str):
        return len(r) >= 2
    if isinstance(r, Term):
        return r.arity > 0
    return False


def check_extern(case):
    sig = TEMPLATES[case["template"]][0]
    ins = [s for s in sig if s[0] == "+"]
    outs = [s[1:] for s in sig if s[0] == "-"]
    feats = {"template:" + case["template"], "via:" + case.get("via", "query")}
    for o in outs:
        feats.add("out:" + o)
    modsrc = module_source(case)
    name = "c28_%s_%d" % (hashlib.sha1(modsrc.encode("utf8")).hexdigest()[:12], os.getpid())
    path = os.path.join(tempfile.gettempdir(), name + ".py")
    recorder = types.ModuleType("c28_recorder")
    recorder.calls = []
    saved = sys.modules.get("c28_recorder")
    sys.modules["c28_recorder"] = recorder
    try:
        with open(path, "w", encoding="utf8") as f:
            f.write("# -*- coding: utf-8 -*-\n" + modsrc)
        src = program_source(case, path)
        sample = {"module": modsrc[len(_HEADER):], "program": src.replace(path, "<scratch>/" + name + ".py")}
        res = plrun.run_problog(src, keep_raw=True)
        if res[0] == "resource":
            return Outcome(inconclusive=res[1], features=sorted(feats))
        if res[0] != "ok":
            return Outcome(nontrivial=True, features=sorted(feats), sample=sample, classes=[res[0]], failure=Failure(
                "extern-call-failed", "program\n%s\nwith module\n%s\ngave %r" % (src, modsrc, res),
                sig="extern-call-failed:%s" % (res[1],)))
        answers = list(res[1].items())
        if len(recorder.calls) < 1:
            return Outcome(nontrivial=True, features=sorted(feats), sample=sample, failure=Failure(
                "extern-not-called", "the exported function was never called; answers %r\n%s" % (answers, src)))
        result = recorder.calls[-1]
        results = [result] if len(outs) == 1 else list(result)
        if len(answers) != 1 or not plrun.close(answers[0][1], 1.0):
            return Outcome(nontrivial=True, features=sorted(feats), sample=sample, failure=Failure(
                "extern-answers", "expected exactly one answer with probability 1, got %r; Python result %r\n%s"
                % (answers, result, src)))
        key = answers[0][0]
        seen = key.args[len(key.args) - len(outs):]
        for i, (kind, r, t) in enumerate(zip(outs, results, seen)):
            if term_shape(t) not in expected_images(kind, r):
                return Outcome(nontrivial=True, features=sorted(feats), sample=sample, failure=Failure(
                    "extern-result-mismatch",
                    "output %d (-%s): Python returned %r, ProbLog sees %s %r, expected one of %r\nprogram:\n%s\nmodule:\n%s"
                    % (i, kind, r, t, term_shape(t), expected_images(kind, r), src, modsrc),
                    sig="extern-result-mismatch:" + kind))
        classes = ["answered"]
        if case.get("bound") and all(o == "int" for o in outs):
            feats.add("bound-outputs")
            good = [int(r) for r in results]
            bad = good[:-1] + [good[-1] + 1]
            for outputs, want in ((good, 1.0), (bad, 0.0)):
                src2 = program_source(case, path, outputs=outputs)
                res2 = plrun.run_problog(src2, keep_raw=True)
                if res2[0] == "resource":
                    return Outcome(inconclusive=res2[1], features=sorted(feats))
                probs = [p for _, p in res2[1].items()] if res2[0] == "ok" else None
                ok = probs is not None and (all(plrun.close(p, want) for p in probs) and (want == 0.0 or len(probs) == 1))
                if not ok:
                    return Outcome(nontrivial=True, features=sorted(feats), sample=sample, failure=Failure(
                        "extern-bound-output", "Python result %r; with outputs bound to %r expected probability %r, got %r\n%s"
                        % (result, outputs, want, res2, src2), sig="extern-bound-output:%s" % ("accept" if want else "reject")))
            classes.append("bound-checked")
            if len(outs) >= 2:
                # exactly ONE output bound by the caller, the others free: a matching value must succeed with the
                # Python values for the free outputs, a different value must fail
                feats.add("partially-bound-outputs")
                for k in range(len(outs)):
                    for delta, want in ((0, 1.0), (1, 0.0)):
                        outputs = ["_"] * len(outs)
                        outputs[k] = good[k] + delta
                        src2 = program_source(case, path, outputs=outputs)
                        res2 = plrun.run_problog(src2, keep_raw=True)
                        if res2[0] == "resource":
                            return Outcome(inconclusive=res2[1], features=sorted(feats))
                        ok = res2[0] == "ok"
                        if ok:
                            live = [(t, p) for t, p in res2[1].items() if not plrun.close(p, 0.0)]
                            if want == 0.0:
                                ok = not live
                            else:
                                ok = len(live) == 1 and plrun.close(live[0][1], 1.0)
                                if ok:
                                    seen2 = live[0][0].args[len(live[0][0].args) - len(outs):]
                                    ok = all(term_shape(t) in expected_images("int", r) for t, r in zip(seen2, good))
                        if not ok:
                            return Outcome(nontrivial=True, features=sorted(feats), sample=sample, failure=Failure(
                                "extern-bound-output",
                                "Python result %r; with output %d bound to %r and the others free expected %s, got %r\n%s"
                                % (result, k, outputs[k], "the Python values with probability 1" if want else "failure", res2, src2),
                                sig="extern-bound-output:partial-%s" % ("accept" if want else "reject")))
                classes.append("partially-bound-checked")
        nontrivial = bool(ins) or any(_structured(r) for r in results)
        sample["python_result"] = repr(result)
        sample["seen"] = str(key)
        return Outcome(nontrivial=nontrivial, features=sorted(feats), classes=classes, sample=sample)
    except RESOURCE_ERRORS:
        raise
    except Exception as exc:  # generated module or oracle plumbing failed in an unexpected way
        return Outcome(nontrivial=True, features=sorted(feats), failure=Failure(
            "crash", "extern case %r: %r" % (case, exc), sig=exc_signature(exc)))
    finally:
        if saved is not None:
            sys.modules["c28_recorder"] = saved
        else:
            sys.modules.pop("c28_recorder", None)
        try:
            os.remove(path)
        except OSError:
            pass


# generators of template parameters and arguments

_NAME = st.sampled_from(["a", "b", "foo", "x1", "a_b", "cD"])
_SAFE_TEXT = st.text(alphabet="abcXY01 _", max_size=5)


def _small_value():
    """Values an exported function may put into lists: ints, floats, strings (with quotes), nested lists, tuples."""
    return _value(max_leaves=6)


def _term_json():
    leaf = st.one_of(_NAME.map(lambda n: {"f": n, "a": []}), st.integers(-9, 9).map(lambda k: {"c": k}),
                     st.sampled_from([0.5, 2.0, -1.25, 1e-3]).map(lambda x: {"c": x}),
                     _SAFE_TEXT.map(lambda s: {"s": s}))
    return st.recursive(leaf, lambda ch: st.tuples(_NAME, st.lists(ch, min_size=1, max_size=3)).map(
        lambda t: {"f": t[0], "a": t[1]}), max_leaves=5)


def _str_arg():
    return st.one_of(_NAME.map(lambda n: {"atom": n}), _SAFE_TEXT.map(lambda s: {"string": s}))


def _list_arg():
    elem = st.one_of(st.integers(-9, 9), st.sampled_from([0.5, 2.0, -1.25]), _str_arg())
    return st.recursive(st.lists(elem, max_size=3), lambda ch: st.lists(st.one_of(elem, ch), max_size=3), max_leaves=6)


_INT = st.integers(-50, 50)
_FLOAT = st.one_of(st.integers(-400, 400).map(lambda k: k / 8.0), st.sampled_from([0.1, 1e-3, 2.5e10, -0.3]))
_STR_OUT = st.text(alphabet="abXYZ01 _'\"\\\u00e9", max_size=5)


def _extern_strategy():
    def enc(v):
        return encode(v)

    lst = st.lists(_small_value(), max_size=4).map(enc)
    val = _small_value().map(enc)
    options = [
        st.tuples(st.just("const_int"), st.fixed_dictionaries({"k": st.integers(-10 ** 9, 10 ** 9)}), st.just([])),
        st.tuples(st.just("const_float"), st.fixed_dictionaries({"x": st.one_of(_FLOAT, st.floats(allow_nan=False, allow_infinity=False))}), st.just([])),
        st.tuples(st.just("const_str"), st.fixed_dictionaries({"s": _STR_OUT}), st.just([])),
        st.tuples(st.just("const_list"), st.fixed_dictionaries({"l": lst}), st.just([])),
        st.tuples(st.just("const_term"), st.fixed_dictionaries({"t": _term_json()}), st.just([])),
        st.tuples(st.just("term_pl"), st.fixed_dictionaries({"v": val}), st.just([])),
        st.tuples(st.just("int_affine"), st.fixed_dictionaries({"k": _INT}), st.tuples(_INT, _INT).map(list)),
        st.tuples(st.just("int_two"), st.fixed_dictionaries({"k": _INT}), st.tuples(_INT, _INT).map(list)),
        st.tuples(st.just("str_cat"), st.fixed_dictionaries({"s": _STR_OUT}), st.tuples(_str_arg(), _str_arg()).map(list)),
        st.tuples(st.just("list_cat"), st.fixed_dictionaries({"l": lst}), st.tuples(_list_arg(), _list_arg()).map(list)),
        st.tuples(st.just("term_wrap"), st.fixed_dictionaries({"f": _NAME, "t": _term_json()}), st.tuples(_term_json()).map(list)),
        st.tuples(st.just("float_scale"), st.fixed_dictionaries({"x": _FLOAT}), st.tuples(_FLOAT).map(list)),
        st.tuples(st.just("mixed"), st.fixed_dictionaries({"v": val}), st.tuples(_INT, _str_arg(), _list_arg()).map(list)),
        st.tuples(st.just("list_build"), st.fixed_dictionaries({"v": val}), st.tuples(_INT, _str_arg()).map(list)),
    ]
    # draw the template index first (uniformly), then its parameters
    pick = st.integers(0, len(options) - 1).flatmap(lambda i: options[i])
    return st.tuples(pick, st.sampled_from(["query", "rule"]), st.booleans()).map(
        lambda t: {"template": t[0][0], "params": t[0][1], "args": t[0][2], "via": t[1], "bound": t[2]})


def render_extern(case):
    return {"module": module_source(case)[len(_HEADER):], "program": program_source(case, "<scratch>/c28_mod.py")}


KNOWN_CLASSES = {
    # D8: pl2py removes every quote character from a string
    "string_with_quote": lambda case, failure: "v" in case and has_quote_string(decode(case["v"])),
    # Constant rounds floats to 15 decimals (Constant.FLOAT_PRECISION), so py2pl already loses the value
    "float_beyond_15_decimals": lambda case, failure: "v" in case and has_float_beyond_15_decimals(decode(case["v"])),
    # a tuple whose last element is a tuple of length >= 2 becomes one right-nested ','/2 term and comes back flattened
    "tuple_ending_in_tuple": lambda case, failure: "v" in case and has_tuple_ending_in_tuple(decode(case["v"])),
}

SUBCHECKS = [
    SubCheck("roundtrip", check_roundtrip, strategy=_roundtrip_strategy, enumerate=_roundtrip_enum,
             budget={"quick": 8000, "thorough": 300000}, timeout={"quick": 5, "thorough": 5},
             exhaustive="leaves {0,1,1.0,-2,0.5,'','a',\"'\",'\"'}; all lists/tuples of length 0 or 2 over the leaves; all "
                        "lists/tuples of length 3 over the leaves; all lists/tuples of length 2 over (leaves + those "
                        "containers) with at least one container element"),
    SubCheck("extern", check_extern, strategy=_extern_strategy, budget={"quick": 640, "thorough": 16000},
             timeout={"quick": 20, "thorough": 30}, render=render_extern),
]
