"""C12 - the built-in semirings obey their algebra and the documented base-class defaults.

Four sub-checks (problog/evaluator.py):

  laws          commutative-semiring laws of SemiringProbability (on probabilities) and of
                SemiringLogProbability (on their logarithms) for a triple (a, b, c)
  log_image     SemiringLogProbability is the logarithmic image of SemiringProbability:
                plus, times, negate, normalize, value, ad_complement correspond
  symbolic      SemiringSymbolic: the strings it builds, evaluated numerically by a safe evaluator, satisfy the
                same laws
  base_defaults the defaults of the base class Semiring through minimal subclasses (and through SemiringSymbolic,
                which inherits is_one/is_zero): is_one(one()), is_zero(zero()), normalize(a, one()) == a
"""
import ast
import itertools
import math

from hypothesis import strategies as st

from pbt.core.api import Failure, Outcome, SubCheck
from pbt.core.plrun import exc_signature, RESOURCE_ERRORS

PROPERTY_ID = "C12"
LEVEL = "exploration"
RULE = ("laws: triples (a,b,c) of probabilities, bounded-exhaustive over a 41-point grid of [0,1] (0, 1, denormal/"
        "1e-300..1e-3, mid-range, 1-1e-6..1-1e-16) = 41^3 triples, plus Hypothesis floats in [0,1] mixed with grid "
        "points; commutativity, associativity, identities, annihilation and distributivity are evaluated in "
        "SemiringProbability on (a,b,c) and in SemiringLogProbability on (log a, log b, log c) (log 0 = -inf). "
        "log_image: pairs (a,b) (41^2 grid + Hypothesis) for plus/times/negate/normalize/value and weight lists ws "
        "with sum <= 1 for ad_complement; the log-space result is compared with the logarithm of the probability-"
        "space result. symbolic: operand triples built as expression trees (plus/times/negate over atoms '0', '1', "
        "decimal literals and identifiers) through SemiringSymbolic itself, with a numeric environment for the "
        "identifiers; exhaustive over 7 fixed operands (7^3) plus Hypothesis trees. base_defaults: minimal "
        "subclasses of Semiring over 8 carriers (int, float, bool, str, tuple, Fraction-like pair, tropical min-plus, "
        "log), the in-tree subclasses that inherit the defaults (SemiringSymbolic: is_one/is_zero; tasks.mpe "
        "SemiringMPEState/SemiringMinPEState: all three) x the three stated defaults x values. "
        "Non-trivial: laws - a, b, c all strictly inside (0,1) and not all equal; log_image - pair with both "
        "operands strictly inside (0,1) and different, or a weight list with >= 2 non-zero weights; symbolic - at "
        "least one compound operand, no operand is the literal '0' or '1' and the three operands denote pairwise "
        "different numbers; base_defaults - every case (each evaluates one stated default on one carrier/value). "
        "Distinct = distinct case (operand tuple / expression trees / carrier-default-value).")
ASSUMPTIONS = [
    "floating tolerance: |x-y| <= 1e-9 + 1e-9*max(|x|,|y|) on probabilities (log-space results compared after exp); "
    "additionally |x-y| <= 1e-9 directly in log space where no documented threshold (1e-9 in value, 1e-10 in "
    "negate) and no underflow of the probability-space result is involved",
    "the logarithm of an internal probability a is math.log(a) with log 0 = -inf (not SemiringLogProbability.value, "
    "which is itself under test)",
    "domains: probabilities in [0,1]; normalize(a,z) with 0 <= a <= z and z > 0; ad_complement on weights whose sum "
    "is <= 1; symbolic atoms are what SemiringSymbolic.value produces from numbers and identifiers",
    "a symbolic value denotes the number obtained by evaluating its text as an arithmetic expression (safe AST "
    "evaluator, + - * / only); besides the laws the check also asserts plus/times/negate denote +, * and 1-x",
]

TOL = 1e-9
NINF = float("-inf")


def _close(x, y):
    if x == y:
        return True
    if math.isnan(x) or math.isnan(y) or math.isinf(x) or math.isinf(y):
        return False
    return abs(x - y) <= TOL + TOL * max(abs(x), abs(y))


def _close_log(x, y):
    """Closeness of two log-space values: equal (incl. both -inf) or within 1e-9 absolute (= relative 1e-9 on the
    probabilities)."""
    if x == y:
        return True
    if math.isnan(x) or math.isnan(y) or math.isinf(x) or math.isinf(y):
        return False
    return abs(x - y) <= TOL + 1e-12 * max(abs(x), abs(y))


def _log(a):
    return math.log(a) if a > 0 else NINF


def _exp(x):
    try:
        return math.exp(x)
    except OverflowError:
        return float("inf")


GRID = [0.0, 5e-324, 2.2250738585072014e-308, 1e-300, 1e-200, 1e-100, 1e-50, 1e-20, 1e-16, 1e-12, 1e-10,
        9.99e-10, 1e-9, 1e-8, 1e-6, 1e-3, 0.01, 0.05, 0.1, 0.2, 0.25, 0.3, 1.0 / 3.0, 0.4, 0.5, 0.6, 2.0 / 3.0,
        0.7, 0.75, 0.8, 0.9, 0.95, 0.99, 0.999, 1 - 1e-6, 1 - 1e-9, 1 - 1e-10, 1 - 1e-12, 1 - 1e-15,
        0.9999999999999999, 1.0]
assert len(GRID) == 41 and len(set(GRID)) == 41


def _prob():
    return st.one_of(st.floats(0.0, 1.0, allow_nan=False), st.floats(0.0, 1.0, allow_nan=False),
                     st.sampled_from(GRID),
                     st.floats(0.0, 1e-6, allow_nan=False), st.floats(0.0, 1e-6, allow_nan=False).map(lambda x: 1.0 - x))


def _fail(kind, detail, feats=()):
    return Outcome(nontrivial=True, features=sorted(feats), failure=Failure(kind, detail))


def _crash(exc, detail, feats=()):
    return Outcome(nontrivial=True, features=sorted(feats),
                   failure=Failure("crash", "%s: %r" % (detail, exc), sig=exc_signature(exc)))


# ------------------------------------------------------------------------------------------------ laws


def _laws(sr, a, b, c, eq, show):
    """Yield (law name, lhs, rhs) violations of the commutative-semiring laws for the operands a, b, c."""
    one, zero = sr.one(), sr.zero()
    p, t = sr.plus, sr.times
    laws = [
        ("plus-commutative", lambda: (p(a, b), p(b, a))),
        ("times-commutative", lambda: (t(a, b), t(b, a))),
        ("plus-associative", lambda: (p(p(a, b), c), p(a, p(b, c)))),
        ("times-associative", lambda: (t(t(a, b), c), t(a, t(b, c)))),
        ("plus-identity", lambda: (p(a, zero), a)),
        ("plus-identity-left", lambda: (p(zero, a), a)),
        ("times-identity", lambda: (t(a, one), a)),
        ("times-identity-left", lambda: (t(one, a), a)),
        ("times-annihilation", lambda: (t(a, zero), zero)),
        ("times-annihilation-left", lambda: (t(zero, a), zero)),
        ("distributive", lambda: (t(a, p(b, c)), p(t(a, b), t(a, c)))),
        ("distributive-right", lambda: (t(p(a, b), c), p(t(a, c), t(b, c)))),
    ]
    for name, f in laws:
        lhs, rhs = f()
        if not eq(lhs, rhs):
            return name, "%s: lhs=%s rhs=%s" % (name, show(lhs), show(rhs))
    return None


def check_laws(case):
    from problog.evaluator import SemiringProbability, SemiringLogProbability

    a, b, c = float(case["a"]), float(case["b"]), float(case["c"])
    feats = set()
    for x in (a, b, c):
        feats.add("operand:" + ("0" if x == 0 else "1" if x == 1 else "tiny" if x < 1e-9 else
                                "near1" if x > 1 - 1e-9 else "mid"))
    nontrivial = all(0.0 < x < 1.0 for x in (a, b, c)) and not (a == b == c)
    try:
        bad = _laws(SemiringProbability(), a, b, c, _close, repr)
        if bad:
            return _fail("law-violated:probability:" + bad[0],
                         "SemiringProbability a=%r b=%r c=%r %s" % (a, b, c, bad[1]), feats)
        la, lb, lc = _log(a), _log(b), _log(c)
        slog = SemiringLogProbability()
        bad = _laws(slog, la, lb, lc, _close_log, repr)
        if bad:
            return _fail("law-violated:logprobability:" + bad[0],
                         "SemiringLogProbability on logs of a=%r b=%r c=%r (%r, %r, %r) %s" % (a, b, c, la, lb, lc, bad[1]),
                         feats)
    except RESOURCE_ERRORS:
        raise
    except Exception as exc:
        return _crash(exc, "laws a=%r b=%r c=%r" % (a, b, c), feats)
    return Outcome(nontrivial=nontrivial, features=sorted(feats))


def _laws_strategy():
    return st.tuples(_prob(), _prob(), _prob()).map(lambda t: {"a": t[0], "b": t[1], "c": t[2]})


def _laws_enum(tier):
    for a, b, c in itertools.product(GRID, repeat=3):
        yield {"a": a, "b": b, "c": c}


# ------------------------------------------------------------------------------------------------ log image

NORMAL_MIN = 1e-300  # probability-space results below this may have lost precision to underflow


def _image(name, got_log, exp_prob, strict, detail, feats):
    """got_log = result of the log semiring, exp_prob = result of the probability semiring."""
    if isinstance(got_log, float) and math.isnan(got_log):
        return _fail("log-image:" + name, "%s: log semiring gave nan, probability semiring %r" % (detail, exp_prob), feats)
    if not _close(_exp(got_log), exp_prob):
        return _fail("log-image:" + name, "%s: exp(log-semiring result %r) = %r but probability semiring gives %r"
                     % (detail, got_log, _exp(got_log), exp_prob), feats)
    if strict and exp_prob >= NORMAL_MIN and not _close_log(got_log, math.log(exp_prob)):
        return _fail("log-image:" + name, "%s: log-semiring result %r but log(probability-semiring result %r) = %r"
                     % (detail, got_log, exp_prob, math.log(exp_prob)), feats)
    return None


def check_log_image(case):
    from problog.evaluator import SemiringProbability, SemiringLogProbability

    sp, sl = SemiringProbability(), SemiringLogProbability()
    feats = set()
    try:
        if "ws" in case:
            ws = [float(w) for w in case["ws"]]
            feats.add("ad_complement:n=%d" % min(len(ws), 4))
            exp = sp.ad_complement(list(ws))
            got = sl.ad_complement([_log(w) for w in ws])
            # 1 - sum is thresholded at 1e-10 in log space (negate), compare after exp only when the complement is small
            strict = exp >= 1e-5
            out = _image("ad_complement", got, exp, strict, "ws=%r" % (ws,), feats)
            if out:
                return out
            return Outcome(nontrivial=sum(1 for w in ws if w > 0) >= 2, features=sorted(feats))
        a, b = float(case["a"]), float(case["b"])
        la, lb = _log(a), _log(b)
        feats.add("pair")
        d = "a=%r b=%r" % (a, b)
        out = _image("plus", sl.plus(la, lb), sp.plus(a, b), True, d, feats) or \
            _image("times", sl.times(la, lb), sp.times(a, b), True, d, feats)
        if out:
            return out
        for x, lx in ((a, la), (b, lb)):
            # negate: log space maps arguments above 1-1e-10 to zero; strict only where 1-x keeps 1e-9 relative accuracy
            out = _image("negate", sl.negate(lx), sp.negate(x), 1e-300 <= x <= 1 - 1e-5, "a=%r" % x, feats)
            if out:
                return out
            # value: external probability -> internal value; log space maps |v| < 1e-9 to zero
            out = _image("value", sl.value(x), sp.value(x), x >= 1e-9, "v=%r" % x, feats)
            if out:
                return out
            if not _close(sl.result(sl.value(x)), sp.result(sp.value(x))):
                return _fail("log-image:result", "result(value(%r)): log %r, probability %r"
                             % (x, sl.result(sl.value(x)), sp.result(sp.value(x))), feats)
            # pos_value / neg_value are value and negate(value)
            out = _image("neg_value", sl.neg_value(x), sp.neg_value(x), 1e-9 <= x <= 1 - 1e-5, "v=%r" % x, feats)
            if out:
                return out
        lo, hi = (a, b) if a <= b else (b, a)
        if hi > 0:
            feats.add("normalize")
            out = _image("normalize", sl.normalize(_log(lo), _log(hi)), sp.normalize(lo, hi), True,
                         "a=%r z=%r" % (lo, hi), feats)
            if out:
                return out
        # identities correspond as well
        if not (_close(_exp(sl.one()), sp.one()) and _close(_exp(sl.zero()), sp.zero())):
            return _fail("log-image:constants", "one/zero do not correspond", feats)
    except RESOURCE_ERRORS:
        raise
    except Exception as exc:
        return _crash(exc, "log_image %r" % (case,), feats)
    return Outcome(nontrivial=(0.0 < a < 1.0 and 0.0 < b < 1.0 and a != b), features=sorted(feats))


def _scale(ws):
    s = sum(ws)
    if s > 1.0:
        ws = [w / s for w in ws]
        while sum(ws) > 1.0:  # rounding: stay inside the domain sum <= 1
            ws = [w * (1 - 1e-15) for w in ws]
    return ws


def _log_image_strategy():
    pairs = st.tuples(_prob(), _prob()).map(lambda t: {"a": t[0], "b": t[1]})
    ws = st.lists(_prob(), min_size=0, max_size=6).map(lambda l: {"ws": _scale(l)})
    return st.one_of(pairs, pairs, pairs, ws)


_AD_FIXED = [[], [0.0], [1.0], [0.5, 0.5], [0.3, 0.3, 0.4], [0.1, 0.2], [1e-300, 0.5], [0.0, 0.0, 1.0],
             [1.0 / 3.0, 1.0 / 3.0, 1.0 / 3.0], [0.25, 0.25, 0.25, 0.25], [1e-12, 1 - 1e-6], [0.9999999999999999],
             [0.2, 0.0, 0.3], [1e-9, 1e-9], [5e-324, 5e-324]]


def _log_image_enum(tier):
    for a, b in itertools.product(GRID, repeat=2):
        yield {"a": a, "b": b}
    for ws in _AD_FIXED:
        yield {"ws": _scale(ws)}
    for a, b, c in itertools.product([0.0, 1e-12, 0.1, 0.25, 1.0 / 3.0, 0.5], repeat=3):
        if a + b + c <= 1.0:
            yield {"ws": [a, b, c]}


# ------------------------------------------------------------------------------------------------ symbolic

_ALLOWED_BIN = {ast.Add: lambda x, y: x + y, ast.Sub: lambda x, y: x - y, ast.Mult: lambda x, y: x * y,
                ast.Div: lambda x, y: x / y}


def safe_eval(text, env):
    """Evaluate an arithmetic expression (numbers, identifiers, + - * /, parentheses) without eval()."""
    tree = ast.parse(text.strip(), mode="eval")

    def ev(n):
        if isinstance(n, ast.Expression):
            return ev(n.body)
        if isinstance(n, ast.Constant) and type(n.value) in (int, float):
            return float(n.value)
        if isinstance(n, ast.Name):
            return float(env[n.id])
        if isinstance(n, ast.BinOp) and type(n.op) in _ALLOWED_BIN:
            return _ALLOWED_BIN[type(n.op)](ev(n.left), ev(n.right))
        if isinstance(n, ast.UnaryOp) and isinstance(n.op, (ast.USub, ast.UAdd)):
            v = ev(n.operand)
            return -v if isinstance(n.op, ast.USub) else v
        raise ValueError("not an arithmetic expression: %r" % text)

    return ev(tree)


def _sym_value(sr, tree, env):
    """Build the symbolic value of an expression tree with the semiring's own operations.
    Returns (symbolic string, reference number computed directly on the tree)."""
    if "atom" in tree:
        a = tree["atom"]
        if isinstance(a, str):  # identifier: external value is a term whose text is the identifier
            return sr.value(a), float(env[a])
        return sr.value(a), float(a)  # number: external value is the number
    op = tree["op"]
    if op == "negate":
        s, v = _sym_value(sr, tree["x"], env)
        return sr.negate(s), 1.0 - v
    s1, v1 = _sym_value(sr, tree["l"], env)
    s2, v2 = _sym_value(sr, tree["r"], env)
    if op == "plus":
        return sr.plus(s1, s2), v1 + v2
    if op == "times":
        return sr.times(s1, s2), v1 * v2
    raise ValueError(op)


def check_symbolic(case):
    from problog.evaluator import SemiringSymbolic

    sr = SemiringSymbolic()
    env = case["env"]
    feats = set()
    try:
        ops = []
        for key in ("x", "y", "z"):
            s, ref = _sym_value(sr, case[key], env)
            got = safe_eval(s, env)
            feats.add("operand:" + ("atom" if "atom" in case[key] else case[key]["op"]))
            if s in ("0", "1"):
                feats.add("operand-literal:" + s)
            if not _close(got, ref):
                return _fail("symbolic-denotation",
                             "operand %s built from %r is %r which evaluates to %r, expected %r (env %r)"
                             % (key, case[key], s, got, ref, env), feats)
            ops.append(s)
        x, y, z = ops
        ev = lambda s: safe_eval(s, env)
        vx, vy, vz = ev(x), ev(y), ev(z)
        # the operations denote +, *, 1-x
        for name, s, ref in (("plus", sr.plus(x, y), vx + vy), ("times", sr.times(x, y), vx * vy),
                             ("negate", sr.negate(x), 1.0 - vx), ("times", sr.times(y, z), vy * vz),
                             ("plus", sr.plus(y, z), vy + vz)):
            if not _close(ev(s), ref):
                return _fail("symbolic-denotation:" + name, "%s on %r, %r (, %r) gives %r = %r, expected %r (env %r)"
                             % (name, x, y, z, s, ev(s), ref, env), feats)
        # normalize(a, z) denotes a / z (the expression of a conditional probability); z ranges over arbitrary
        # trees, in particular products and sums
        for a_s, a_v, z_s, z_v in ((x, vx, z, vz), (y, vy, sr.times(x, z), vx * vz), (x, vx, sr.plus(y, z), vy + vz),
                                   (z, vz, sr.times(sr.plus(x, y), sr.negate(z)), (vx + vy) * (1.0 - vz))):
            if abs(z_v) > 1e-6:
                s_n = sr.normalize(a_s, z_s)
                feats.add("normalize")
                if not _close(ev(s_n), a_v / z_v):
                    return _fail("symbolic-denotation:normalize", "normalize(%r, %r) gives %r = %r, expected %r (env %r)"
                                 % (a_s, z_s, s_n, ev(s_n), a_v / z_v, env), feats)
        bad = _laws(sr, x, y, z, lambda l, r: _close(ev(l), ev(r)), lambda s: "%r=%r" % (s, ev(s)))
        if bad:
            return _fail("law-violated:symbolic:" + bad[0],
                         "SemiringSymbolic x=%r y=%r z=%r env=%r %s" % (x, y, z, env, bad[1]), feats)
    except RESOURCE_ERRORS:
        raise
    except Exception as exc:
        return _crash(exc, "symbolic %r" % (case,), feats)
    compound = any("atom" not in case[k] for k in ("x", "y", "z"))
    distinct = not (_close(vx, vy) or _close(vy, vz) or _close(vx, vz))
    literal = any(s in ("0", "1") for s in ops)
    return Outcome(nontrivial=compound and distinct and not literal, features=sorted(feats),
                   sample={"x": x, "y": y, "z": z, "env": env})


_IDS = ["p", "q", "r"]


def _sym_atom():
    return st.one_of(st.sampled_from(_IDS), st.sampled_from(_IDS),
                     st.sampled_from([0, 1, 0.0, 1.0, 0.5, 0.25, 0.3, 1e-05, 0.999999]),
                     st.floats(0.0, 1.0, allow_nan=False)).map(lambda a: {"atom": a})


def _sym_tree():
    return st.recursive(
        _sym_atom(),
        lambda ch: st.one_of(
            st.tuples(st.sampled_from(["plus", "times"]), ch, ch).map(lambda t: {"op": t[0], "l": t[1], "r": t[2]}),
            ch.map(lambda t: {"op": "negate", "x": t})),
        max_leaves=6)


def _sym_strategy():
    env = st.tuples(_prob(), _prob(), _prob()).map(lambda t: dict(zip(_IDS, t)))
    return st.tuples(_sym_tree(), _sym_tree(), _sym_tree(), env).map(
        lambda t: {"x": t[0], "y": t[1], "z": t[2], "env": t[3]})


_SYM_FIXED = [
    {"atom": 0}, {"atom": 1}, {"atom": "p"}, {"atom": 0.5},
    {"op": "plus", "l": {"atom": "p"}, "r": {"atom": "q"}},
    {"op": "times", "l": {"atom": "q"}, "r": {"atom": 0.25}},
    {"op": "negate", "x": {"atom": "r"}},
]


def _sym_enum(tier):
    env = {"p": 0.3, "q": 0.6, "r": 0.2}
    for x, y, z in itertools.product(_SYM_FIXED, repeat=3):
        yield {"x": x, "y": y, "z": z, "env": env}


# ------------------------------------------------------------------------------------------------ base defaults

# carrier -> (one, zero) as JSON values; decoded by _decode (tuples are tagged)
CARRIERS = {
    "int": (1, 0),
    "float": (1.0, 0.0),
    "bool": (True, False),
    "str": ("1", "0"),
    "tuple": ({"t": [1, 0]}, {"t": [0, 0]}),
    "pair": ({"t": [1, 1]}, {"t": [0, 1]}),  # numerator/denominator pairs
    "tropical": (0.0, "inf"),  # (min, +): one = 0, zero = +inf
    "log": (0.0, "-inf"),
}
DEFAULTS = ["is_one", "is_zero", "normalize"]


def _decode(v, carrier):
    if carrier in ("tuple", "pair"):
        return tuple(v["t"])
    if carrier in ("mpe", "minpe"):
        return (float(v["p"]), set(v["s"]))
    if carrier in ("tropical", "log") and isinstance(v, str):
        return float(v)  # "inf" / "-inf"
    return v


def _minimal_semiring(one, zero):
    from problog.evaluator import Semiring

    class Minimal(Semiring):
        """Defines only what the base class leaves abstract."""

        def one(self):
            return one

        def zero(self):
            return zero

        def plus(self, a, b):
            return a

        def times(self, a, b):
            return a

    return Minimal()


def is_one_default_case(case, failure=None):
    """Cases that go through the base-class Semiring.is_one (directly, or through the default normalize)."""
    return case.get("default") in ("is_one", "normalize")


def check_base_defaults(case):
    from problog.evaluator import SemiringSymbolic

    carrier, default = case["carrier"], case["default"]
    feats = {"carrier:" + carrier, "default:" + default}
    try:
        if carrier == "symbolic":
            sr = SemiringSymbolic()  # inherits is_one and is_zero from the base class
        elif carrier in ("mpe", "minpe"):
            from problog.tasks import mpe  # (probability, set of literals) states; inherit all three defaults

            sr = mpe.SemiringMPEState() if carrier == "mpe" else mpe.SemiringMinPEState()
        else:
            one, zero = CARRIERS[carrier]
            sr = _minimal_semiring(_decode(one, carrier), _decode(zero, carrier))
        if default == "is_one":
            got = sr.is_one(sr.one())
            if not got:
                return _fail("base-default:is_one", "%s carrier: is_one(one()) returned %r for one() = %r"
                             % (carrier, got, sr.one()), feats)
        elif default == "is_zero":
            got = sr.is_zero(sr.zero())
            if not got:
                return _fail("base-default:is_zero", "%s carrier: is_zero(zero()) returned %r for zero() = %r"
                             % (carrier, got, sr.zero()), feats)
        elif default == "normalize":
            a = _decode(case["a"], carrier)
            try:
                got = sr.normalize(a, sr.one())
            except RESOURCE_ERRORS:
                raise
            except Exception as exc:
                return Outcome(nontrivial=True, features=sorted(feats), failure=Failure(
                    "base-default:normalize", "%s carrier: normalize(%r, one()) raised %r instead of returning %r"
                    % (carrier, a, exc, a), sig="base-default:normalize:raised-%s" % type(exc).__name__))
            if type(got) is not type(a) or got != a:
                return _fail("base-default:normalize", "%s carrier: normalize(%r, one()) returned %r" % (carrier, a, got),
                             feats)
        else:
            raise ValueError(default)
    except RESOURCE_ERRORS:
        raise
    except Exception as exc:
        return _crash(exc, "base_defaults %r" % (case,), feats)
    return Outcome(nontrivial=True, features=sorted(feats))


_BASE_VALUES = {
    "int": [0, 1, 2, -3, 10 ** 20],
    "float": [0.0, 1.0, 0.5, 1e-300, 0.9999999999999999],
    "bool": [True, False],
    "str": ["0", "1", "x", "(a + b)"],
    "tuple": [{"t": [0, 0]}, {"t": [1, 0]}, {"t": [2, 3]}],
    "pair": [{"t": [0, 1]}, {"t": [1, 1]}, {"t": [1, 2]}],
    "tropical": [0.0, "inf", 2.5],
    "log": [0.0, "-inf", -0.6931471805599453],
}


_MPE_VALUES = [{"p": 0.0, "s": []}, {"p": 1.0, "s": []}, {"p": 0.3, "s": [1, -2]}, {"p": 0.06, "s": [-1, 2, 3]}]


def _base_enum(tier):
    for carrier in sorted(CARRIERS):
        yield {"carrier": carrier, "default": "is_one"}
        yield {"carrier": carrier, "default": "is_zero"}
        for a in _BASE_VALUES[carrier]:
            yield {"carrier": carrier, "default": "normalize", "a": a}
    yield {"carrier": "symbolic", "default": "is_one"}
    yield {"carrier": "symbolic", "default": "is_zero"}
    for carrier in ("mpe", "minpe"):
        yield {"carrier": carrier, "default": "is_one"}
        yield {"carrier": carrier, "default": "is_zero"}
        for a in _MPE_VALUES:
            yield {"carrier": carrier, "default": "normalize", "a": a}


def _base_strategy():
    scalars = {
        "int": st.integers(-10 ** 6, 10 ** 6),
        "float": st.floats(allow_nan=False, allow_infinity=False),
        "bool": st.booleans(),
        "str": st.text(max_size=6),
        "tuple": st.lists(st.integers(-5, 5), min_size=2, max_size=2).map(lambda l: {"t": l}),
        "pair": st.tuples(st.integers(-5, 5), st.integers(1, 5)).map(lambda l: {"t": list(l)}),
        "tropical": st.floats(0, 1e6, allow_nan=False),
        "log": st.floats(-1e3, 0, allow_nan=False),
    }
    state = st.tuples(st.floats(0, 1, allow_nan=False), st.lists(st.integers(1, 6), max_size=4, unique=True),
                      st.lists(st.booleans(), min_size=4, max_size=4)).map(
        lambda t: {"p": t[0], "s": [k if sg else -k for k, sg in zip(t[1], t[2])]})
    scalars["mpe"] = state
    scalars["minpe"] = state
    return st.sampled_from(sorted(scalars)).flatmap(
        lambda c: scalars[c].map(lambda a: {"carrier": c, "default": "normalize", "a": a}))


KNOWN_CLASSES = {
    # D4: Semiring.is_one compares with the bound method self.one
    "base_is_one_default": is_one_default_case,
}

SUBCHECKS = [
    SubCheck("laws", check_laws, strategy=_laws_strategy, enumerate=_laws_enum,
             budget={"quick": 10000, "thorough": 800000}, timeout={"quick": 5, "thorough": 5},
             exhaustive="all 41^3 triples over the 41-point probability grid (0, denormal, 1e-300 ... 1-1e-16, 1)"),
    SubCheck("log_image", check_log_image, strategy=_log_image_strategy, enumerate=_log_image_enum,
             budget={"quick": 10000, "thorough": 800000}, timeout={"quick": 5, "thorough": 5},
             exhaustive="all 41^2 pairs over the probability grid; 15 fixed weight lists and all triples over "
                        "{0,1e-12,0.1,0.25,1/3,0.5} with sum <= 1 for ad_complement"),
    SubCheck("symbolic", check_symbolic, strategy=_sym_strategy, enumerate=_sym_enum,
             budget={"quick": 4000, "thorough": 300000}, timeout={"quick": 5, "thorough": 5},
             exhaustive="all 7^3 operand triples over {0, 1, p, 0.5, (p + q), q*0.25, (1-r)} with p=0.3 q=0.6 r=0.2"),
    SubCheck("base_defaults", check_base_defaults, strategy=_base_strategy, enumerate=_base_enum,
             budget={"quick": 800, "thorough": 20000}, timeout={"quick": 5, "thorough": 5},
             exhaustive="8 minimal-subclass carriers x {is_one, is_zero, normalize on 2-5 fixed values}; "
                        "SemiringSymbolic x {is_one, is_zero}; SemiringMPEState, SemiringMinPEState x {is_one, is_zero, "
                        "normalize on 4 states}"),
]
