"""C22 - sampling draws from the program's distribution."""
import json
import math
import os
import random
import re
import sys
import zlib

from hypothesis import assume, strategies as st

from pbt.core.api import CaseTimeout, Failure, Outcome, SubCheck
from pbt.core import plrun
from pbt.gen import programs as gp
from pbt.ref import semantics as sem

PROPERTY_ID = "C22"
LEVEL = "exploration"

N_SAMPLES = {"quick": 1500, "thorough": 10000}
DELTA = 1e-9
MIN_EVIDENCE = 0.05
MAX_CHOICES = 10
MAX_WORLDS = 1 << 12

RULE = ("Case = (program AST from pbt.gen.programs.programs(allow_nonground_query=False, allow_neg_query=False): "
        "probabilistic facts, annotated disjunctions with/without bodies, probabilistic rules, rules (also with a "
        "disjunctive body), stratified negation, positive recursion, 1-3 ground queries, 0-2 evidence atoms; kept only when the reference "
        "P(evidence) >= 0.05, <= 10 relevant choices and no undefined atoms; for a third of the programs the evidence atoms "
        "are instead drawn among the ground atoms with reference marginal strictly between 0 and 1; another third "
        "has an annotated disjunction with 3-4 heads, two or three of which get negative evidence (directly or through "
        "an alias d :- head) while the other heads are queried; thinning: all "
        "non-trivial programs with P(evidence) < 1, 1/4 of the other non-trivial ones, 1/24 of the trivial ones), "
        "propagate_evidence in {False, True}, n accepted samples with n = N * min(1, 2 P(evidence)) rounded down to a "
        "multiple of 100, N = 1500 (quick) / 10000 (thorough) (the expected number of grounding attempts is then <= "
        "2N), two integers passed to "
        "random.seed (sample loop / estimate).  The loop of tasks.sample.sample is replayed through its public pieces "
        "(init_engine, init_db, SampledFormula, FunctionStore, ground, verify_evidence, to_string(with_probability), "
        "to_dict) so that facts/groups of every accepted sample can be read; the first 200 outputs are compared with "
        "sample(model, n=200, with_probability=True) under the same seed.  Per sample: (a) some positive-weight world "
        "of the reference agrees with the sampled choices (fact true/false; AD instance: the chosen head, or none of "
        "the examined heads), satisfies the evidence and makes exactly the reported queries true; (b) the printed "
        "'% Probability' equals, to 1e-6 relative, the product over sampled probabilistic facts of p (true) / 1-p "
        "(false) and over sampled AD instances of p_chosen, or 1 - sum(p of the examined heads) when no head was "
        "chosen; choices fixed by evidence propagation (propagate_evidence=True) are not choices made and contribute "
        "1, except that a head fixed FALSE by propagation counts as an examined head in the residual 1 - sum(p) of "
        "its AD instance.  Per program: |frequency - reference conditional probability| <= eps = sqrt(ln(2/1e-9)/(2n)) (0.0845 for n=1500, "
        "0.0327 for n=10000, 0.33 for the smallest n=100 at P(evidence)=0.05 in the quick tier) for every query, for the sample loop and for estimate(model, n); more than 4n/P(evidence)"
        "+2000 grounding attempts for n accepted samples is reported as non-terminating rejection.  Non-trivial: >= 2 "
        "relevant choices and a query with reference conditional probability in (0.1, 0.9).  Distinct = distinct "
        "case.")
ASSUMPTIONS = ["reference enumerator (pbt/ref/semantics.py) is the semantics",
               "the statistical part only detects gross errors: a frequency may be off by up to eps (0.08-0.33 quick, 0.033-0.10 "
               "thorough) without being noticed; false-alarm probability <= 1e-9 per query and run (Hoeffding)",
               "the replayed loop is the loop of tasks.sample.sample (cross-checked on the first 200 samples)",
               "sampled choices are mapped to program statements by database order: probabilistic fact nodes <-> "
               "pfact statements, choice-node groups <-> annotated disjunctions, clause variables in order of first "
               "occurrence (heads, then body); a mapping that does not line up is counted as inconclusive",
               "programs whose sampling raises resource errors or exceeds the watchdog are inconclusive"]


def _tier():
    try:
        t = json.loads(sys.argv[1]).get("tier")
        if t in N_SAMPLES:
            return t
    except Exception:
        pass
    t = os.environ.get("VERIF_TIER", "quick")
    return t if t in N_SAMPLES else "quick"


def hoeffding_eps(n, delta=DELTA):
    return math.sqrt(math.log(2.0 / delta) / (2.0 * n))


# ------------------------------------------------------------------------------------------------ reference side

def reference(prog):
    """RefResult with masks, or a string naming why the program is outside the domain."""
    try:
        ref = sem.evaluate(prog, max_choices=MAX_CHOICES, max_worlds=MAX_WORLDS, want_masks=True)
    except sem.TooLarge:
        return "oversize"
    except ValueError:
        return "not-range-restricted"
    if ref.inconsistent:
        return "inconsistent"
    if ref.undefined_any:
        return "undefined"
    if ref.evidence_weight < MIN_EVIDENCE:
        return "rare-evidence"
    if "neg-residual" in ref.features:
        return "neg-residual"
    return ref


def is_nontrivial(ref):
    return ref.n_choices >= 2 and any(0.1 < float(v) < 0.9 for v in ref.probs.values())


def _keep(prog, ref):
    # thinning (a deterministic function of the program): programs whose evidence really conditions the
    # distribution are the interesting ones for rejection sampling and evidence propagation
    if is_nontrivial(ref) and ref.evidence_weight < 1:
        return True
    h = zlib.crc32(json.dumps(prog).encode("utf8"))
    if is_nontrivial(ref):
        return h % 4 == 0
    return h % 24 == 0


class StatementMap(object):
    """Program statements <-> database nodes, and statement instances <-> reference choices."""

    def __init__(self, prog, db, ref):
        self.ok = True
        self.why = None
        pf_stmts = [i for i, s in enumerate(prog) if s[0] == "pfact"]
        ad_stmts = [i for i, s in enumerate(prog) if s[0] == "ad"]
        pf_nodes = []
        groups = []
        for i in range(len(db)):
            node = db.get_node(i)
            t = type(node).__name__
            if t == "fact" and node.probability is not None:
                pf_nodes.append((i, node))
            elif t == "choice":
                if node.group not in groups:
                    groups.append(node.group)
        self.fact_stmt = {}
        self.group_stmt = {}
        if len(pf_nodes) != len(pf_stmts) or len(groups) != len(ad_stmts):
            self.ok = False
            self.why = "node-count"
            return
        for (i, node), si in zip(pf_nodes, pf_stmts):
            a = prog[si][2]
            if node.functor != a[0] or [str(x) for x in node.args] != [sem.render_term(t) for t in a[1]] or \
                    not plrun.close(float(node.probability), float(prog[si][1])):
                self.ok = False
                self.why = "fact-mismatch"
                return
            self.fact_stmt[i] = si
        for g, si in zip(groups, ad_stmts):
            self.group_stmt[g] = si
        # reference choice index by (statement, instance key)
        self.ref_choice = {}
        for ci, (si, key) in enumerate(ref.gp.choice_info):
            self.ref_choice[(si, tuple(str(k[1]) for k in key))] = ci
        self.used = set(ref.used_choices)
        self.prog = prog

    def prob(self, si, k=0):
        s = self.prog[si]
        if s[0] == "pfact":
            return float(s[1])
        return float(s[1][k][0])

    def nheads(self, si):
        return len(self.prog[si][1])


# ------------------------------------------------------------------------------------------------ sampler driver

class Rejection(Exception):
    pass


def run_sampler(src, n, pe, seed, max_attempts):
    """Replay of the loop of problog.tasks.sample.sample.  Returns (db, forced, samples, attempts) where samples is
    a list of (facts, groups, text, dict)."""
    from problog.program import PrologString
    from problog.tasks import sample as S

    random.seed(seed)
    model = PrologString(src)
    engine = S.init_engine()
    db, evidence, ev_target = S.init_db(engine, model, pe)
    out = []
    attempts = 0
    while len(out) < n:
        if attempts >= max_attempts:
            raise Rejection(attempts, len(out))
        attempts += 1
        target = S.SampledFormula()
        for ev_fact in evidence:
            if hasattr(target, "add_evidence_atom"):  # repaired tree: fixed choices have their own entry point
                target.add_evidence_atom(*ev_fact)
            else:
                target.add_atom(*ev_fact)
        engine.functions = S.FunctionStore(target=target, database=db, engine=engine)
        result = S.ground(engine, db, target=target)
        if S.verify_evidence(engine, db, ev_target, target):
            facts = dict(result.facts)
            groups = dict(result.groups)
            text = result.to_string(db, with_probability=True)
            out.append((facts, groups, text, result.to_dict()))
        engine.previous_result = result
    return db, evidence, out, attempts


_PROB_RE = re.compile(r"^% Probability: (\S+)$")


def parse_text(text):
    lines = text.split("\n")
    m = _PROB_RE.match(lines[-1])
    if not m:
        return None, None
    trues = set()
    for l in lines[:-1]:
        if not l.endswith("."):
            return None, None
        trues.add(l[:-1])
    return trues, float(m.group(1))


def _guard(fn):
    """Run fn(); returns ('ok', value) or a classified exception tuple."""
    try:
        with plrun.captured_output() as (o, e):
            v = fn()
        return ("ok", v, o.getvalue())
    except CaseTimeout:
        raise
    except Rejection as r:
        return ("rejection", r.args, None)
    except BaseException as exc:  # noqa
        if isinstance(exc, (KeyboardInterrupt, SystemExit)):
            raise
        if isinstance(exc, plrun.RESOURCE_ERRORS):
            raise
        return plrun.classify_exception(exc) + (None,)


# ------------------------------------------------------------------------------------------------ oracle

def check(case):
    prog = case["prog"]
    pe = bool(case["pe"])
    n = int(case["n"])
    feats = gp.features(prog)
    feats.add("propagate_evidence:%s" % pe)
    ref = reference(prog)
    if isinstance(ref, str):
        return Outcome(inconclusive="domain:" + ref, features=sorted(feats))
    src = sem.render_program(prog)
    tag = "pe=%d" % pe
    eps = hoeffding_eps(n)
    nontrivial = is_nontrivial(ref)
    feats.add("p(evidence):%s" % ("1" if ref.evidence_weight == 1 else ">=0.5" if ref.evidence_weight >= 0.5
                                  else ">=0.2" if ref.evidence_weight >= 0.2 else ">=0.05"))
    sample_repr = {"program": src, "propagate_evidence": pe, "n": n, "eps": round(eps, 4),
                   "reference": dict((k, str(v)) for k, v in ref.probs.items())}

    def done(failure=None, inconclusive=None, extra=None):
        return Outcome(nontrivial=nontrivial, features=sorted(feats), failure=failure, inconclusive=inconclusive,
                       classes=["sampled"] if failure is None and inconclusive is None else [],
                       sample=sample_repr, extra=extra)

    plrun.reset_state()
    max_attempts = int(4 * n / float(ref.evidence_weight)) + 2000
    r = _guard(lambda: run_sampler(src, n, pe, case["seed"], max_attempts))
    if r[0] == "rejection":
        return done(Failure("rejection-loop", "%s: %d grounding attempts gave only %d accepted samples although the "
                            "reference P(evidence) = %s\n%s" % (tag, r[1][0], r[1][1], ref.evidence_weight, src),
                            sig="%s|rejection-loop" % tag))
    if r[0] == "error":
        return done(Failure("unexpected-error", "%s: sampler raised %s; reference answers %s\n%s" % (
            tag, r[1], sample_repr["reference"], src), sig="%s|unexpected-error:%s" % (tag, r[1])))
    if r[0] == "crash":
        return done(Failure("crash", "%s: internal exception %s\n%s" % (tag, r[1], src), sig="%s|%s" % (tag, r[1])))
    db, forced_list, samples, attempts = r[1]
    if pe and attempts > n:
        feats.add("pe:rejections")
    if attempts > n:
        feats.add("rejections")

    # statement indices of the reference refer to the program with body disjunctions expanded into two rules
    smap = StatementMap(sem.expand(prog) if hasattr(sem, "expand") else prog, db, ref)
    if not smap.ok:
        return done(inconclusive="mapping:" + smap.why)
    forced = {}
    for ev in forced_list:
        ident = ev[0]
        if isinstance(ident, int) and ident in smap.fact_stmt:
            forced[ident] = ev[1] == 1.0
        elif isinstance(ident, tuple) and len(ident) == 3 and ident[0] in smap.group_stmt:
            forced[ident] = ev[1] == 1.0
    if forced:
        feats.add("pe:forced-choices")

    qkeys = list(ref.probs)
    qmask = dict((k, ref.masks.get(ref.query_atoms[k], 0)) for k in qkeys)
    base = ref.emask & ref.posw
    full = ref.full
    counts = dict((k, 0) for k in qkeys)
    cache = {}
    n_prob_checked = 0
    n_world_checked = 0

    for si_, (facts, groups, text, qdict) in enumerate(samples):
        trues, printed = parse_text(text)
        if trues is None:
            return done(Failure("output-format", "%s: unparsable sample text %r\n%s" % (tag, text, src),
                                sig="%s|output-format" % tag))
        dict_trues = set(str(k) for k, v in qdict.items() if v is True)
        dict_keys = set(str(k) for k in qdict)
        if dict_trues != trues or dict_keys != set(qkeys):
            return done(Failure("output-mismatch", "%s: to_string reports %s, to_dict %s, queries %s\n%s" % (
                tag, sorted(trues), qdict, qkeys, src), sig="%s|output-mismatch" % tag))
        for k in trues:
            counts[k] += 1
        ckey = (frozenset(facts.items()), frozenset(trues), printed)
        if ckey in cache:
            continue
        cache[ckey] = True
        # ---- decode the sampled choices
        cons = base
        expected = 1.0
        check_prob = True
        by_group = {}
        unmapped = None
        for ident, node in facts.items():
            if node is not None and node != 0:
                unmapped = "value-node %r" % (ident,)
                break
            val = node == 0
            if isinstance(ident, int) and ident in smap.fact_stmt:
                si = smap.fact_stmt[ident]
                p = smap.prob(si)
                if ident not in forced:
                    expected *= p if val else 1.0 - p
                ci = smap.ref_choice.get((si, ()))
                if ci is None:
                    unmapped = "fact %r" % (ident,)
                    break
                if ci in smap.used:
                    cons &= ref.cmask[(ci, 0 if val else 1)]
            elif isinstance(ident, tuple) and len(ident) == 3 and ident[0] in smap.group_stmt:
                by_group.setdefault((ident[0], ident[1]), []).append((ident[2], val, ident in forced))
            elif pe and ident in [e[0] for e in forced_list]:
                feats.add("pe:non-atom-evidence-fact")
            else:
                unmapped = "identifier %r" % (ident,)
                break
        if unmapped is None:
            for (g, args), heads in by_group.items():
                si = smap.group_stmt[g]
                nh = smap.nheads(si)
                ci = smap.ref_choice.get((si, tuple(str(a) for a in args)))
                if ci is None:
                    unmapped = "AD instance %r" % ((g, args),)
                    break
                chosen = [k for k, v, f in heads if v]
                if len(chosen) > 1:
                    return done(Failure("ad-two-heads", "%s: sample chooses heads %s of one annotated disjunction "
                                        "instance %s\n%s" % (tag, chosen, (g, args), src),
                                        sig="%s|ad-two-heads" % tag))
                if any(k >= nh for k, v, f in heads):
                    unmapped = "AD head index %r" % (heads,)
                    break
                if chosen:
                    k = chosen[0]
                    if not [1 for kk, v, f in heads if kk == k and f]:
                        expected *= smap.prob(si, k)
                    m = ref.cmask[(ci, k)] if ci in smap.used else None
                else:
                    examined = set(k for k, v, f in heads)
                    expected *= 1.0 - sum(smap.prob(si, k) for k in examined)
                    m = 0
                    if ci in smap.used:
                        for k in range(nh + 1):
                            if k not in examined:
                                m |= ref.cmask[(ci, k)]
                    else:
                        m = None
                if any(f and not v for k, v, f in heads):
                    feats.add("pe:AD head fixed false" + (" x2+" if sum(1 for k, v, f in heads if f and not v) >= 2
                                                           else ""))
                if m is not None:
                    cons &= m
        if unmapped is not None:
            return done(inconclusive="mapping:unmapped:" + unmapped.split(" ")[0])
        # ---- (a) a world
        w = cons
        for k in qkeys:
            w &= qmask[k] if k in trues else (full & ~qmask[k])
        n_world_checked += 1
        if not w:
            return done(Failure("world-mismatch", "%s: sample #%d reports true queries %s with sampled choices %s (groups %s)"
                                "; no positive-probability world of the reference agrees with these choices, satisfies "
                                "the evidence and makes exactly these queries true (worlds agreeing with choices and "
                                "evidence: %d)\n%s" % (tag, si_, sorted(trues), _show(facts), _show(groups),
                                                       bin(cons).count("1"), src),
                                sig="%s|world-mismatch:%s" % (tag, "evidence" if not cons else "queries")))
        # ---- (b) printed probability
        if check_prob:
            n_prob_checked += 1
            if not plrun.close(printed, expected, tol_abs=1e-300, tol_rel=1e-6):
                return done(Failure("probability-mismatch", "%s: sample #%d prints probability %r; product of the "
                                    "probabilities of the choices made is %r; choices %s groups %s forced %s\n%s" % (
                                        tag, si_, printed, expected, _show(facts), _show(groups), _show(forced), src),
                                    sig="%s|probability-mismatch" % tag))

    # ---- frequencies of the sample loop
    for k in qkeys:
        fr = counts[k] / float(n)
        p = float(ref.probs[k])
        if abs(fr - p) > eps:
            return done(Failure("frequency-mismatch", "%s: query %s true in %d of %d samples (%.4f); reference "
                                "conditional probability %s (%.4f); Hoeffding eps %.4f (delta 1e-9)\n%s" % (
                                    tag, k, counts[k], n, fr, ref.probs[k], p, eps, src),
                                sig="%s|frequency-mismatch:sample" % tag))

    # ---- the real generator gives the same outputs as the replayed loop
    nfaith = min(200, n)

    def faithful():
        from problog.program import PrologString
        from problog.tasks import sample as S

        random.seed(case["seed"])
        return list(S.sample(PrologString(src), n=nfaith, format="str", propagate_evidence=pe,
                             with_probability=True))

    r = _guard(faithful)
    if r[0] != "ok":
        return done(Failure("crash", "%s: sample() failed with %r although the replayed loop ran\n%s" % (
            tag, r[1], src), sig="%s|sample():%s" % (tag, r[1])))
    got = [parse_text(t) for t in r[1]]
    want = [parse_text(s[2]) for s in samples[:nfaith]]
    if got != want:
        return done(Failure("loop-divergence", "%s: sample() and the replayed loop differ under seed %d\n%s" % (
            tag, case["seed"], src), sig="%s|loop-divergence" % tag))

    # ---- estimate
    def est():
        from problog.program import PrologString
        from problog.tasks import sample as S

        random.seed(case["seed_est"])
        return S.estimate(PrologString(src), n=n, propagate_evidence=pe)

    r = _guard(est)
    if r[0] == "error":
        return done(Failure("unexpected-error", "%s: estimate raised %s\n%s" % (tag, r[1], src),
                            sig="%s|estimate|unexpected-error:%s" % (tag, r[1])))
    if r[0] == "crash":
        return done(Failure("crash", "%s: estimate: internal exception %s\n%s" % (tag, r[1], src),
                            sig="%s|estimate|%s" % (tag, r[1])))
    estd = dict((str(k), float(v)) for k, v in r[1].items())
    for k in estd:
        if k not in ref.probs:
            return done(Failure("estimate-extra-query", "%s: estimate reports %s which is not a query\n%s" % (
                tag, k, src), sig="%s|estimate-extra-query" % tag))
    for k in qkeys:
        fr = estd.get(k, 0.0)
        p = float(ref.probs[k])
        if abs(fr - p) > eps:
            return done(Failure("frequency-mismatch", "%s: estimate(n=%d) gives %s = %.4f; reference conditional "
                                "probability %s (%.4f); Hoeffding eps %.4f (delta 1e-9)\n%s" % (
                                    tag, n, k, fr, ref.probs[k], p, eps, src),
                                sig="%s|frequency-mismatch:estimate" % tag))
    sample_repr["frequencies"] = dict((k, round(counts[k] / float(n), 4)) for k in qkeys)
    sample_repr["estimate"] = dict((k, round(estd.get(k, 0.0), 4)) for k in qkeys)
    return done(extra={"samples_drawn": n, "distinct_samples_world_checked": n_world_checked,
                       "distinct_samples_probability_checked": n_prob_checked, "grounding_attempts": attempts})


def _show(d):
    return "{%s}" % ", ".join("%s: %s" % (k, v) for k, v in sorted(d.items(), key=lambda kv: str(kv[0])))


# ------------------------------------------------------------------------------------------------ strategy

@st.composite
def _programs_with_informative_evidence(draw):
    """programs() without evidence + 1-2 evidence atoms drawn among the ground atoms whose reference marginal is
    strictly between 0 and 1 (programs() draws evidence atoms blindly: mostly certain or impossible)."""
    prog = draw(gp.programs(allow_nonground_query=False, allow_neg_query=False, allow_evidence=False))
    try:
        g = sem.ground(prog)
        cands = sorted(g.possible)
        probe = [s for s in prog if s[0] != "query"] + \
                [["query", [a[0], [[k[0], k[1]] for k in a[1]]], False] for a in cands]
        ref0 = sem.evaluate(probe, max_choices=MAX_CHOICES + 2, max_worlds=MAX_WORLDS * 4)
        good = [a for a in cands if 0 < ref0.probs[sem.atom_str(a)] < 1]
    except (ValueError, sem.TooLarge):
        good = []
    if not good:
        return prog
    es = []
    for _ in range(draw(st.integers(1, 2))):
        a = draw(st.sampled_from(good))
        es.append(["evidence", [a[0], [[k[0], k[1]] for k in a[1]]], draw(st.booleans()), draw(st.integers(0, 1))])
    return prog + es


@st.composite
def _programs_with_ad_evidence(draw):
    """An annotated disjunction with 3-4 heads over fresh atoms x0..x3 (optionally with a body), aliases
    d_i :- x_i (evidence on an alias is propagated to the head), 2-3 pieces of evidence of which at least two are
    negative and hit different heads of that AD (directly or through an alias), queries on the other heads;
    optionally on top of a programs() program without evidence."""
    base = []
    if draw(st.integers(0, 2)) == 0:
        base = [s for s in draw(gp.programs(allow_nonground_query=False, allow_neg_query=False,
                                            allow_evidence=False, max_preds=2))]
    nh = draw(st.integers(3, 4))
    left = 10
    probs = []
    for i in range(nh):
        hi = left - (nh - 1 - i)
        k = draw(st.integers(1, max(1, min(hi, 5))))
        probs.append(k)
        left -= k
    if draw(st.booleans()):
        probs[-1] += left  # exhaustive
    heads = [["0.%d" % k if k < 10 else "1.0", ["x%d" % i, []]] for i, k in enumerate(probs)]
    block = []
    body = []
    if draw(st.integers(0, 2)) == 0:
        block.append(["pfact", draw(st.sampled_from(["0.5", "0.8", "1.0"])), ["g", []]])
        body = [[False, "g", []]]
    block.append(["ad", heads, body])
    order = list(draw(st.permutations(list(range(nh)))))
    nneg = draw(st.integers(2, nh - 1))
    evid = []
    for i in order[:nneg]:
        if draw(st.integers(0, 2)) == 0:
            block.append(["rule", ["d%d" % i, []], [[False, "x%d" % i, []]]])
            evid.append(["evidence", ["d%d" % i, []], False, draw(st.integers(0, 1))])
        else:
            evid.append(["evidence", ["x%d" % i, []], False, draw(st.integers(0, 1))])
    rest = order[nneg:]
    qs = [["query", ["x%d" % i, []], False] for i in rest]
    if draw(st.booleans()):
        block.append(["pfact", draw(st.sampled_from(["0.3", "0.5", "0.7"])), ["f", []]])
        block.append(["rule", ["y", []], [[False, "x%d" % rest[0], []], [False, "f", []]]])
        qs.append(["query", ["y", []], False])
        if draw(st.integers(0, 2)) == 0:
            evid.append(["evidence", ["y", []], draw(st.booleans()), 1])
    tail = qs + evid
    if draw(st.booleans()):
        tail = list(draw(st.permutations(tail)))
    return base + block + tail


def samples_for(tier, evidence_weight):
    """Number of accepted samples: N(tier) when P(evidence) >= 0.5, otherwise N * 2 * P(evidence) (so that the
    expected number of grounding attempts, n / P(evidence), stays <= 2N), rounded down to a multiple of 100."""
    big = N_SAMPLES[tier]
    n = int(big * min(1.0, 2.0 * float(evidence_weight)))
    return max(100, n - n % 100)


@st.composite
def _cases(draw):
    prog = draw(st.one_of(gp.programs(allow_nonground_query=False, allow_neg_query=False),
                          _programs_with_informative_evidence(), _programs_with_ad_evidence()))
    ref = reference(prog)
    assume(not isinstance(ref, str))
    assume(_keep(prog, ref))
    return {"prog": prog, "pe": draw(st.booleans()), "seed": draw(st.integers(0, 2 ** 31 - 1)),
            "seed_est": draw(st.integers(0, 2 ** 31 - 1)), "n": samples_for(_tier(), ref.evidence_weight)}


def _strategy():
    return _cases()


def render(case):
    return {"program": sem.render_program(case["prog"]), "propagate_evidence": case["pe"], "n": case["n"],
            "seed": case["seed"]}


def _has_evidence(prog):
    return any(s[0] == "evidence" for s in prog)


KNOWN_CLASSES = {
    # evidence propagation in the sampler (init_db / verify_evidence): only cases that ask for it on a program
    # that has evidence
    "propagate_evidence_with_evidence": lambda case, failure: bool(case["pe"]) and _has_evidence(case["prog"]),
    "negcycle_fp": lambda case, failure: gp.neg_on_cyclic_goal_under_active_cycle(case["prog"]),
    "neg_under_cycle": lambda case, failure: gp.neg_under_active_cycle(case["prog"]),
    "ad_cyclic_complement": lambda case, failure: gp.cyclic_multihead_ad_with_complementary_body(case["prog"]),
    "shared_var_call": lambda case, failure: gp.shared_var_call(case["prog"]),
    "pos_and_neg_recursion_same_scc": lambda case, failure: gp.pos_and_neg_recursion_same_scc(case["prog"]),
}

SUBCHECKS = [
    SubCheck("sampling", check, strategy=_strategy, budget={"quick": 48, "thorough": 240},
             timeout={"quick": 60, "thorough": 900}, render=render),
]
