"""C15 - term comparison (compare/3, ==, \\==, @<, @=<, @>, @>=) and sort/2 follow the standard order of terms.

Oracles
  * reference comparator pbt/ref/order.py (Var < Number < Atom < Compound; numbers by value, float before an
    equal integer; atoms by their text without quotes; compounds by arity, name, arguments): every comparison
    builtin must agree with it on every pair;
  * order laws (totality/consistency of the seven builtins, reflexivity, antisymmetry, transitivity) on
    ProbLog's OWN answers - the reference is not consulted;
  * sort/2 = strictly ascending duplicate-free list of the input under the reference order.

Failures are classified by root cause (Failure.sig = '<kind>:<cause>'), see `cause_of`:
  number-order          the first difference between the two terms is a pair of numbers
  quoted-atom-order     ... is a pair of different atoms / compound names, one written with quotes
  quoted-atom-identity  ... is one atom / name spelled with and without quotes ('b' and b), which must be skipped
  var-identity          a variable vs a ground term: only == / \\== are wrong (the variable is 'identical' to it)
  var-nonvar            a variable vs a ground term: the order itself is wrong
  other                 anything else
"""
import itertools
import warnings

from hypothesis import strategies as st

from pbt.core.api import Failure, Outcome, SubCheck
from pbt.core import plrun
from pbt.ref import order as ro

PROPERTY_ID = "C15"
LEVEL = "exploration"
RULE = ("Ground terms are written as text and parsed by ProbLog's parser. Universe: integers {-12,-1,0,1,2,9,10,"
        "11,100}, floats {-1.5,0.0,1.0,2.0,10.0}, atoms {a,b,ab,f,'b','b c','B','Bb'} and every compound of size "
        "<= 4 (symbols) built from f/1, g/2, b/2 over a leaf set (quick: 2,10,2.0,a,'b'; thorough adds -1,b,'B'). "
        "pairs: bounded-exhaustive, every ORDERED pair of the universe, one engine call evaluating @<,@=<,@>,@>=,"
        "==,\\==,compare(O,..) and compare('<'|'='|'>',..) against the reference; non-trivial = the two terms are "
        "textually different. laws: every unordered triple (with repetition) of a smaller universe, checking "
        "totality/consistency, reflexivity, antisymmetry and transitivity on ProbLog's own answers; non-trivial "
        "= the three terms are pairwise different. var: variable vs every universe term (and -2..-7) on either "
        "side, bare and inside f/1 and g/2, passed as query arguments and written in clause bodies of a program "
        "text (var < nonvar only; every case non-trivial). sort: all lists of length 2-3 over a 12-term universe plus "
        "Hypothesis lists (length 0-8, duplicates and same-term-different-spelling likely) of universe terms and "
        "random deeper terms (depth <= 4, integers up to 6 digits, functors of arity 1-3 incl. quoted names); "
        "non-trivial = the sorted duplicate-free list differs from the input. program: Hypothesis pair of random "
        "deeper terms plus a list, rendered as a whole program text (clause bodies) and queried; non-trivial = "
        "terms differ and at least one is compound. Distinct = distinct case (term texts).")
ASSUMPTIONS = ["pbt/ref/order.py is the standard order of Yap/SWI-Prolog for the term kinds generated (no SWI-Prolog "
               "binary is available in the sandbox)",
               "strings, [] and lists as elements, operators, integers beyond 2^53 and non-finite floats are not "
               "generated (Yap/SWI differ or the statement is silent)",
               "variables are used only for the var < nonvar rule; var/var order is not checked",
               "compare/3 with a bound order is called with the quoted atoms '<', '=', '>' (the unquoted form is "
               "rejected by ProbLog with CallModeError and is not generated)",
               "laws sub-check memoises ProbLog's answer per ordered pair within a shard process"]

# ------------------------------------------------------------------------------------------------ universe

INTS = ["-12", "-1", "0", "1", "2", "9", "10", "11", "100"]
FLOATS = ["-1.5", "0.0", "1.0", "2.0", "10.0"]
ATOMS = ["a", "b", "ab", "f", "'b'", "'b c'", "'B'", "'Bb'"]
ATOMIC = INTS + FLOATS + ATOMS
LEAVES = {"quick": ["2", "10", "2.0", "a", "'b'"],
          "thorough": ["-1", "2", "10", "2.0", "a", "b", "'b'", "'B'"]}
LAW_LEAVES = {"quick": ["2", "10", "a"], "thorough": ["2", "10", "2.0", "a", "'b'"]}


def compounds(leaves, max_size=4):
    """All compounds over f/1, g/2, b/2 with at most max_size symbols."""
    out = []
    f1 = ["f(%s)" % x for x in leaves]
    out += f1
    if max_size >= 3:
        out += ["f(%s)" % x for x in f1]
        bin3 = ["%s(%s,%s)" % (n, x, y) for n in ("g", "b") for x in leaves for y in leaves]
        out += bin3
    if max_size >= 4:
        out += ["f(f(%s))" % x for x in f1]
        out += ["f(%s)" % x for x in bin3]
        out += ["%s(%s,%s)" % (n, x, y) for n in ("g", "b") for x in f1 for y in leaves]
        out += ["%s(%s,%s)" % (n, x, y) for n in ("g", "b") for x in leaves for y in f1]
    return out


def universe(tier):
    return ATOMIC + compounds(LEAVES[tier], 4)


def law_universe(tier):
    extra = ["f(g(2,10))", "g(f(a),2)", "b(10,f(2))", "g(f(10),a)", "f(f(f(a)))"]
    return ATOMIC + compounds(LAW_LEAVES[tier], 3) + extra


SORT_MINI = ["2", "10", "9", "2.0", "a", "b", "'b'", "'B'", "f(a)", "f(10)", "g(a,b)", "b(a,a)"]

# ------------------------------------------------------------------------------------------------ running ProbLog

_HARNESS_SRC = r"""
t(lt,A,B) :- A @< B.
t(le,A,B) :- A @=< B.
t(gt,A,B) :- A @> B.
t(ge,A,B) :- A @>= B.
t(eq,A,B) :- A == B.
t(ne,A,B) :- A \== B.
t(cmp(O),A,B) :- compare(O,A,B).
t(is_lt,A,B) :- compare('<',A,B).
t(is_eq,A,B) :- compare('=',A,B).
t(is_gt,A,B) :- compare('>',A,B).
srt(L,S) :- sort(L,S).
"""

def expected_tags(c):
    """Tags of the harness clauses that must succeed when the reference order says c (-1, 0, 1)."""
    if c < 0:
        return ["lt", "le", "ne", "cmp(<)", "is_lt"]
    if c > 0:
        return ["gt", "ge", "ne", "cmp(>)", "is_gt"]
    return ["le", "ge", "eq", "cmp(=)", "is_eq"]


class _Harness(object):
    """One prepared database reused for many queries (preparation costs milliseconds); re-prepared now and then
    so that nothing can accumulate."""

    def __init__(self):
        self.eng = None
        self.db = None
        self.n = 0
        self.terms = {}

    def _prepare(self):
        from problog.program import PrologString
        from problog.engine import DefaultEngine

        with warnings.catch_warnings():
            warnings.simplefilter("ignore")
            self.eng = DefaultEngine()
            self.db = self.eng.prepare(PrologString(_HARNESS_SRC))
        self.n = 0

    def term(self, text):
        from problog.logic import Term

        t = self.terms.get(text)
        if t is None:
            if len(self.terms) > 20000:
                self.terms.clear()
            t = Term.from_string(text)
            self.terms[text] = t
        return t

    def query(self, name, *args):
        from problog.logic import Term

        if self.eng is None or self.n >= 2000:
            self._prepare()
        self.n += 1
        return self.eng.query(self.db, Term(name, *args))


_H = _Harness()


def _unquote(functor):
    s = str(functor)
    if len(s) >= 2 and s[0] == "'" and s[-1] == "'":
        return s[1:-1], True
    return s, False


def from_problog(t):
    """ProbLog term -> reference representation (glue, not oracle: only names, numbers, arguments)."""
    from problog.logic import Term, Constant, Var

    if t is None or isinstance(t, int):
        return ["v", "_G%s" % t]
    if isinstance(t, Var):
        return ["v", t.name]
    if isinstance(t, Constant):
        v = t.functor
        if type(v) is int:
            return ["i", v]
        if type(v) is float:
            return ["f", v]
        raise ValueError("unexpected constant %r" % (t,))
    if isinstance(t, Term):
        name, quoted = _unquote(t.functor)
        if t.arity == 0:
            return ["a", name, quoted]
        return ["c", name, quoted, [from_problog(a) for a in t.args]]
    raise ValueError("unexpected object %r" % (t,))


def _list_elements(t):
    out = []
    while getattr(t, "functor", None) == "." and t.arity == 2:
        out.append(t.args[0])
        t = t.args[1]
    if getattr(t, "functor", None) != "[]" or t.arity != 0:
        raise ValueError("not a proper list: %s" % (t,))
    return out


def _tag(t):
    """Answer of t/3 -> tag text ('lt', 'cmp(<)', ...)."""
    if t.arity == 0:
        return str(t.functor)
    arg = t.args[0]
    if arg is None or isinstance(arg, int):
        return "%s(_)" % (t.functor,)
    return "%s(%s)" % (t.functor, _unquote(arg.functor)[0])


def _answers(a_term, b_term):
    """Sorted list of tags that succeed for the pair (list: duplicates are visible)."""
    res = _H.query("t", None, a_term, b_term)
    return sorted(_tag(r[0]) for r in res)


def _crash(exc, what):
    if isinstance(exc, plrun.RESOURCE_ERRORS):
        return Outcome(inconclusive=type(exc).__name__)
    kind = "error" if plrun.is_problog_error(exc) else "crash"
    return Outcome(nontrivial=True, failure=Failure(kind, "%s raised %r" % (what, exc),
                                                    sig="%s:%s" % (kind, plrun.exc_signature(exc))))


# ------------------------------------------------------------------------------------------------ root causes

def first_difference(a, b):
    """Walk two reference terms the way a comparison does (kind, arity, name, arguments left to right) and return
    (what, sub_a, sub_b) for the first position where they differ - in value OR only in spelling ('b' vs b) - or
    None when they are the same text.  what: 'type-rank' | 'number-value' | 'float-int-tie' | 'atom-text' |
    'arity' | 'name' | 'spelling' | 'var-name'."""
    ka = "n" if a[0] in "if" else a[0]
    kb = "n" if b[0] in "if" else b[0]
    if ka != kb:
        return "type-rank", a, b
    if ka == "v":
        return None if a[1] == b[1] else ("var-name", a, b)
    if ka == "n":
        if a[1] != b[1]:
            return "number-value", a, b
        return None if a[0] == b[0] else ("float-int-tie", a, b)
    if ka == "a":
        if a[1] != b[1]:
            return "atom-text", a, b
        return None if bool(a[2]) == bool(b[2]) else ("spelling", a, b)
    if len(a[3]) != len(b[3]):
        return "arity", a, b
    if a[1] != b[1]:
        return "name", a, b
    if bool(a[2]) != bool(b[2]):
        return "spelling", a, b
    for x, y in zip(a[3], b[3]):
        r = first_difference(x, y)
        if r is not None:
            return r
    return None


def cause_of(ra, rb):
    """Root-cause class of a wrong comparison of the reference terms ra, rb (computed from the inputs only):
    what kind of difference a left-to-right comparison meets first."""
    d = first_difference(ra, rb)
    if d is None:
        return "other"
    what, sa, sb = d
    if what in ("number-value", "float-int-tie"):
        return "number-order"
    if what in ("atom-text", "name"):
        # two different atoms / compound names, at least one written with quotes
        return "quoted-atom-order" if (sa[2] or sb[2]) else "other"
    if what == "spelling":
        # one atom / name in two spellings ('b' and b): must compare as identical
        return "quoted-atom-identity"
    return "other"


def _number_string_order_differs(x, y):
    """Two numbers whose order as decimal strings differs from their order as numbers (defect D1 shape)."""
    sx, sy = ro.render(x), ro.render(y)
    if x[1] == y[1]:
        return False
    return (sx < sy) != (x[1] < y[1])


def _case_pairs(case):
    """The pairs of reference terms a comparison in this case can be about: the pair itself (pairs / program
    cases) and every two elements of the list or triple."""
    out = []
    if "a" in case and "b" in case:
        out.append((ro.parse(case["a"]), ro.parse(case["b"])))
    texts = list(case.get("terms", [])) + list(case.get("list", []))
    refs = [ro.parse(t) for t in texts]
    out += list(itertools.combinations(refs, 2))
    return out


def class_number_string_order(case, failure=None):
    """Two terms of the case (the pair; two elements of the list / triple) first differ at two numbers with
    different values whose order as decimal strings is not their numeric order (10 vs 9, -1 vs -1.5)."""
    for x, y in _case_pairs(case):
        d = first_difference(x, y)
        if d is not None and d[0] == "number-value" and _number_string_order_differs(d[1], d[2]):
            return True
    return False


def class_quoted_atom_order(case, failure=None):
    """Two terms of the case (the pair; two elements of the list / triple) first differ at two DIFFERENT atoms /
    compound names of which at least one is written with quotes ('b' vs a)."""
    return any(cause_of(x, y) == "quoted-atom-order" for x, y in _case_pairs(case))


def class_quoted_atom_identity(case, failure=None):
    """Two terms of the case (the pair; two elements of the list / triple) first differ at one atom / compound
    name written once with and once without quotes ('b' vs b, g('b',2) vs g(b,1))."""
    return any(cause_of(x, y) == "quoted-atom-identity" for x, y in _case_pairs(case))


KNOWN_CLASSES = {
    "number_string_order": class_number_string_order,
    "quoted_atom_order": class_quoted_atom_order,
    "quoted_atom_identity": class_quoted_atom_identity,
}


# ------------------------------------------------------------------------------------------------ pairs vs reference

def _pair_features(ra, rb):
    c, rule, sa, sb = ro.decide(ra, rb)
    feats = ["rule:" + rule, "kinds:%s/%s" % (ra[0], rb[0])]
    if sa is not ra:
        feats.append("decided-in-argument")
    if ro.has_quoted(ra) or ro.has_quoted(rb):
        feats.append("quoted")
    return feats


def _compare_tags(ra, rb, got, what):
    """Failure when the succeeding harness clauses are not the ones the reference order prescribes."""
    c = ro.compare(ra, rb)
    exp = sorted(expected_tags(c))
    if got == exp:
        return None
    cause = cause_of(ra, rb)
    rule = ro.decide(ra, rb)[1]
    wrong = sorted(set(got) ^ set(exp))
    return Failure("order-mismatch",
                   "%s: reference order says %s %s %s (rule %s); succeeding goals expected %s, got %s; differing: %s"
                   % (what, ro.render(ra), ro.ORDER_SYMBOL[c], ro.render(rb), rule, exp, got, wrong),
                   sig="order-mismatch:" + cause)


def check_pair(case):
    a, b = case["a"], case["b"]
    ra, rb = ro.parse(a), ro.parse(b)
    feats = _pair_features(ra, rb)
    try:
        got = _answers(_H.term(a), _H.term(b))
    except Exception as exc:
        return _crash(exc, "comparing %s with %s" % (a, b))
    failure = _compare_tags(ra, rb, got, "pair (%s, %s)" % (a, b))
    return Outcome(nontrivial=(a != b), features=feats, failure=failure)


def enum_pairs(tier):
    u = universe(tier)
    for a in u:
        for b in u:
            yield {"a": a, "b": b}


# ------------------------------------------------------------------------------------------------ order laws

_MEMO = {}


def _memo_answers(a, b):
    k = (a, b)
    r = _MEMO.get(k)
    if r is None:
        if len(_MEMO) > 200000:
            _MEMO.clear()
        r = _answers(_H.term(a), _H.term(b))
        _MEMO[k] = r
    return r


def _rel(tags):
    """Decode one pair's answers into (order symbol or None, problems)."""
    s = set(tags)
    problems = []
    if len(tags) != len(s):
        problems.append("duplicate answers %s" % (tags,))
    cmps = [t for t in tags if t.startswith("cmp(")]
    if len(cmps) != 1:
        problems.append("compare/3 gave %d answers %s" % (len(cmps), cmps))
    strict = [t for t in ("lt", "eq", "gt") if t in s]
    if len(strict) != 1:
        problems.append("not exactly one of @<, ==, @> holds: %s" % (strict,))
    sym = None
    if len(cmps) == 1 and cmps[0] in ("cmp(<)", "cmp(=)", "cmp(>)"):
        sym = cmps[0][4]
    elif len(cmps) == 1:
        problems.append("compare/3 returned %s" % cmps[0])
    if sym is not None:
        exp = sorted(expected_tags({"<": -1, "=": 0, ">": 1}[sym]))
        if sorted(s) != exp:
            problems.append("builtins inconsistent with compare/3 = %s: %s" % (sym, sorted(s)))
    return sym, problems


def check_laws(case):
    terms = case["terms"]
    refs = [ro.parse(t) for t in terms]
    distinct = all(ro.compare(refs[i], refs[j]) != 0 for i in range(3) for j in range(i + 1, 3))
    feats = ["kinds:" + "".join(sorted(r[0] for r in refs))]
    rel = {}
    try:
        for x in set(terms):
            for y in set(terms):
                rel[(x, y)] = _rel(_memo_answers(x, y))
    except Exception as exc:
        return _crash(exc, "comparing among %s" % (terms,))
    # totality / consistency of the seven builtins
    for (x, y), (sym, problems) in sorted(rel.items()):
        if problems:
            return Outcome(nontrivial=distinct, features=feats, failure=Failure(
                "law-totality", "(%s, %s): %s" % (x, y, "; ".join(problems))))
    # reflexivity
    for x in set(terms):
        if rel[(x, x)][0] != "=":
            return Outcome(nontrivial=distinct, features=feats, failure=Failure(
                "law-reflexivity", "compare(O, %s, %s) gives %s" % (x, x, rel[(x, x)][0])))
    # antisymmetry: the answer for (y, x) mirrors the answer for (x, y)
    mirror = {"<": ">", ">": "<", "=": "="}
    for (x, y), (sym, _) in sorted(rel.items()):
        if rel[(y, x)][0] != mirror[sym]:
            return Outcome(nontrivial=distinct, features=feats, failure=Failure(
                "law-antisymmetry", "compare(O,%s,%s) gives %s but compare(O,%s,%s) gives %s"
                % (x, y, sym, y, x, rel[(y, x)][0])))
    # transitivity of @=< (covers transitivity of == and of @<)
    for x, y, z in itertools.permutations(terms, 3):
        if rel[(x, y)][0] in "<=" and rel[(y, z)][0] in "<=":
            both_eq = rel[(x, y)][0] == "=" and rel[(y, z)][0] == "="
            want = "=" if both_eq else "<"
            got = rel[(x, z)][0]
            if got != want:
                return Outcome(nontrivial=distinct, features=feats, failure=Failure(
                    "law-transitivity", "%s %s %s and %s %s %s but compare(O,%s,%s) gives %s (expected %s)"
                    % (x, rel[(x, y)][0], y, y, rel[(y, z)][0], z, x, z, got, want)))
    return Outcome(nontrivial=distinct, features=feats)


def enum_laws(tier):
    u = law_universe(tier)
    for i in range(len(u)):
        for j in range(i, len(u)):
            for k in range(j, len(u)):
                yield {"terms": [u[i], u[j], u[k]]}


# ------------------------------------------------------------------------------------------------ var < nonvar

_WRAPS = {"bare": ("X", "%s"), "f": ("f(X)", "f(%s)"), "g2": ("g(a,X)", "g(a,%s)"), "g1": ("g(X,b)", "g(%s,a)")}


_VAR_PROGRAM = ["r(lt) :- %(a)s @< %(b)s.", "r(le) :- %(a)s @=< %(b)s.", "r(gt) :- %(a)s @> %(b)s.",
                "r(ge) :- %(a)s @>= %(b)s.", "r(eq) :- %(a)s == %(b)s.", "r(ne) :- %(a)s \\== %(b)s.",
                "r(cmp(O)) :- compare(O, %(a)s, %(b)s).", "r(is_lt) :- compare('<', %(a)s, %(b)s).",
                "r(is_eq) :- compare('=', %(a)s, %(b)s).", "r(is_gt) :- compare('>', %(a)s, %(b)s)."]


def check_var(case):
    """A variable (bare, or as the deciding argument of a compound) is smaller than any ground term.
    via = 'query': the terms are passed as arguments of a query to the shared harness program;
    via = 'program': they are written in clause bodies of a program text (other internal variable numbering)."""
    from problog.program import PrologString
    from problog.engine import DefaultEngine
    from problog.logic import Term

    vtext, gpat = _WRAPS[case["wrap"]]
    gtext = gpat % case["t"]
    c = -1 if case["side"] == "left" else 1
    a, b = (vtext, gtext) if c < 0 else (gtext, vtext)
    via = case.get("via", "query")
    feats = ["wrap:" + case["wrap"], "side:" + case["side"], "kind:" + ro.parse(case["t"])[0], "via:" + via]
    try:
        if via == "query":
            got = _answers(_H.term(a), _H.term(b))
        else:
            src = "\n".join(l % {"a": a, "b": b} for l in _VAR_PROGRAM) + "\n"
            with warnings.catch_warnings():
                warnings.simplefilter("ignore")
                eng = DefaultEngine()
                db = eng.prepare(PrologString(src))
            got = sorted(_tag(r[0]) for r in eng.query(db, Term("r", None)))
    except Exception as exc:
        return _crash(exc, "comparing %s with %s" % (a, b))
    exp = sorted(expected_tags(c))
    failure = None
    if got != exp:
        wrong = set(got) ^ set(exp)
        # '==' / '\==' alone wrong: the variable is taken to be identical to the ground term
        cause = "var-identity" if wrong <= set(["eq", "ne"]) else "var-nonvar"
        failure = Failure("order-mismatch", "var < nonvar (%s): (%s, %s) succeeding goals expected %s, got %s"
                          % (via, a, b, exp, got), sig="order-mismatch:" + cause)
    return Outcome(nontrivial=True, features=feats, failure=failure)


_VAR_EXTRA = ["-2", "-3", "-4", "-5", "-6", "-7"]


def enum_var(tier):
    u = universe(tier)
    for via in ("query", "program"):
        for wrap in ("bare", "f", "g2", "g1"):
            if wrap == "bare":
                terms = (u if via == "query" else ATOMIC + ["f(a)", "g(2,10)"]) + _VAR_EXTRA
            else:
                terms = ATOMIC + ["f(a)", "g(2,10)"] + _VAR_EXTRA
            for t in terms:
                for side in ("left", "right"):
                    yield {"t": t, "side": side, "wrap": wrap, "via": via}


def class_var_vs_negative_integer(case, failure=None):
    """A bare unbound variable is compared with a negative integer (internally variables are negative ints)."""
    if "wrap" not in case:
        return False
    t = ro.parse(case["t"])
    return case["wrap"] == "bare" and t[0] == "i" and t[1] < 0


KNOWN_CLASSES["var_vs_negative_integer"] = class_var_vs_negative_integer


# ------------------------------------------------------------------------------------------------ sort/2

def _sort_failure(inp_refs, out_refs, what):
    exp = ro.sort_unique(inp_refs)
    same = len(exp) == len(out_refs) and all(ro.compare(x, y) == 0 for x, y in zip(exp, out_refs))
    if same:
        return None
    cause = None
    for x, y in zip(out_refs, out_refs[1:]):
        if ro.compare(x, y) >= 0:
            cause = cause_of(x, y)
            why = "%s is not before %s" % (ro.render(x), ro.render(y))
            break
    if cause is None:
        cause = "elements"
        why = "output is ascending but is not the set of the input"
    return Failure("sort-mismatch", "%s: expected %s, got %s (%s)"
                   % (what, [ro.render(x) for x in exp], [ro.render(x) for x in out_refs], why),
                   sig="sort-mismatch:" + cause)


def _sort_features(refs):
    exp = ro.sort_unique(refs)
    feats = ["len:%d" % len(refs)]
    if len(exp) < len(refs):
        feats.append("has-duplicates")
    if len(set(r[0] for r in refs)) > 1:
        feats.append("mixed-kinds")
    if any(r[0] == "c" for r in refs):
        feats.append("compounds")
    nontrivial = [ro.render(x) for x in exp] != [ro.render(x) for x in refs]
    return feats, nontrivial


def check_sort(case):
    from problog.logic import list2term

    texts = case["list"]
    refs = [ro.parse(t) for t in texts]
    feats, nontrivial = _sort_features(refs)
    what = "sort([%s], S)" % ",".join(texts)
    try:
        res = _H.query("srt", list2term([_H.term(t) for t in texts]), None)
        if len(res) != 1:
            return Outcome(nontrivial=nontrivial, features=feats, failure=Failure(
                "sort-answers", "%s has %d answers" % (what, len(res))))
        out_refs = [from_problog(e) for e in _list_elements(res[0][1])]
    except Exception as exc:
        return _crash(exc, what)
    return Outcome(nontrivial=nontrivial, features=feats, failure=_sort_failure(refs, out_refs, what))


def enum_sort(tier):
    for n in (2, 3):
        for combo in itertools.product(SORT_MINI, repeat=n):
            yield {"list": list(combo)}


# ---- Hypothesis strategies for terms (as text)

_H_ATOMS = ["a", "b", "c", "ab", "abc", "aB", "b_1", "f", "g", "'a'", "'b'", "'B'", "'Z'", "'Ab'", "'a b'", "'b c'",
            "'hello world'", "'b_1'", "'_x'", "'1a'"]
_H_FLOATS = [-12.0, -1.5, -1.0, 0.0, 0.5, 1.0, 2.0, 2.5, 9.0, 10.0, 100.0, 1.0e10]
_H_FUNCTORS = ["f", "g", "b", "h", "'F'", "'b c'", "'f'"]


def _leaf():
    return st.one_of(
        st.sampled_from(ATOMIC),
        st.integers(-1000, 1000).map(str),
        st.integers(-999999, 999999).map(str),
        st.sampled_from(_H_FLOATS).map(repr),
        st.integers(-20, 20).map(lambda i: repr(i / 4.0)),
        st.sampled_from(_H_ATOMS),
    )


def _term(max_leaves=6):
    def extend(children):
        return st.tuples(st.sampled_from(_H_FUNCTORS), st.lists(children, min_size=1, max_size=3)).map(
            lambda t: "%s(%s)" % (t[0], ",".join(t[1])))

    return st.recursive(_leaf(), extend, max_leaves=max_leaves)


def _respell(text):
    """The same term with plain atoms written in quotes (same term, different spelling)."""
    r = ro.parse(text)

    def q(t):
        if t[0] == "a":
            return ["a", t[1], True]
        if t[0] == "c":
            return ["c", t[1], True, [q(a) for a in t[3]]]
        return t

    return ro.render(q(r))


def _sort_strategy():
    elem = st.one_of(st.sampled_from(universe("quick")), st.sampled_from(ATOMIC), _term(4))
    base = st.one_of(st.lists(elem, min_size=0, max_size=2), st.lists(elem, min_size=3, max_size=8),
                     st.lists(elem, min_size=3, max_size=8))
    # copies: element j becomes a duplicate of element i (optionally in the other spelling: b -> 'b')
    copies = st.lists(st.tuples(st.integers(0, 7), st.integers(0, 7), st.booleans()), min_size=0, max_size=3)

    def build(t):
        lst, cps = list(t[0]), t[1]
        for i, j, respell in cps:
            if i < len(lst) and j < len(lst) and i != j:
                lst[j] = _respell(lst[i]) if respell else lst[i]
        return {"list": lst}

    return st.tuples(base, copies).map(build)


# ------------------------------------------------------------------------------------------------ whole programs

def _program_text(case):
    a, b = case["a"], case["b"]
    lines = [
        "c(O) :- compare(O, %s, %s)." % (a, b),
        "r(lt) :- %s @< %s." % (a, b),
        "r(le) :- %s @=< %s." % (a, b),
        "r(gt) :- %s @> %s." % (a, b),
        "r(ge) :- %s @>= %s." % (a, b),
        "r(eq) :- %s == %s." % (a, b),
        "r(ne) :- %s \\== %s." % (a, b),
        "r(is_lt) :- compare('<', %s, %s)." % (a, b),
        "r(is_eq) :- compare('=', %s, %s)." % (a, b),
        "r(is_gt) :- compare('>', %s, %s)." % (a, b),
        "s(S) :- sort([%s], S)." % ",".join(case["list"]),
    ]
    return "\n".join(lines) + "\n"


def check_program(case):
    """The same oracles with the terms written in clause bodies of a program text (parser + clause compilation)."""
    from problog.program import PrologString
    from problog.engine import DefaultEngine
    from problog.logic import Term

    a, b = case["a"], case["b"]
    ra, rb = ro.parse(a), ro.parse(b)
    lrefs = [ro.parse(t) for t in case["list"]]
    feats = _pair_features(ra, rb) + ["depth:%d" % max(_depth(ra), _depth(rb))]
    nontrivial = a != b and (ra[0] == "c" or rb[0] == "c")
    src = _program_text(case)
    try:
        with warnings.catch_warnings():
            warnings.simplefilter("ignore")
            eng = DefaultEngine()
            db = eng.prepare(PrologString(src))
        got = [_tag(Term("cmp", r[0])) for r in eng.query(db, Term("c", None))]
        got += [str(r[0]) for r in eng.query(db, Term("r", None))]
        got = sorted(got)
        sres = eng.query(db, Term("s", None))
        if len(sres) != 1:
            return Outcome(nontrivial=nontrivial, features=feats, failure=Failure(
                "sort-answers", "sort([%s], S) has %d answers" % (",".join(case["list"]), len(sres))))
        out_refs = [from_problog(e) for e in _list_elements(sres[0][0])]
    except Exception as exc:
        return _crash(exc, "program\n%s" % src)
    failure = _compare_tags(ra, rb, got, "program pair (%s, %s)" % (a, b))
    if failure is None:
        failure = _sort_failure(lrefs, out_refs, "sort([%s], S) in a clause body" % ",".join(case["list"]))
    return Outcome(nontrivial=nontrivial, features=feats, failure=failure, sample=src)


def _depth(t):
    if t[0] == "c":
        return 1 + max(_depth(a) for a in t[3])
    return 0


def _mutate(text, data_leaf):
    """A term equal to `text` except for one leaf: pairs that are decided deep inside the arguments."""
    r = ro.parse(text)
    new = ro.parse(data_leaf)

    def repl(t, first):
        # replace the LAST leaf (so all earlier arguments are equal)
        if t[0] != "c":
            return new
        return ["c", t[1], t[2], t[3][:-1] + [repl(t[3][-1], False)]]

    return ro.render(repl(r, True))


def _program_strategy():
    pair = st.one_of(
        st.tuples(_term(6), _term(6)),
        _term(6).flatmap(lambda t: st.tuples(st.just(t), _leaf().map(lambda l: _mutate(t, l)))),
        _term(6).flatmap(lambda t: st.tuples(st.just(t), st.just(_respell(t)))),
    )
    lst = st.lists(st.one_of(_term(3), st.sampled_from(ATOMIC)), min_size=0, max_size=5)
    return st.tuples(pair, st.booleans(), lst).map(
        lambda t: {"a": t[0][1] if t[1] else t[0][0], "b": t[0][0] if t[1] else t[0][1], "list": t[2]})


def render_program(case):
    return _program_text(case)


# ------------------------------------------------------------------------------------------------ sub-checks

SUBCHECKS = [
    SubCheck("pairs", check_pair, enumerate=enum_pairs, strategy=None,
             timeout={"quick": 10, "thorough": 10},
             exhaustive="all ordered pairs of the universe (atomic terms + all compounds of size <= 4 over f/1, "
                        "g/2, b/2 and the tier's leaf set): 7 comparison builtins vs the reference order"),
    SubCheck("laws", check_laws, enumerate=enum_laws, strategy=None,
             timeout={"quick": 10, "thorough": 10},
             exhaustive="all unordered triples with repetition of the law universe (atomic terms + compounds of "
                        "size <= 3 + 5 of size 4): totality, reflexivity, antisymmetry, transitivity of ProbLog's "
                        "own answers"),
    SubCheck("var", check_var, enumerate=enum_var, strategy=None,
             exhaustive="variable vs every universe term and -2..-7, both sides; variable as deciding argument of "
                        "f/1, g/2 vs atomic terms and two compounds; as query arguments and in clause bodies"),
    SubCheck("sort", check_sort, enumerate=enum_sort, strategy=_sort_strategy,
             budget={"quick": 3000, "thorough": 100000},
             exhaustive="all lists of length 2 and 3 over 12 terms (2, 10, 9, 2.0, a, b, 'b', 'B', f(a), f(10), "
                        "g(a,b), b(a,a))"),
    SubCheck("program", check_program, strategy=_program_strategy, render=render_program,
             budget={"quick": 2500, "thorough": 60000}),
]
