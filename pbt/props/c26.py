"""C26 - subquery/2,3 computes the same probabilities as top-level inference."""
from hypothesis import strategies as st

from pbt.core.api import Failure, Outcome, SubCheck
from pbt.core import plrun
from pbt.gen import programs as gp
from pbt.ref import semantics as sem

PROPERTY_ID = "C26"
LEVEL = "exploration"
RULE = ("C01-style generated programs (their own query/evidence statements removed) plus a deterministic wrapper "
        "w(Args,P) :- subquery(Goal,P) or subquery(Goal,P,[E1,\\+E2,...]) with Goal ground or non-ground and an "
        "evidence list of positive/negated ground atoms, queried as query(w(...)). Oracle: every reported answer "
        "w(theta,P) has probability 1 and P equals the reference (conditional) probability of Goal.theta, which is "
        "also compared with ProbLog's own top-level inference on 'query(Goal). evidence(...)'; every instance with "
        "positive reference probability has an answer; inconsistent evidence <=> error. Non-trivial: >= 2 relevant "
        "choices and 0 < P < 1 for some answer. Distinct = distinct (program, wrapper). Sub-check 'sequence': 2-4 "
        "subqueries with ground goals in ONE grounding (wrappers w0(P), w1(P), .. queried in a drawn order with "
        "repetitions, or one clause wb(P0,P1,..) whose body calls them one after the other), some with an evidence "
        "list and some without; every value must be the reference probability of its own goal under its own evidence "
        "list. Non-trivial there: >= 2 choices, a call with and a call without evidence, some 0 < P < 1.")
ASSUMPTIONS = ["reference semantics for the expected value; top-level evidence statements are removed because the "
               "statement relates subquery/3 only to its own evidence list"]


def _split_args(s):
    parts, depth, cur = [], 0, ""
    for ch in s:
        if ch in "([":
            depth += 1
        elif ch in ")]":
            depth -= 1
        if ch == "," and depth == 0:
            parts.append(cur.strip())
            cur = ""
        else:
            cur += ch
    parts.append(cur.strip())
    return parts


def check(case):
    prog = case["prog"]
    goal = case["goal"]
    ev = case["evidence"]
    feats = gp.features(prog)
    base = [s for s in prog if s[0] not in ("query", "evidence")]
    # reference: program + query(goal) + evidence
    refprog = base + [["query", goal, False]] + [["evidence", a, v, 0] for a, v in ev]
    try:
        ref = sem.evaluate(refprog, max_choices=9, max_worlds=1 << 12)
    except sem.TooLarge:
        return Outcome(inconclusive="oversize", features=feats)
    gvars = []
    for t in goal[1]:
        if t[0] == "v" and t[1] not in gvars:
            gvars.append(t[1])
    head = "w(%s)" % ",".join(gvars + ["P"])
    gtxt = sem.render_atom(goal)
    if case["use3"] or ev:
        evtxt = "[%s]" % ",".join(("" if v else "\\+") + sem.render_atom(a) for a, v in ev)
        body = "subquery(%s,P,%s)" % (gtxt, evtxt)
    else:
        body = "subquery(%s,P)" % gtxt
    src = sem.render_program(base) + "%s :- %s.\nquery(w(%s)).\n" % (head, body, ",".join(["_"] * (len(gvars) + 1)))
    res = plrun.run_problog(src)
    if res[0] == "resource":
        return Outcome(inconclusive=res[1], features=feats)
    top = plrun.run_problog(sem.render_program(refprog))
    if top[0] == "resource":
        return Outcome(inconclusive=top[1], features=feats)
    failure = None
    nontrivial = False
    if res[0] == "crash":
        failure = Failure("crash", res[1], sig=res[1])
    elif ref.inconsistent:
        if res[0] != "error":
            # P(evidence)=0: a conditional probability does not exist
            failure = Failure("inconsistent-evidence-not-rejected", "reference P(evidence list)=0 but subquery answered %r" % (res,),
                              sig="inconsistent-evidence-not-rejected")
    elif res[0] == "error":
        if top[0] == "error" and top[1] == res[1]:
            failure = None  # same error as top-level inference (e.g. a known engine finding): not C26's business
        else:
            failure = Failure("unexpected-error", "subquery raised %s; reference answers %s; top-level gives %r" % (
                res[1], dict((k, float(v)) for k, v in ref.probs.items()), top), sig="unexpected-error:%s" % res[1])
    else:
        got = {}
        for k, v in res[1].items():
            if not k.startswith("w("):
                continue
            args = _split_args(k[2:-1])
            pval = args[-1]
            try:
                pf = float(pval)
            except ValueError:
                if abs(float(v)) > 1e-12:
                    failure = Failure("non-numeric-answer", "%s: %r" % (k, v))
                continue
            # instantiate the goal
            it = iter(args[:-1])
            sub = dict((gv, next(it)) for gv in gvars)
            inst = goal[0] if not goal[1] else "%s(%s)" % (goal[0], ",".join(sub[t[1]] if t[0] == "v" else str(t[1]) for t in goal[1]))
            if abs(float(v)) <= 1e-12:
                continue
            if not plrun.close(float(v), 1.0):
                failure = Failure("answer-not-certain", "%s has probability %r (the wrapper is deterministic)" % (k, v))
                break
            if inst in got and not plrun.close(got[inst], pf):
                failure = Failure("two-values", "%s gets both %r and %r" % (inst, got[inst], pf))
                break
            got[inst] = pf
        if failure is None:
            for inst, pf in got.items():
                exp = ref.probs.get(inst)
                if exp is None:
                    if abs(pf) > 1e-9:
                        failure = Failure("extra-instance", "%s answered with P=%r; not derivable in the reference" % (inst, pf))
                        break
                elif not plrun.close(pf, float(exp), tol_abs=1e-9):
                    failure = Failure("prob-mismatch", "subquery(%s)=%r reference %s (=%r); top-level %r" % (
                        inst, pf, exp, float(exp), top))
                    break
                if 0 < pf < 1:
                    nontrivial = True
        if failure is None:
            for inst, exp in ref.probs.items():
                if exp is not None and float(exp) > 1e-9 and inst not in got:
                    failure = Failure("missing-instance", "%s has reference probability %s but subquery gives no answer (answers %r)" % (
                        inst, exp, res[1]))
                    break
    nontrivial = nontrivial and ref.n_choices >= 2
    return Outcome(nontrivial=nontrivial, features=sorted(feats) + (["subquery/3"] if (ev or case["use3"]) else ["subquery/2"]),
                   failure=failure, classes=[res[0] if res[0] != "error" else "error:" + res[1]], sample={"program": src})


@st.composite
def _cases(draw):
    prog = draw(gp.programs(min_queries=1, allow_neg_query=False))
    qs = [s for s in prog if s[0] == "query"]
    es = [s for s in prog if s[0] == "evidence"]
    goal = draw(st.sampled_from(qs))[1]
    ev = []
    use3 = draw(st.booleans())
    if use3:
        for s in es:
            ev.append([s[1], s[2]])
    return {"prog": prog, "goal": goal, "evidence": ev, "use3": use3}


# ------------------------------------------------------------------------------------------------ several subqueries

def check_seq(case):
    """Several subquery calls in ONE grounding: wrappers w0(P), w1(P), ... (one subquery each, ground goals, with or
    without an evidence list) queried in the given order, or one clause wb(P0,P1,..) :- subquery(..), subquery(..).
    Every value must be the reference (conditional) probability of its own goal under its own evidence list: a
    subquery must not see the evidence, queries or tables of the calls before it."""
    prog = case["prog"]
    feats = gp.features(prog)
    base = [s for s in prog if s[0] not in ("query", "evidence")]
    exp = []
    nchoices = 0
    for sub in case["subs"]:
        refprog = base + [["query", sub["goal"], False]] + [["evidence", a, v, 0] for a, v in sub["evidence"]]
        try:
            ref = sem.evaluate(refprog, max_choices=9, max_worlds=1 << 12)
        except sem.TooLarge:
            return Outcome(inconclusive="oversize", features=feats)
        if ref.inconsistent:
            return Outcome(nontrivial=False, features=sorted(feats) + ["seq:inconsistent-evidence-skipped"])
        nchoices = max(nchoices, ref.n_choices)
        v = ref.probs.get(sem.render_atom(sub["goal"]))
        exp.append(0.0 if v is None else float(v))
    bodies = []
    for i, sub in enumerate(case["subs"]):
        g = sem.render_atom(sub["goal"])
        if sub["evidence"] or sub["use3"]:
            ev = "[%s]" % ",".join(("" if v else "\\+") + sem.render_atom(a) for a, v in sub["evidence"])
            bodies.append("subquery(%s,P%d,%s)" % (g, i, ev))
        else:
            bodies.append("subquery(%s,P%d)" % (g, i))
    n = len(bodies)
    if case["same_body"]:
        src = sem.render_program(base) + "wb(%s) :- %s.\nquery(wb(%s)).\n" % (
            ",".join("P%d" % i for i in range(n)), ", ".join(bodies), ",".join(["_"] * n))
    else:
        src = sem.render_program(base) + "".join("w%d(P%d) :- %s.\n" % (i, i, b) for i, b in enumerate(bodies)) + \
            "".join("query(w%d(_)).\n" % i for i in case["order"])
    res = plrun.run_problog(src)
    if res[0] == "resource":
        return Outcome(inconclusive=res[1], features=feats)
    failure = None
    if res[0] == "crash":
        failure = Failure("crash", res[1], sig=res[1])
    elif res[0] == "error":
        # the single-wrapper sub-check relates errors to top-level inference; here only answered programs are compared
        return Outcome(nontrivial=False, features=sorted(feats) + ["seq:error-skipped"], classes=["error:" + res[1]])
    else:
        answers = {}
        for k, v in res[1].items():
            if abs(float(v)) <= 1e-12 or "(" not in k:
                continue
            name = k[:k.index("(")]
            args = _split_args(k[k.index("(") + 1:-1])
            try:
                vals = [float(x) for x in args]
            except ValueError:
                continue
            if not plrun.close(float(v), 1.0):
                failure = Failure("answer-not-certain", "%s has probability %r (the wrappers are deterministic)\n%s" % (k, v, src))
                break
            answers.setdefault(name, []).append(vals)
        if failure is None:
            if case["same_body"]:
                got = answers.get("wb", [])
                if all(e > 1e-9 for e in exp):
                    if len(got) != 1:
                        failure = Failure("seq-answers", "wb has answers %r, expected one: %r\n%s" % (got, exp, src))
                    elif not all(plrun.close(g, e, tol_abs=1e-9) for g, e in zip(got[0], exp)):
                        failure = Failure("seq-prob-mismatch", "wb answered %r, reference %r\n%s" % (got[0], exp, src))
            else:
                for i, e in enumerate(exp):
                    got = answers.get("w%d" % i, [])
                    if len(got) > 1:
                        failure = Failure("seq-answers", "w%d has answers %r\n%s" % (i, got, src))
                        break
                    if not got:
                        if e > 1e-9:
                            failure = Failure("seq-answers", "w%d has no answer, reference %r\n%s" % (i, e, src))
                            break
                        continue
                    if not plrun.close(got[0][0], e, tol_abs=1e-9):
                        failure = Failure("seq-prob-mismatch", "w%d answered %r, reference %r (expected %r, order %r)\n%s" % (
                            i, got[0][0], e, exp, case["order"], src))
                        break
    with3 = [i for i, sub in enumerate(case["subs"]) if sub["evidence"]]
    nontrivial = nchoices >= 2 and bool(with3) and len(with3) < len(case["subs"]) and any(0 < e < 1 for e in exp)
    return Outcome(nontrivial=nontrivial, features=sorted(feats) + ["seq:same-body" if case["same_body"] else "seq:wrappers"],
                   failure=failure, classes=[res[0]], sample={"program": src})


@st.composite
def _seq_cases(draw):
    prog = draw(gp.programs(min_queries=1, allow_neg_query=False, allow_nonground_query=False,
                            evidence_bias=draw(st.booleans())))
    base = [s for s in prog if s[0] not in ("query", "evidence")]
    goals = [s[1] for s in prog if s[0] == "query"]
    es = [[s[1], s[2]] for s in prog if s[0] == "evidence"]
    # more ground atoms over the program's predicates, as goals and as evidence
    preds = sorted(set((s[1][0], len(s[1][1])) for s in base if s[0] in ("fact", "rule", "rule_or")) |
                   set((s[2][0], len(s[2][1])) for s in base if s[0] == "pfact") |
                   set((a[0], len(a[1])) for s in base if s[0] == "ad" for _, a in s[1]))
    for _ in range(draw(st.integers(1, 3))):
        p = draw(st.sampled_from(preds))
        atom = [p[0], [["a", draw(st.sampled_from(["a", "b"]))] for _ in range(p[1])]]
        if draw(st.booleans()):
            goals.append(atom)
        else:
            es.append([atom, draw(st.booleans())])
    n = draw(st.integers(2, 4))
    subs = []
    for i in range(n):
        g = draw(st.sampled_from(goals))
        ev = []
        if es and draw(st.booleans()):
            ev = [e for e in es if draw(st.booleans())] or [draw(st.sampled_from(es))]
        subs.append({"goal": g, "evidence": ev, "use3": bool(ev) or draw(st.integers(0, 3)) == 0})
    order = list(draw(st.permutations(list(range(n)))))
    order += [draw(st.sampled_from(order)) for _ in range(draw(st.integers(0, 2)))]
    return {"prog": prog, "subs": subs, "order": order, "same_body": draw(st.integers(0, 2)) == 0}


KNOWN_CLASSES = {
    "cyclic_or_complement": lambda case, failure: gp.cyclic_body_disjunction_with_complement(case["prog"]),
    "negcycle_fp": lambda case, failure: gp.neg_on_cyclic_goal_under_active_cycle(case["prog"]),
    "neg_under_cycle": lambda case, failure: gp.neg_under_active_cycle(case["prog"]),
    "ad_cyclic_complement": lambda case, failure: gp.cyclic_multihead_ad_with_complementary_body(case["prog"]),
    "shared_var_call": lambda case, failure: gp.shared_var_call(case["prog"]) or
    len([t for t in case["goal"][1] if t[0] == "v"]) != len(set(t[1] for t in case["goal"][1] if t[0] == "v")),
}

SUBCHECKS = [
    SubCheck("wrapper", check, strategy=_cases, budget={"quick": 600, "thorough": 8000},
             timeout={"quick": 15, "thorough": 60}),
    SubCheck("sequence", check_seq, strategy=_seq_cases, budget={"quick": 500, "thorough": 6000},
             timeout={"quick": 15, "thorough": 60}),
]
