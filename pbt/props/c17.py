"""C17 - the parser is total and printing round-trips.

totality : token-level fuzzing (pbt/gen/c17_text.py) of PrologString / Term.from_string; thorough tier adds a
           coverage-guided atheris campaign (pbt/fuzz_c17.py) whose recorded inputs are re-checked by the same oracle.
round trip: JSON ASTs over the full operator table -> terms built with the public constructors exactly as the
           parser's factory builds them -> str() -> parse -> compare."""
import json
import os
import subprocess
import sys
import tempfile
import warnings

from hypothesis import strategies as st

from pbt.core.api import Failure, Outcome, SubCheck
from pbt.core import plrun
from pbt.gen import c17_text as gt

PROPERTY_ID = "C17"
LEVEL = "exploration"
RULE = ("totality: Hypothesis token-level generation over ProbLog's token alphabet (atoms, variables, numbers, strings, "
        "quoted atoms, every operator of the parser's table, punctuation, comments, aggregates, balanced bracket "
        "groups), raw character strings, and 1-4 token/character mutations (delete/insert/replace/transpose/duplicate) "
        "of statements of /repo/test/*.pl, of 41 short seed statements and of rendered generated programs, 20 statement "
        "skeletons (odd heads, probabilities, aggregates) with 1-2 random tokens per hole "
        "(pbt.gen.programs); oracle: list(PrologString(s)) and Term.from_string(s) return or raise a ProbLogError "
        "subclass. Non-trivial: the text contains a '.' or an operator token. thorough tier: atheris campaigns "
        "(empty corpus, 41-statement corpus; -runs/-seed fixed) whose recorded inputs are re-checked here. "
        "round trip: generated ASTs (depth <= 5) over all binary/unary operators of the parser's table with their "
        "priorities and types, conjunction, disjunction, \\+/not, lists with tails, strings, quoted atoms, negative "
        "numbers, p:: annotations, clauses, directives, annotated disjunctions, built with Term/Var/Constant/Not/And/Or/"
        "Clause/AnnotatedDisjunction the way the parser's factory builds them; oracle parse(str(t)) == t, "
        "str(parse(str(t))) == str(t) and equal probability annotations. Non-trivial: >= 2 operator nodes. "
        "Distinct = distinct text / distinct AST.")
ASSUMPTIONS = [
    "Term.from_string raising its own ValueError('Invalid term') when the text holds 0 or >= 2 statements is "
    "treated as documented behaviour of that helper (it parses ONE term), not as a parser crash",
    "operator terms are 'supported syntax' only when built as the parser builds them: Term(\"'+'\", a, b, priority=500, "
    "opspec='yfx'); Term('+', a, b) without opspec is printed in canonical form +(a,b) and is covered as an ordinary "
    "compound term",
    "Term('-', Constant(1)) with opspec is outside the domain: the parser folds -(number) into a negative Constant, "
    "so the generator does the same (PrologFactory.build_unop)",
    "the round-trip domain is the image of the parser: every AST is rendered by the harness as fully parenthesised "
    "text and parsed; the parsed term is always judged, the constructor-built term only when it equals the parsed one "
    "(class 'roundtrip-ok-outside-parser-image' counts the others; texts the parser rejects are not judged)",
    "negative head literals (\\+a :- b) are rewritten by ExtendedPrologFactory into a_p/a_n clauses, so they are not a "
    "print/parse identity and are left out of the round-trip domain (they are part of the totality domain)",
    "probability annotations are compared explicitly (Term.__eq__ ignores them): 'an equal term' is read as equal "
    "including the p:: annotations the statement lists",
    "failure signatures of the round trip are root-cause families computed from a minimal failing sub-term: "
    "rt:<family>:<node class>/<offending child class> (see root_cause())",
    "floats are drawn with <= 6 significant digits (Constant rounds to 15 decimals; see C28)",
]

# ------------------------------------------------------------------------------------------------ totality


def _parse_program(s):
    from problog.program import PrologString

    return list(PrologString(s))


def parse_outcome(s):
    """('ok', n) | ('error', name) | ('resource', name) | ('crash', sig, exc text)."""
    try:
        with plrun.captured_output(), warnings.catch_warnings():
            warnings.simplefilter("ignore")
            r = _parse_program(s)
        return ("ok", len(r))
    except plrun.RESOURCE_ERRORS as exc:
        return ("resource", type(exc).__name__)
    except Exception as exc:  # noqa
        if plrun.is_problog_error(exc):
            return ("error", type(exc).__name__)
        return ("crash", plrun.exc_signature(exc), "%s: %s" % (type(exc).__name__, exc))


def from_string_outcome(s):
    from problog.logic import Term

    try:
        with plrun.captured_output(), warnings.catch_warnings():
            warnings.simplefilter("ignore")
            Term.from_string(s)
        return ("ok", 1)
    except plrun.RESOURCE_ERRORS as exc:
        return ("resource", type(exc).__name__)
    except Exception as exc:  # noqa
        if plrun.is_problog_error(exc):
            return ("error", type(exc).__name__)
        if type(exc) is ValueError and str(exc).startswith("Invalid term"):
            return ("error", "ValueError-invalid-term")
        return ("crash", plrun.exc_signature(exc), "%s: %s" % (type(exc).__name__, exc))


def check_total(case):
    s = case["s"] if isinstance(case, dict) else case
    feats = []
    nontrivial = gt.reaches_statement_level(s)
    r = parse_outcome(s)
    if r[0] == "resource":
        return Outcome(inconclusive=r[1])
    if r[0] == "crash":
        return Outcome(nontrivial=nontrivial, classes=["crash"], failure=Failure(
            "crash", "list(PrologString(%r)) raised %s" % (s, r[2]), sig=r[1]))
    r2 = from_string_outcome(s)
    if r2[0] == "resource":
        return Outcome(inconclusive=r2[1])
    if r2[0] == "crash":
        return Outcome(nontrivial=nontrivial, classes=["crash"], failure=Failure(
            "crash", "Term.from_string(%r) raised %s" % (s, r2[2]), sig=r2[1]))
    cls = "parsed" if r[0] == "ok" else "rejected:" + r[1]
    if r[0] == "ok":
        feats.append("statements:%s" % ("0" if r[1] == 0 else "1" if r[1] == 1 else "2+"))
    return Outcome(nontrivial=nontrivial, features=feats, classes=[cls], sample=s)


def _total_strategy():
    return gt.fuzz_texts().map(lambda s: {"s": s})


# ------------------------------------------------------------------------------------------------ atheris (thorough)

ATHERIS_RUNS = {"quick": 0, "thorough": 1500000}


def _known_sigs():
    """Signatures of listed known findings of this property (skipped by the fuzz target so the campaign goes on)."""
    out = []
    try:
        from pbt.core import findings

        for e in findings.for_property(PROPERTY_ID, "known"):
            if "sig" in e:
                out.append(e["sig"])
    except Exception:
        pass
    return out


def run_atheris(mode, runs, seed, with_corpus, max_len=96, timeout=3000):
    """Run one campaign in a sub-process; returns (list of recorded input strings, info dict)."""
    base = tempfile.mkdtemp(prefix="c17-atheris-", dir=tempfile.gettempdir())
    corpus = os.path.join(base, "corpus")
    art = os.path.join(base, "art")
    os.makedirs(corpus)
    os.makedirs(art)
    if with_corpus:
        for i, s in enumerate(gt.SHORT_STATEMENTS):
            with open(os.path.join(corpus, "seed%02d" % i), "w", encoding="utf8") as f:
                f.write(s)
    skip = os.path.join(base, "skip.txt")
    with open(skip, "w", encoding="utf8") as f:
        f.write("\n".join(_known_sigs()))
    env = dict(os.environ)
    env["PYTHONWARNINGS"] = "ignore"
    cmd = [sys.executable, "-m", "pbt.fuzz_c17", "--mode", mode, "--skip-file", skip, corpus, "-runs=%d" % runs,
           "-seed=%d" % seed, "-max_len=%d" % max_len, "-artifact_prefix=%s/" % art, "-verbosity=0"]
    info = {"runs": runs, "seed": seed, "corpus": 41 if with_corpus else 0, "mode": mode}
    try:
        p = subprocess.run(cmd, env=env, stdout=subprocess.PIPE, stderr=subprocess.STDOUT, timeout=timeout,
                           cwd=os.path.dirname(os.path.dirname(os.path.dirname(os.path.abspath(__file__)))))
        tail = p.stdout.decode("utf8", "replace")[-400:]
        info["rc"] = p.returncode
        info["done"] = p.returncode == 0
        info["tail"] = tail
    except subprocess.TimeoutExpired:
        info["rc"] = "timeout"
        info["done"] = False
    except Exception as exc:  # atheris not usable
        info["rc"] = "unusable: %r" % (exc,)
        info["done"] = False
    found = []
    for fn in sorted(os.listdir(art)):
        if fn.startswith("finding-") and fn.endswith(".txt") or fn.startswith("crash-"):
            try:
                with open(os.path.join(art, fn), "rb") as f:
                    found.append(f.read().decode("utf8", errors="ignore"))
            except OSError:
                pass
    info["corpus_after"] = len(os.listdir(corpus))
    return found, info


def _atheris_cases(tier):
    try:  # C17_ATHERIS_RUNS overrides the number of executions (smoke tests of the thorough tier)
        ATHERIS_RUNS[tier] = int(os.environ["C17_ATHERIS_RUNS"]) if tier == "thorough" else ATHERIS_RUNS[tier]
    except (KeyError, ValueError):
        pass
    if ATHERIS_RUNS.get(tier, 0) <= 0:
        return []
    try:
        seed = int(os.environ.get("VERIF_SEED", "1"))
    except ValueError:
        seed = 1
    return [{"corpus": False, "runs": ATHERIS_RUNS[tier], "seed": seed},
            {"corpus": True, "runs": ATHERIS_RUNS[tier], "seed": seed}]


def check_atheris(case):
    found, info = run_atheris("parse", case["runs"], case["seed"], case["corpus"])
    if not info.get("done"):
        return Outcome(inconclusive="atheris-unusable:%s" % info.get("rc"), sample=info)
    by_sig = {}
    for s in found:
        out = check_total({"s": s})
        if out.failure is not None and out.failure.sig not in by_sig:
            by_sig[out.failure.sig] = out.failure
    extra = {"atheris_execs": case["runs"], "atheris_recorded_inputs": len(found),
             "atheris_distinct_sigs": len(by_sig)}
    if by_sig:
        sigs = sorted(by_sig)
        f = by_sig[sigs[0]]
        detail = f.detail + (" || other signatures in this campaign: %s" % sigs[1:] if len(sigs) > 1 else "")
        return Outcome(nontrivial=True, failure=Failure("crash", detail, sig=f.sig), extra=extra, sample=info)
    return Outcome(nontrivial=True, classes=["atheris-clean"], extra=extra, sample=info)


# ------------------------------------------------------------------------------------------------ round trip

BIN = dict((o[0], (o[1], o[2])) for o in gt.BINARY_OPERATORS)
UN = dict((o[0], (o[1], o[2])) for o in gt.UNARY_OPERATORS)
# operators with a dedicated factory call (dedicated AST nodes below)
_SPECIAL_BIN = (",", ";", "::", "~", ":-", "<-")
PLAIN_BIN = [o for o in gt.BINARY_OPERATORS if o[0] not in _SPECIAL_BIN]
PLAIN_UN = [o for o in gt.UNARY_OPERATORS if o[0] not in (":-", "\\+", "not")]

_ATOMS = ["a", "b", "c", "foo", "p", "q", "[]", "'A b'", "'it\\'s'", "'X'", "''", "aB_1", "true", "e"]
_FUNCTORS = ["f", "g", "p", "q", "'A b'", "foo"]
_VARS = ["X", "Y", "Z", "_", "_G1", "Abc"]
_STRINGS = ["s", "", "two words", "a\\\"b", "it's", "X"]
_FLOATS = [0.5, 2.5, 0.25, 1.0, 0.0, 100.0, 1e-05, 3.14159, 1e+20, 0.1]


def _leaf():
    return st.one_of(
        st.sampled_from(_ATOMS).map(lambda a: ["atom", a]),
        st.sampled_from(_VARS).map(lambda v: ["var", v]),
        st.integers(-20, 20).map(lambda n: ["int", n]),
        st.sampled_from([0, 1, 7, 10 ** 12, -1, -3]).map(lambda n: ["int", n]),
        st.tuples(st.sampled_from(_FLOATS), st.booleans()).map(lambda t: ["float", -t[0] if t[1] else t[0]]),
        st.sampled_from(_STRINGS).map(lambda s: ["str", s]),
    )


def _extend(inner):
    binop = st.tuples(st.sampled_from([o[0] for o in PLAIN_BIN]), inner, inner).map(lambda t: ["bin", t[0], t[1], t[2]])
    arith = st.tuples(st.sampled_from(["+", "-", "*", "/", "-", "**", "^", "mod", "=", "is", ":", "->", "=>"]), inner,
                      inner).map(lambda t: ["bin", t[0], t[1], t[2]])
    unop = st.tuples(st.sampled_from([o[0] for o in PLAIN_UN]), inner).map(lambda t: ["un", t[0], t[1]])
    neg = st.tuples(st.sampled_from(["\\+", "not"]), inner).map(lambda t: ["not", t[0], t[1]])
    conj = st.tuples(inner, inner).map(lambda t: ["and", t[0], t[1]])
    disj = st.tuples(inner, inner).map(lambda t: ["or", t[0], t[1]])
    cmp_ = st.tuples(st.sampled_from(_FUNCTORS), st.lists(inner, min_size=1, max_size=3)).map(
        lambda t: ["cmp", t[0], t[1]])
    lst = st.tuples(st.lists(inner, min_size=1, max_size=3),
                    st.one_of(st.none(), st.none(), st.sampled_from(_VARS).map(lambda v: ["var", v]), inner)).map(
        lambda t: ["list", t[0], t[1]])
    return st.one_of(binop, arith, unop, unop.map(lambda u: ["un", "-", u[2]]), neg, conj, disj, cmp_, lst)


def _terms(max_leaves=12):
    return st.recursive(_leaf(), _extend, max_leaves=max_leaves)


def _callable():
    return st.one_of(st.sampled_from(["a", "b", "p", "q", "'A b'"]).map(lambda a: ["atom", a]),
                     st.sampled_from(["a", "b", "p", "q", "'A b'"]).map(lambda a: ["atom", a]),
                     st.just(["bin", ":", ["atom", "m"], ["atom", "a"]]),
                     st.tuples(st.sampled_from(_FUNCTORS), st.lists(_terms(4), min_size=1, max_size=2)).map(
                         lambda t: ["cmp", t[0], t[1]]))


def _prob_value():
    return st.one_of(st.sampled_from([0.5, 0.25, 1.0, 0.0, 0.3]).map(lambda f: ["float", f]),
                     st.sampled_from(_VARS[:3]).map(lambda v: ["var", v]),
                     st.just(["cmp", "t", [["var", "_"]]]), st.just(["cmp", "t", [["float", 0.5]]]),
                     st.just(["bin", "/", ["int", 1], ["int", 3]]), st.just(["int", 1]), _terms(3))


def _head():
    plain = _callable()
    prob = st.tuples(_prob_value(), _callable()).map(lambda t: ["prob", t[0], t[1]])
    return st.one_of(plain, prob, prob)


def _statements():
    body = _terms(10)
    fact = _head()
    clause = st.tuples(_head(), body).map(lambda t: ["clause", t[0], t[1]])
    ad = st.tuples(st.lists(st.tuples(_prob_value(), _callable()).map(lambda t: ["prob", t[0], t[1]]), min_size=2,
                            max_size=3), st.one_of(st.none(), body)).map(lambda t: ["ad", t[0], t[1]])
    directive = body.map(lambda b: ["directive", b])
    neghead = st.tuples(st.one_of(st.none(), _prob_value()), _callable(), body).map(
        lambda t: ["clause", ["not", "\\+", t[1]] if t[0] is None else ["prob", t[0], ["not", "\\+", t[1]]], t[2]])
    del neghead  # negative head literals are rewritten by the parser (a_p / a_n): not a print/parse identity
    return st.one_of(_terms(12), _terms(12), fact, clause, clause, ad, directive)


def _rt_strategy():
    return _statements().map(lambda a: {"ast": a})


def depth(a):
    if not isinstance(a, list) or not a:
        return 0
    k = a[0]
    if k in ("atom", "var", "int", "float", "str"):
        return 1
    subs = []
    for x in a[1:]:
        if isinstance(x, list):
            if x and isinstance(x[0], str) and x[0] in _KINDS:
                subs.append(depth(x))
            else:
                subs.extend(depth(y) for y in x if isinstance(y, list))
    return 1 + max(subs or [0])


_KINDS = ("atom", "var", "int", "float", "str", "bin", "un", "not", "and", "or", "cmp", "list", "prob", "clause", "ad",
          "directive")


def count_ops(a):
    if not isinstance(a, list) or not a:
        return 0
    n = 1 if a[0] in ("bin", "un", "not", "and", "or", "clause", "ad", "prob", "directive") else 0
    for x in a[1:]:
        if isinstance(x, list):
            if x and isinstance(x[0], str) and x[0] in _KINDS:
                n += count_ops(x)
            else:
                n += sum(count_ops(y) for y in x if isinstance(y, list))
    return n


def build(a):
    """JSON AST -> Term, with the public constructors, mirroring PrologFactory."""
    from problog.logic import Term, Var, Constant, Not, And, Or, Clause, AnnotatedDisjunction

    k = a[0]
    if k == "atom":
        return Term(a[1])
    if k == "var":
        return Var(a[1])
    if k == "int":
        return Constant(int(a[1]))
    if k == "float":
        return Constant(float(a[1]))
    if k == "str":
        return Constant('"' + a[1] + '"')
    if k == "cmp":
        return Term(a[1], *[build(x) for x in a[2]])
    if k == "list":
        tail = Term("[]") if a[2] is None else build(a[2])
        for e in reversed(a[1]):
            tail = Term(".", build(e), tail)
        return tail
    if k == "bin":
        p, spec = BIN[a[1]]
        return Term("'%s'" % a[1], build(a[2]), build(a[3]), priority=p, opspec=spec)
    if k == "un":
        p, spec = UN[a[1]]
        x = build(a[2])
        if a[1] == "-" and x.is_constant() and (x.is_float() or x.is_integer()):
            return Constant(-x.value)
        return Term("'%s'" % a[1], x, priority=p, opspec=spec)
    if k == "not":
        return Not(a[1], build(a[2]))
    if k == "and":
        return And(build(a[1]), build(a[2]))
    if k == "or":
        return Or(build(a[1]), build(a[2]))
    if k == "prob":
        t = build(a[2])
        t.probability = build(a[1])
        return t
    if k == "clause":
        return Clause(build(a[1]), build(a[2]))
    if k == "directive":
        return Clause(Term("_directive"), build(a[1]))
    if k == "ad":
        heads = [build(h) for h in a[1]]
        if a[2] is None:
            return Or.from_list(heads)
        return AnnotatedDisjunction(heads, build(a[2]))
    raise ValueError("unknown AST node %r" % (a,))


def _num_text(v):
    return repr(v)


def explicit(a, top=False):
    """Fully parenthesised source text of the AST (independent of the repository's printer)."""
    k = a[0]
    if k in ("atom", "var"):
        return a[1]
    if k in ("int", "float"):
        v = int(a[1]) if k == "int" else float(a[1])
        return "(%s)" % _num_text(v) if v < 0 or (v == 0 and str(v).startswith("-")) else _num_text(v)
    if k == "str":
        return '"' + a[1] + '"'
    if k == "cmp":
        return "%s(%s)" % (a[1], ", ".join(_arg(x) for x in a[2]))
    if k == "list":
        s = ", ".join(_arg(x) for x in a[1])
        if a[2] is not None:
            s += " | " + _arg(a[2])
        return "[" + s + "]"
    if k == "bin":
        return "(%s) %s (%s)" % (explicit(a[2]), a[1], explicit(a[3]))
    if k == "un":
        return "%s (%s)" % (a[1], explicit(a[2]))
    if k == "not":
        return "%s (%s)" % (a[1], explicit(a[2]))
    if k == "and":
        return "(%s) , (%s)" % (explicit(a[1]), explicit(a[2]))
    if k == "or":
        return "(%s) ; (%s)" % (explicit(a[1]), explicit(a[2]))
    if k == "prob":
        return "(%s) :: %s" % (explicit(a[1]), explicit(a[2]))
    if k == "clause":
        return "%s :- (%s)" % (explicit(a[1]), explicit(a[2]))
    if k == "directive":
        return ":- (%s)" % explicit(a[1])
    if k == "ad":
        s = " ; ".join(explicit(h) for h in a[1])
        if a[2] is not None:
            s += " :- (%s)" % explicit(a[2])
        return s
    raise ValueError("unknown AST node %r" % (a,))


def _arg(a):
    if a[0] in ("bin", "un", "not", "and", "or", "prob", "clause", "ad", "directive"):
        return "(" + explicit(a) + ")"
    return explicit(a)


def _parse_one(text):
    with plrun.captured_output(), warnings.catch_warnings():
        warnings.simplefilter("ignore")
        r = _parse_program(text + " .")
    if len(r) != 1:
        raise ValueError("text parses to %d statements" % len(r))
    return r[0]


def _probs(t, out, depth_=0):
    """Pre-order list of probability annotations (as text) of a term."""
    from problog.logic import Term

    if depth_ > 60 or not isinstance(t, Term):
        return out
    if isinstance(t, (list, tuple)):
        return out
    p = getattr(t, "probability", None)
    out.append(None if p is None else str(p))
    for x in t.args:
        if isinstance(x, list):
            for y in x:
                _probs(y, out, depth_ + 1)
        else:
            _probs(x, out, depth_ + 1)
    return out


def roundtrip(t):
    """None if printing and parsing `t` gives `t` back, otherwise (kind, detail)."""
    try:
        s = str(t)
    except plrun.RESOURCE_ERRORS:
        raise
    except Exception as exc:  # noqa
        return ("print-crash", "str(t) raised %r" % (exc,), plrun.exc_signature(exc))
    try:
        t2 = _parse_one(s)
    except plrun.RESOURCE_ERRORS:
        raise
    except Exception as exc:  # noqa
        if plrun.is_problog_error(exc):
            return ("reparse-error", "printed text %r does not parse: %s: %s" % (s, type(exc).__name__, exc), None)
        if isinstance(exc, ValueError) and "statements" in str(exc):
            return ("reparse-error", "printed text %r: %s" % (s, exc), None)
        return ("reparse-crash", "parsing printed text %r raised %r" % (s, exc), plrun.exc_signature(exc))
    try:
        eq = (t2 == t) and (t == t2)
    except plrun.RESOURCE_ERRORS:
        raise
    except Exception as exc:  # noqa
        return ("eq-crash", "comparing raised %r" % (exc,), plrun.exc_signature(exc))
    s2 = str(t2)
    if not eq:
        return ("term-mismatch", "printed %r, which parses to a different term (printed again: %r)" % (s, s2), None)
    if s2 != s:
        return ("text-mismatch", "printed %r, re-parsed term prints %r" % (s, s2), None)
    if _probs(t, []) != _probs(t2, []):
        return ("probability-lost", "printed %r: probability annotations %r became %r" % (
            s, [p for p in _probs(t, []) if p], [p for p in _probs(t2, []) if p]), None)
    return None


def _subterms(a):
    """Direct sub-ASTs of a node."""
    out = []
    for x in a[1:]:
        if isinstance(x, list):
            if x and isinstance(x[0], str) and x[0] in _KINDS:
                out.append(x)
            else:
                out.extend(y for y in x if isinstance(y, list) and y and y[0] in _KINDS)
    return out


def node_class(x, as_child=True):
    """Syntactic class of an AST node (used for root-cause signatures and known-finding classes)."""
    k = x[0]
    if k in ("int", "float"):
        return "neg-number" if (float(x[1]) < 0 or str(x[1]).startswith("-")) else "number"
    if k == "un":
        if x[1] == "-" and x[2][0] in ("int", "float"):
            return node_class([x[2][0], -x[2][1]])  # folded into a constant by the factory
        return "prefix"
    if k == "bin":
        return "infix-hi" if BIN[x[1]][0] >= 1000 else "infix"
    if k == "cmp":
        return "call"
    if k == "atom" and x[1] == "[]":
        return "list"
    return k


def _children_slots(a):
    """[(path setter, child)] for the direct sub-ASTs of a node."""
    out = []
    for i, x in enumerate(a):
        if i == 0 or not isinstance(x, list):
            continue
        if x and isinstance(x[0], str) and x[0] in _KINDS:
            out.append(((i, None), x))
        else:
            for j, y in enumerate(x):
                if isinstance(y, list) and y and y[0] in _KINDS:
                    out.append(((i, j), y))
    return out


def _replace(a, slot, new):
    b = list(a)
    i, j = slot
    if j is None:
        b[i] = new
    else:
        b[i] = list(b[i])
        b[i][j] = new
    return b


def root_cause_sig(m):
    """Signature of a minimal failing AST: class of the node / class of the child whose replacement by a plain atom
    repairs the round trip (the offending child)."""
    parent = node_class(m)
    if m[0] == "bin":
        parent = "infix-hi" if BIN[m[1]][0] >= 1000 else "infix"
    offending = None
    offending_slot = None
    for slot, child in _children_slots(m):
        if child[0] in ("atom", "var") and child[1] != "[]":
            continue
        try:
            if roundtrip(build(_replace(m, slot, ["atom", "z"]))) is None:
                offending = child
                offending_slot = slot
                break
        except Exception:  # noqa
            continue
    if offending is None:
        # no single child is responsible: name the first child of the most suspicious class
        kids = [c for _, c in _children_slots(m)]

        def _elements(x):
            return _elements(x[1]) + _elements(x[2]) if node_class(x) == "and" else [x]
        if parent not in ("and", "prob"):
            # (a conjunction is transparent: its elements count as children, before the conjunction itself)
            # (a disjunction inside a conjunction is printed with its parentheses: not a suspect by itself)
            kids = [e for c in kids if node_class(c) == "and" for e in _elements(c)
                    if node_class(e) not in ("or", "and")] + kids
        for cls in ("or", "not", "infix-hi", "prob", "clause", "and", "prefix", "neg-number", "list", "infix"):
            hit = [c for c in kids if node_class(c) == cls]
            if hit:
                offending = hit[0]
                break
    if offending is None:
        return "rt:other:%s/?" % parent
    if offending_slot is not None and node_class(offending) == "and" and parent not in ("and", "prob"):
        # (under a conjunction or a probability the conjunction itself is the listed offender, F-C17-RT-AND)
        # a conjunction is transparent: if replacing one element INSIDE it also repairs the round trip, that element
        # is the offender (f((a, not a)) fails because of the negation, f((a,(b;c),d)) because of the disjunction)
        def _inner(path_ast, rebuild):
            for slot2, ch in _children_slots(path_ast):
                if ch[0] in ("atom", "var") and ch[1] != "[]":
                    continue
                try:
                    if roundtrip(build(rebuild(_replace(path_ast, slot2, ["atom", "z"])))) is None:
                        if node_class(ch) in ("and", "or"):
                            deeper = _inner(ch, lambda x, s2=slot2, pa=path_ast, rb=rebuild: rb(_replace(pa, s2, x)))
                            if deeper is not None:
                                return deeper
                        return ch
                except Exception:  # noqa
                    continue
            return None
        inner = _inner(offending, lambda x: _replace(m, offending_slot, x))
        if inner is None:
            # no single element: all elements of one class together (f((not a, not a)))
            def _subst(x, cls):
                # (conjunctions and, below them, disjunctions are transparent)
                if node_class(x) == cls:
                    return ["atom", "z"]
                if node_class(x) in ("and", "or"):
                    return [x[0], _subst(x[1], cls), _subst(x[2], cls)]
                return x

            def _first(x, cls):
                if node_class(x) == cls:
                    return x
                if node_class(x) in ("and", "or"):
                    return _first(x[1], cls) or _first(x[2], cls)
                return None
            for cls in ("not", "or", "infix-hi", "prob", "clause", "prefix", "neg-number"):
                hit = _first(offending, cls)
                if hit is None:
                    continue
                try:
                    if roundtrip(build(_replace(m, offending_slot, _subst(offending, cls)))) is None:
                        inner = hit
                        break
                except Exception:  # noqa
                    continue
        if inner is not None and node_class(inner) != "and":
            offending = inner
    cc = node_class(offending)
    if m[0] == "bin" and offending[0] == "bin" and BIN[m[1]][0] == BIN[offending[1]][0]:
        cc = "infix-same-priority"
    cause = root_cause(parent, cc)
    if cause in ("other", "mixed-associativity") and m[0] == "bin" and cc in ("infix", "infix-same-priority") \
            and (offending_slot is None or offending_slot[0] == 3) and _leftmost_sign(offending):
        # the right operand is printed without parentheses and its LEFTMOST leaf carries the sign that merges with
        # the operator: a < ((-1) + a) prints 'a<-1+a'
        cause = "sign-after-operator"
    return "rt:%s:%s/%s" % (cause, parent, cc)


def root_cause(parent, child):
    """Root-cause family of a (node class, offending child class) pair; see KNOWN_CLASSES for the case predicates."""
    if parent in ("prefix", "not", "directive"):
        return "prefix-operand"            # operand of a prefix operator printed without parentheses / separator
    if child == "or":
        return "disjunction-operand"       # Or carries no priority: never parenthesised
    if child == "not":
        return "negation-operand"          # nested Not printed in call notation / without parentheses
    if child in ("infix-hi", "clause", "ad") or (child == "prob" and parent != "ad"):
        return "priority-1000-operand"     # operand of priority >= 1000 as argument / conjunct / clause body
    if child == "and":
        return "conjunction-operand"       # left-nested conjunction, conjunction as probability
    if child in ("neg-number", "prefix"):
        return "sign-after-operator"       # 'a<-1', '1:-1', 'a/\\b', '2**-3'
    if child == "infix-same-priority":
        return "mixed-associativity"       # 'a^b*c'
    if parent == "prob" and child == "infix":
        return "probability-on-operator"   # 0.5::m:a loses its probability
    return "other"


def _minimal_failing(a, budget):
    """Descend to a sub-AST that fails on its own while all its children pass."""
    for sub in _subterms(a):
        if budget[0] <= 0:
            break
        if sub[0] in ("atom", "var", "str"):
            continue
        budget[0] -= 1
        try:
            r = roundtrip(build(sub))
        except Exception:  # noqa
            continue
        if r is not None:
            return _minimal_failing(sub, budget)
    return a


def check_roundtrip(case):
    ast = case["ast"]
    d = depth(ast)
    if d > 7:
        return Outcome(classes=["too-deep"])
    nops = count_ops(ast)
    feats = set("node:" + k for k in _node_kinds(ast))
    t = build(ast)
    # the domain: terms the parser itself builds from (fully parenthesised) source text
    try:
        t0 = _parse_one(explicit(ast, top=True))
        in_image = (t0 == t) and (t == t0) and _probs(t0, []) == _probs(t, [])
    except plrun.RESOURCE_ERRORS:
        raise
    except Exception as exc:  # noqa
        if not plrun.is_problog_error(exc) and not isinstance(exc, ValueError):
            return Outcome(nontrivial=nops >= 2, features=sorted(feats), failure=Failure(
                "crash", "parsing %r raised %r" % (explicit(ast, top=True), exc), sig=plrun.exc_signature(exc)))
        t0 = None
        in_image = False
    if t0 is None:
        return Outcome(features=sorted(feats), classes=["explicit-text-rejected"],
                       sample={"explicit": explicit(ast, top=True), "constructed": str(t)})
    todo = [("parsed", t0)]
    if in_image:
        todo.append(("constructed", t))
    for which, term in todo:
        r = roundtrip(term)
        if r is not None and not in_image:
            # the parser built something else than the factory conventions predict (e.g. a different functor): the
            # parsed term is still a term built from supported syntax, so it is judged, under its own signature
            return Outcome(nontrivial=nops >= 2, features=sorted(feats), classes=["roundtrip-failed"], failure=Failure(
                r[0], "term parsed from %r (printed %r; the constructors give %r): %s" % (
                    explicit(ast, top=True), str(t0), str(t), r[1]), sig=r[2] or "rt-parsed-only:%s" % _image_mismatch_op(ast)))
        if r is not None:
            m = _minimal_failing(ast, [40])
            rm = None
            try:
                rm = roundtrip(build(m))
            except Exception:  # noqa
                pass
            if rm is None:
                m, rm = ast, r
            sig = rm[2] if rm[2] else root_cause_sig(m)
            return Outcome(nontrivial=nops >= 2, features=sorted(feats), classes=["roundtrip-failed"], failure=Failure(
                rm[0], "%s term %s: %s || minimal failing sub-term %s: %s" % (
                    which, explicit(ast, top=True), r[1], explicit(m, top=True), rm[1]), sig=sig))
    return Outcome(nontrivial=nops >= 2, features=sorted(feats),
                   classes=["roundtrip-ok" if in_image else "roundtrip-ok-outside-parser-image"],
                   sample={"text": str(t0), "ast_depth": d})


def _image_mismatch_op(a, budget=None):
    """Operator (or node kind) of a minimal sub-AST whose explicit text the parser turns into another term than the
    factory conventions predict."""
    budget = budget or [60]
    for sub in _subterms(a):
        if budget[0] <= 0:
            break
        if sub[0] in ("atom", "var", "str", "int", "float"):
            continue
        budget[0] -= 1
        try:
            t0 = _parse_one(explicit(sub, top=True))
            same = t0 == build(sub)
        except Exception:  # noqa
            continue
        if not same:
            return _image_mismatch_op(sub, budget)
    return a[1] if a[0] in ("bin", "un", "not") else a[0]


def _node_kinds(a):
    out = set()
    stack = [a]
    while stack:
        x = stack.pop()
        k = x[0]
        if k == "bin":
            out.add("bin:%s" % x[1])
        elif k == "un":
            out.add("un:%s" % x[1])
        else:
            out.add(k)
        stack.extend(_subterms(x))
    return out


def _rt_enumerate(tier):
    """Bounded-exhaustive: every operator of the table applied to (atom, negative number, operator term of each
    associativity class, conjunction, disjunction, negation) operands, both sides."""
    operands = [["atom", "a"], ["int", -3], ["var", "X"], ["bin", "+", ["atom", "a"], ["atom", "b"]],
                ["bin", "=", ["atom", "a"], ["atom", "b"]], ["bin", "^", ["atom", "a"], ["atom", "b"]],
                ["bin", "**", ["atom", "a"], ["atom", "b"]], ["bin", "-->", ["atom", "a"], ["atom", "b"]],
                ["un", "-", ["atom", "a"]], ["un", "\\", ["atom", "a"]], ["un", "~", ["atom", "a"]],
                ["not", "\\+", ["atom", "a"]], ["and", ["atom", "a"], ["atom", "b"]], ["or", ["atom", "a"], ["atom", "b"]],
                ["list", [["atom", "a"]], ["var", "T"]], ["cmp", "f", [["atom", "a"], ["int", -1]]]]
    for o in PLAIN_BIN:
        for x in operands:
            for y in operands:
                yield {"ast": ["bin", o[0], x, y]}
    for o in PLAIN_UN:
        for x in operands:
            yield {"ast": ["un", o[0], x]}
    for f in ("\\+", "not"):
        for x in operands:
            yield {"ast": ["not", f, x]}
    for x in operands:
        for y in operands:
            yield {"ast": ["and", x, y]}
            yield {"ast": ["or", x, y]}
            yield {"ast": ["cmp", "f", [x, y]]}
            yield {"ast": ["list", [x], y]}
            yield {"ast": ["clause", ["atom", "h"], ["and", x, y]]}
    # three-element conjunctions / disjunctions (both nestings, and one inside the other) with every operand
    # position taken from a small operand set, bare and nested in an argument, a list and an infix operand
    small = [["atom", "a"], ["var", "X"], ["int", -3], ["and", ["atom", "b"], ["atom", "c"]],
             ["or", ["atom", "b"], ["atom", "c"]], ["not", "\\+", ["atom", "b"]], ["bin", "=", ["atom", "b"], ["atom", "c"]],
             ["un", "-", ["atom", "b"]]]
    for x in small:
        for y in small:
            for z in small:
                for t in (["and", x, ["and", y, z]], ["and", ["and", x, y], z], ["or", x, ["or", y, z]],
                          ["or", ["or", x, y], z], ["and", x, ["or", y, z]], ["or", x, ["and", y, z]]):
                    yield {"ast": t}
                    yield {"ast": ["cmp", "f", [t]]}
                    yield {"ast": ["list", [t], ["var", "T"]]}
                    yield {"ast": ["bin", "=", ["var", "Y"], t]}
                    yield {"ast": ["clause", ["atom", "h"], ["cmp", "g", [t, ["atom", "e"]]]]}


def _render_rt(case):
    try:
        return explicit(case["ast"], top=True)
    except Exception:  # noqa
        return case


SUBCHECKS = [
    SubCheck("total", check_total, strategy=_total_strategy, budget={"quick": 20000, "thorough": 400000},
             timeout={"quick": 10, "thorough": 20}, render=lambda c: c["s"]),
    SubCheck("roundtrip", check_roundtrip, strategy=_rt_strategy, enumerate=_rt_enumerate,
             budget={"quick": 5000, "thorough": 200000}, timeout={"quick": 10, "thorough": 20}, render=_render_rt,
             exhaustive="every operator of the table x 16 operand shapes on both sides (atoms, negative numbers, "
                        "operator terms of each type, conjunction, disjunction, negation, lists)"),
    SubCheck("atheris", check_atheris, enumerate=_atheris_cases, strategy=None,
             timeout={"quick": 60, "thorough": 3600}, max_shards=2,
             exhaustive="two coverage-guided campaigns (empty corpus / 41 seed statements), thorough tier only"),
]


# ------------------------------------------------------------------------------------------------ known-finding classes
# Narrow predicates computed from the case (the AST); they mirror root_cause() above.

_SIMPLE = ("atom", "var", "number", "str", "call")


def _walk(a, parent=None, slot=None):
    """Yield (node, parent node, slot) for every node of the AST."""
    yield a, parent, slot
    for sl, child in _children_slots(a):
        for x in _walk(child, a, sl):
            yield x


def _leftmost_sign(x):
    c = node_class(x)
    if c in ("neg-number", "prefix"):
        return True
    if x[0] == "not":
        return x[1] != "not"
    if x[0] in ("bin", "and", "or", "prob"):
        kids = [ch for _, ch in _children_slots(x)]
        return bool(kids) and _leftmost_sign(kids[0])
    return False


def _ast_of(case):
    return case["ast"] if isinstance(case, dict) and "ast" in case else None


def _cls_prefix_operand(case, failure):
    a = _ast_of(case)
    if a is None:
        return False
    for n, _, _ in _walk(a):
        if node_class(n) == "prefix" and node_class(n[2]) not in _SIMPLE:
            return True
        if n[0] == "not" and (node_class(n[2]) in ("neg-number", "prefix", "infix-hi", "prob", "clause", "list")
                              or _leftmost_sign(n[2])):
            return True
        if n[0] == "directive" and (_leftmost_sign(n[1]) or (n[1][0] == "bin" and BIN[n[1][1]][0] >= 1200)):
            return True
    return False


def _cls_child(parents, children, slots=None):
    def pred(case, failure):
        a = _ast_of(case)
        if a is None:
            return False
        for n, par, sl in _walk(a):
            if par is None:
                continue
            pc = node_class(par)
            if pc in parents and node_class(n) in children and (slots is None or slots(par, sl)):
                return True
        return False
    return pred


def _cls_nested_not(case, failure):
    """A negation below a compound term, list, operator or probability (printed there in call notation)."""
    a = _ast_of(case)
    if a is None:
        return False

    def rec(n, under):
        if n[0] == "not" and under:
            return True
        u = under or node_class(n) in ("call", "list", "infix", "infix-hi", "prefix", "prob")
        return any(rec(ch, u) for _, ch in _children_slots(n))
    return rec(a, False)


def _cls_mixed_assoc(case, failure):
    a = _ast_of(case)
    if a is None:
        return False
    for n, par, _ in _walk(a):
        if par is not None and n[0] == "bin" and par[0] == "bin" and BIN[n[1]][0] == BIN[par[1]][0] \
                and BIN[n[1]][1] != BIN[par[1]][1]:
            return True
    return False


def _cls_sign_after_operator(case, failure):
    a = _ast_of(case)
    if a is None:
        return False
    for n, _, _ in _walk(a):
        if n[0] == "bin" and (_leftmost_sign(n[3]) or node_class(n[2]) == "neg-number"):
            return True
    return False


def _has_op(op):
    def pred(case, failure):
        a = _ast_of(case)
        return a is not None and any(n[0] == "bin" and n[1] == op for n, _, _ in _walk(a))
    return pred


_NONSTATEMENT = ("call", "list", "infix", "infix-hi", "prefix", "not", "and", "or", "prob", "clause", "directive", "ad")

KNOWN_CLASSES = {
    "always": lambda case, failure: True,
    # rt:prefix-operand:*
    "prefix_operator_operand": _cls_prefix_operand,
    # rt:disjunction-operand:*  (with the printer repair only 'or_as_call_argument' is left)
    "or_as_operand": _cls_child(("call", "list", "infix", "infix-hi", "prob", "or", "ad", "clause"), ("or",),
                                lambda par, sl: not (par[0] == "or" and sl[0] == 2) and not (par[0] in ("clause", "ad")
                                                                                             and sl[0] == 2)),
    "or_as_call_argument": _cls_child(("call",), ("or",)),
    # rt:negation-operand:*
    "nested_negation": _cls_nested_not,
    # rt:priority-1000-operand:*
    "priority_1000_operand": _cls_child(_NONSTATEMENT, ("infix-hi", "prob", "clause", "ad")),
    # rt:conjunction-operand:*
    "left_nested_conjunction": _cls_child(("and", "prob", "call", "list", "infix", "infix-hi"), ("and",),
                                          lambda par, sl: par[0] != "and" or sl[0] == 1),
    # rt:sign-after-operator:*
    "sign_after_operator": _cls_sign_after_operator,
    # rt:mixed-associativity:*
    "mixed_associativity": _cls_mixed_assoc,
    # rt:probability-on-operator:*
    "probability_on_operator": _cls_child(("prob",), ("infix", "infix-hi"), lambda par, sl: sl[0] == 2),
    # rt-parsed-only:\=@=
    "uses_eq_at_operator": _has_op("\\=@="),
}
