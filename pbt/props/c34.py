"""C34 - utility containers behave as their abstract models (problog/util.py).

Histories are generated as operation lists (model-based testing): each operation is applied to the real
container and to a reference model, and observable state is compared after every step."""
from hypothesis import strategies as st

from pbt.core.api import Failure, Outcome, SubCheck
from pbt.core.plrun import exc_signature

PROPERTY_ID = "C34"
LEVEL = "exploration"
RULE = ("Hypothesis-generated operation histories (lists of operations with arguments) for OrderedSet (two "
        "instances; add/discard/pop first|last/|=/|/&/-/==/iteration/len/in), UHeap (push new/update through a "
        "mutable key table, pop, pop_with_key, peek, len) and BitVector (two instances; add/in/iter/len/&/|/&=/|=/"
        "bool), compared after every step with reference models (insertion-ordered dict, dict item->key, Python "
        "set). Non-trivial: OrderedSet history with a removal followed by a re-insertion or a binary operation; "
        "UHeap history that updates the key of a present item and later pops; BitVector history using two blocks "
        "(index >= 32) and a binary operation. Distinct = distinct operation list.")
ASSUMPTIONS = ["element order of OrderedSet '&' results is not compared (the statement fixes it only for insertion)"]

# ------------------------------------------------------------------------------------------------ OrderedSet

_elem = st.integers(0, 7)

_os_op = st.one_of(
    st.tuples(st.just("add"), st.integers(0, 1), _elem),
    st.tuples(st.just("discard"), st.integers(0, 1), _elem),
    st.tuples(st.just("pop"), st.integers(0, 1), st.booleans()),
    st.tuples(st.just("ior"), st.integers(0, 1), st.lists(_elem, max_size=4)),
    st.tuples(st.just("ior_set"), st.integers(0, 1)),
    st.tuples(st.just("or"), st.integers(0, 1)),
    st.tuples(st.just("and"), st.integers(0, 1)),
    st.tuples(st.just("sub"), st.integers(0, 1)),
    st.tuples(st.just("eq"), st.integers(0, 1)),
    st.tuples(st.just("reversed"), st.integers(0, 1)),
    st.tuples(st.just("remove"), st.integers(0, 1), _elem),
    st.tuples(st.just("clear"), st.integers(0, 1)),
    st.tuples(st.just("new_from"), st.integers(0, 1), st.lists(_elem, max_size=5)),
)


def _os_strategy():
    return st.lists(_os_op, min_size=1, max_size=30).map(lambda l: [list(x) for x in l])


def _model_add(m, k):
    if k not in m:
        m[k] = True


def check_orderedset(case):
    from problog.util import OrderedSet

    real = [OrderedSet(), OrderedSet()]
    model = [dict(), dict()]
    removed = False
    nontrivial = False
    feats = set()
    step = -1
    try:
        for step, op in enumerate(case):
            name, i = op[0], op[1]
            feats.add("os:" + name)
            r, m = real[i], model[i]
            o_r, o_m = real[1 - i], model[1 - i]
            if name == "add":
                if removed and op[2] not in m:
                    nontrivial = True
                r.add(op[2])
                _model_add(m, op[2])
            elif name == "discard":
                if op[2] in m:
                    removed = True
                r.discard(op[2])
                m.pop(op[2], None)
            elif name == "remove":
                try:
                    r.remove(op[2])
                    got = True
                except KeyError:
                    got = False
                exp = op[2] in m
                if exp:
                    removed = True
                m.pop(op[2], None)
                if got != exp:
                    return _fail("os-remove", step, case, "remove(%r): raised=%r expected present=%r" % (op[2], not got, exp))
            elif name == "pop":
                last = op[2]
                if not m:
                    try:
                        r.pop(last)
                        return _fail("os-pop-empty", step, case, "pop on empty set did not raise KeyError")
                    except KeyError:
                        pass
                else:
                    keys = list(m)
                    exp = keys[-1] if last else keys[0]
                    got = r.pop(last)
                    del m[exp]
                    removed = True
                    if got != exp:
                        return _fail("os-pop", step, case, "pop(last=%r) returned %r, model %r" % (last, got, exp))
            elif name == "ior":
                r |= op[2]
                for k in op[2]:
                    _model_add(m, k)
            elif name == "ior_set":
                r |= o_r
                for k in list(o_m):
                    _model_add(m, k)
                nontrivial = nontrivial or bool(o_m)
            elif name == "or":
                res = r | o_r
                exp = dict(m)
                for k in o_m:
                    _model_add(exp, k)
                nontrivial = True
                if list(res) != list(exp):
                    return _fail("os-or", step, case, "a|b iterates %r, model %r" % (list(res), list(exp)))
            elif name == "and":
                res = r & o_r
                exp = set(m) & set(o_m)
                nontrivial = True
                if set(res) != exp or len(res) != len(exp):
                    return _fail("os-and", step, case, "a&b = %r, model %r" % (list(res), sorted(exp)))
            elif name == "sub":
                res = r - o_r
                exp = [k for k in m if k not in o_m]
                nontrivial = True
                if list(res) != exp:
                    return _fail("os-sub", step, case, "a-b iterates %r, model %r" % (list(res), exp))
            elif name == "eq":
                got = (r == o_r)
                exp = list(m) == list(o_m)
                if bool(got) != exp:
                    return _fail("os-eq", step, case, "a==b is %r for %r vs %r" % (got, list(m), list(o_m)))
                got2 = (r == set(o_m))
                if bool(got2) != (set(m) == set(o_m)):
                    return _fail("os-eq-set", step, case, "a==set(b) is %r for %r vs %r" % (got2, list(m), list(o_m)))
            elif name == "reversed":
                if list(reversed(r)) != list(reversed(list(m))):
                    return _fail("os-reversed", step, case, "reversed gives %r model %r" % (list(reversed(r)), list(m)))
            elif name == "clear":
                if m:
                    removed = True
                r.clear()
                m.clear()
            elif name == "new_from":
                real[i] = OrderedSet(op[2])
                model[i] = dict()
                for k in op[2]:
                    _model_add(model[i], k)
            # invariant after every step, both instances
            for j in (0, 1):
                rr, mm = real[j], model[j]
                if list(rr) != list(mm):
                    return _fail("os-iter", step, case, "set %d iterates %r, model %r" % (j, list(rr), list(mm)))
                if len(rr) != len(mm):
                    return _fail("os-len", step, case, "len %d vs model %d" % (len(rr), len(mm)))
                for k in range(8):
                    if (k in rr) != (k in mm):
                        return _fail("os-contains", step, case, "%r in set is %r, model %r" % (k, k in rr, k in mm))
    except Exception as exc:
        return Outcome(nontrivial=True, features=sorted(feats),
                       failure=Failure("crash", "step %d of %r: %r" % (step, case, exc), sig=exc_signature(exc)))
    return Outcome(nontrivial=nontrivial, features=sorted(feats))


def _fail(kind, step, case, msg):
    return Outcome(nontrivial=True, failure=Failure(kind, "step %d (%r): %s" % (step, case[step], msg)))


# ------------------------------------------------------------------------------------------------ UHeap

_item = st.one_of(st.integers(0, 9), st.integers(0, 40))
_key = st.one_of(st.integers(-5, 5), st.integers(-30, 30))

_uh_op = st.one_of(
    st.tuples(st.just("push"), _item, _key),
    st.tuples(st.just("push"), _item, _key),
    st.tuples(st.just("pop")),
    st.tuples(st.just("pop_with_key")),
    st.tuples(st.just("peek")),
)


def _uh_strategy():
    # an optional burst of pushes first (heaps of three and more levels), then mixed operations
    burst = st.lists(st.tuples(st.just("push"), st.integers(0, 40), st.integers(-30, 30)), min_size=0, max_size=20)
    return st.tuples(st.booleans(), burst, st.lists(_uh_op, min_size=1, max_size=40)).map(
        lambda t: {"use_key": t[0], "ops": [list(x) for x in t[1]] + [list(x) for x in t[2]]})


def check_uheap(case):
    from problog.util import UHeap

    feats = set()
    keys = {}
    if case["use_key"]:
        heap = UHeap(key=lambda it: keys[it])
    else:
        heap = UHeap()
    model = {}  # item -> key
    updated = False
    nontrivial = False
    step = -1
    ops = case["ops"]
    try:
        for step, op in enumerate(ops):
            name = op[0]
            feats.add("uh:" + name)
            if name == "push":
                item, key = op[1], op[2]
                if case["use_key"]:
                    keys[item] = key
                else:
                    key = item  # without key function the item is its own key
                exp_new = item not in model
                if not exp_new and model[item] != key:
                    updated = True
                    feats.add("uh:update")
                got_new = heap.push(item)
                model[item] = key
                if bool(got_new) != exp_new:
                    return _fail2("uh-push-return", step, ops, "push returned %r, expected %r" % (got_new, exp_new))
            elif name in ("pop", "pop_with_key", "peek"):
                if not model:
                    continue
                minkey = min(model.values())
                if name == "peek":
                    item = heap.peek()
                    if item not in model or model[item] != minkey:
                        return _fail2("uh-peek", step, ops, "peek gave %r (key %r), min key %r" % (item, model.get(item), minkey))
                else:
                    if name == "pop":
                        item = heap.pop()
                        key = model.get(item)
                    else:
                        key, item = heap.pop_with_key()
                    if item not in model:
                        return _fail2("uh-pop-unknown", step, ops, "popped %r which is not in the heap" % (item,))
                    if model[item] != minkey or key != minkey:
                        return _fail2("uh-pop-order", step, ops,
                                      "popped %r with key %r (model key %r) but minimum key is %r" % (item, key, model[item], minkey))
                    del model[item]
                    if updated:
                        nontrivial = True
            if len(heap) != len(model):
                return _fail2("uh-len", step, ops, "len %d, model %d" % (len(heap), len(model)))
            if bool(heap) != bool(model):
                return _fail2("uh-bool", step, ops, "bool %r, model %r" % (bool(heap), bool(model)))
        # drain: pops come out in non-decreasing key order and return every item exactly once
        prev = None
        while model:
            key, item = heap.pop_with_key()
            if item not in model or model[item] != key:
                return _fail2("uh-drain", step, ops, "drain popped (%r,%r), model %r" % (key, item, model))
            if key != min(model.values()) or (prev is not None and key < prev):
                return _fail2("uh-drain-order", step, ops, "drain popped key %r, model min %r, previous %r" % (key, min(model.values()), prev))
            prev = key
            del model[item]
        if len(heap) != 0:
            return _fail2("uh-len", step, ops, "heap not empty after draining the model")
    except Exception as exc:
        return Outcome(nontrivial=True, features=sorted(feats),
                       failure=Failure("crash", "step %d of %r: %r" % (step, case, exc), sig=exc_signature(exc)))
    return Outcome(nontrivial=nontrivial, features=sorted(feats))


def _fail2(kind, step, ops, msg):
    return Outcome(nontrivial=True, failure=Failure(kind, "step %d (%r): %s" % (step, ops[min(step, len(ops) - 1)], msg)))


# ------------------------------------------------------------------------------------------------ BitVector

_idx = st.one_of(st.integers(0, 40), st.integers(0, 200), st.sampled_from([0, 31, 32, 63, 64, 95, 96, 127, 128]))

_bv_op = st.one_of(
    st.tuples(st.just("add"), st.integers(0, 1), _idx),
    st.tuples(st.just("add"), st.integers(0, 1), _idx),
    st.tuples(st.just("and"), st.integers(0, 1)),
    st.tuples(st.just("or"), st.integers(0, 1)),
    st.tuples(st.just("iand"), st.integers(0, 1)),
    st.tuples(st.just("ior"), st.integers(0, 1)),
    st.tuples(st.just("take_and"), st.integers(0, 1)),
    st.tuples(st.just("take_or"), st.integers(0, 1)),
    st.tuples(st.just("fresh"), st.integers(0, 1)),
)


def _bv_strategy():
    return st.lists(_bv_op, min_size=1, max_size=30).map(lambda l: [list(x) for x in l])


def _bv_compare(kind, step, case, rr, mm, what):
    if sorted(rr) != sorted(mm):
        return _fail(kind + "-iter", step, case, "%s iterates %r, model %r" % (what, list(rr), sorted(mm)))
    if list(rr) != sorted(mm):
        return _fail(kind + "-iter-order", step, case, "%s iterates %r (not ascending), model %r" % (what, list(rr), sorted(mm)))
    if len(rr) != len(mm):
        return _fail(kind + "-len", step, case, "%s len %d, model %d" % (what, len(rr), len(mm)))
    if bool(rr) != bool(mm):
        return _fail(kind + "-bool", step, case, "%s bool %r, model %r" % (what, bool(rr), bool(mm)))
    for k in (0, 1, 31, 32, 33, 63, 64, 100, 128, 200, 250):
        if bool(k in rr) != (k in mm):
            return _fail(kind + "-contains", step, case, "%r in %s is %r, model %r" % (k, what, bool(k in rr), k in mm))
    for k in mm:
        if not (k in rr):
            return _fail(kind + "-contains", step, case, "%r missing from %s" % (k, what))
    return None


def check_bitvector(case):
    from problog.util import BitVector

    real = [BitVector(), BitVector()]
    model = [set(), set()]
    feats = set()
    big = False
    binop = False
    step = -1
    try:
        for step, op in enumerate(case):
            name, i = op[0], op[1]
            feats.add("bv:" + name)
            r, m = real[i], model[i]
            o_r, o_m = real[1 - i], model[1 - i]
            if name == "add":
                r.add(op[2])
                m.add(op[2])
                if op[2] >= 32:
                    big = True
            elif name == "and":
                binop = True
                f = _bv_compare("bv-and", step, case, r & o_r, m & o_m, "a&b")
                if f:
                    return f
            elif name == "or":
                binop = True
                f = _bv_compare("bv-or", step, case, r | o_r, m | o_m, "a|b")
                if f:
                    return f
            elif name == "iand":
                binop = True
                r &= o_r
                real[i] = r
                m &= o_m
            elif name == "ior":
                binop = True
                r |= o_r
                real[i] = r
                m |= o_m
            elif name == "take_and":
                binop = True
                real[i] = r & o_r
                model[i] = m & o_m
            elif name == "take_or":
                binop = True
                real[i] = r | o_r
                model[i] = m | o_m
            elif name == "fresh":
                real[i] = BitVector()
                model[i] = set()
            for j in (0, 1):
                f = _bv_compare("bv", step, case, real[j], model[j], "vector %d" % j)
                if f:
                    return f
    except Exception as exc:
        return Outcome(nontrivial=True, features=sorted(feats),
                       failure=Failure("crash", "step %d of %r: %r" % (step, case, exc), sig=exc_signature(exc)))
    return Outcome(nontrivial=big and binop, features=sorted(feats))


SUBCHECKS = [
    SubCheck("orderedset", check_orderedset, strategy=_os_strategy, budget={"quick": 3000, "thorough": 100000}),
    SubCheck("uheap", check_uheap, strategy=_uh_strategy, budget={"quick": 3000, "thorough": 100000}),
    SubCheck("bitvector", check_bitvector, strategy=_bv_strategy, budget={"quick": 3000, "thorough": 100000}),
]
