"""C05 - all exact compilation back ends and semirings agree."""
import ast
import math
import operator

from hypothesis import strategies as st

from pbt.core.api import Failure, Outcome, SubCheck
from pbt.core import plrun, refcmp
from pbt.gen import programs as gp
from pbt.ref import semantics as sem

PROPERTY_ID = "C05"
LEVEL = "exploration"
RULE = ("C01-style generated programs x every evaluatable of the registry that is available at run time (discovered "
        "dynamically: get_evaluatable(None), 'ddnnf', and sdd/sddx/fsdd/bdd/fbdd when their libraries import) x "
        "semirings {SemiringProbability, SemiringLogProbability, a harness-defined probability semiring that only "
        "subclasses Semiring, its is_nsp() variant, SemiringSymbolic whose expression is evaluated numerically by a "
        "whitelisted arithmetic evaluator}. Oracle: all configurations give the same probabilities (probability mode) "
        "and the same accept/reject class as the default configuration, which is itself compared with the independent "
        "reference semantics. Non-trivial: >= 2 relevant choices and (evidence or an AD). Distinct = distinct program.")
ASSUMPTIONS = ["PySDD / dd are not installed in this sandbox: the SDD/BDD half of the statement cannot run here; the "
               "evidence lists the back ends that actually ran",
               "reference semantics (pbt/ref/semantics.py) anchors the default configuration"]


def available_backends():
    import problog

    out = [None]
    for name in sorted(problog.get_evaluatables()):
        if name in ("kbest", "nnf"):
            continue
        cls = problog.get_evaluatable(name)
        if hasattr(cls, "is_available"):
            try:
                ok = cls.is_available()
            except Exception:
                ok = False
        else:
            ok = True  # DDNNF has no is_available(): the bundled dsharp is always there
        if ok:
            out.append(name)
    return out


def make_semirings():
    from problog.evaluator import Semiring, SemiringProbability, SemiringLogProbability, SemiringSymbolic

    class HarnessProb(Semiring):
        """probability semiring written from scratch: forces the 'custom semiring' code paths"""

        def one(self):
            return 1.0

        def zero(self):
            return 0.0

        def is_one(self, value):
            return 1.0 - 1e-12 < value < 1.0 + 1e-12

        def is_zero(self, value):
            return -1e-12 < value < 1e-12

        def plus(self, a, b):
            return a + b

        def times(self, a, b):
            return a * b

        def negate(self, a):
            return 1.0 - a

        def normalize(self, a, z):
            return a / z

        def value(self, a):
            return float(a)

        def is_dsp(self):
            return True

        def in_domain(self, a):
            return 0.0 - 1e-9 <= a <= 1.0 + 1e-9

    class HarnessProbNSP(HarnessProb):
        def is_nsp(self):
            return True

    return [("prob", lambda: SemiringProbability()), ("logprob", lambda: SemiringLogProbability()),
            ("custom", lambda: HarnessProb()), ("custom-nsp", lambda: HarnessProbNSP()),
            ("symbolic", lambda: SemiringSymbolic())]


_OPS = {ast.Add: operator.add, ast.Sub: operator.sub, ast.Mult: operator.mul, ast.Div: operator.truediv,
        ast.USub: operator.neg, ast.UAdd: operator.pos}


def safe_eval(expr):
    """Evaluate a SemiringSymbolic expression string (numbers, + - * /, parentheses)."""
    node = ast.parse(str(expr), mode="eval").body

    def ev(n):
        if isinstance(n, ast.Constant) and isinstance(n.value, (int, float)):
            return float(n.value)
        if isinstance(n, ast.BinOp) and type(n.op) in _OPS:
            return _OPS[type(n.op)](ev(n.left), ev(n.right))
        if isinstance(n, ast.UnaryOp) and type(n.op) in _OPS:
            return _OPS[type(n.op)](ev(n.operand))
        raise ValueError("unsupported symbolic expression: %r" % ast.dump(n))

    return ev(node)


def check(case):
    prog = case["prog"]
    feats = gp.features(prog)
    try:
        ref = sem.evaluate(prog, max_choices=9, max_worlds=1 << 12)
    except sem.TooLarge:
        return Outcome(inconclusive="oversize", features=feats)
    src = sem.render_program(prog)
    base = plrun.run_problog(src)
    if base[0] == "resource":
        return Outcome(inconclusive=base[1], features=feats)
    failure = refcmp.compare_with_ref(ref, base)
    if failure is not None:
        failure.sig = "default-vs-reference|" + failure.sig
    ran = []
    if failure is None:
        for be in available_backends():
            for sname, mk in make_semirings():
                if be is None and sname == "prob":
                    continue
                if sname == "symbolic" and base[0] != "ok":
                    # the statement is about the number the expression evaluates to; a symbolic weight cannot
                    # be tested for zero, so rejecting inconsistent evidence is not expected from it
                    continue
                res = plrun.run_problog(src, knowledge=be, semiring=mk())
                if res[0] == "resource":
                    return Outcome(inconclusive=res[1], features=feats)
                if sname == "symbolic" and res[0] == "ok":
                    try:
                        res = ("ok", dict((k, safe_eval(v)) for k, v in res[1].items()))
                    except ZeroDivisionError:
                        # normalisation by a zero evidence weight shows up as a division by zero in the expression
                        res = ("error", "InconsistentEvidenceError")
                    except Exception as exc:
                        failure = Failure("symbolic-unparsable", "%s/%s: %r" % (be, sname, exc),
                                          sig="%s|symbolic-unparsable" % sname)
                        break
                ran.append("%s/%s" % (be or "default", sname))
                f = plrun.compare_prob_mode(base, res, "default/prob", "%s/%s" % (be or "default", sname))
                if f is not None:
                    f.sig = "%s/%s|%s" % (be or "default", sname, f.sig)
                    failure = f
                    break
            if failure is not None:
                break
    for r in ran:
        feats.add("config:" + r)
    nontrivial = ref.n_choices >= 2 and (any(s[0] == "evidence" for s in prog) or any(s[0] == "ad" for s in prog))
    return Outcome(nontrivial=nontrivial, features=sorted(feats), failure=failure,
                   classes=[base[0] if base[0] != "error" else "error:" + base[1]],
                   sample={"program": src, "configs": ran})


def _strategy():
    return st.one_of(gp.programs(), gp.programs(), gp.programs(evidence_bias=True)).map(lambda p: {"prog": p})


KNOWN_CLASSES = {
    "cyclic_or_complement": lambda case, failure: gp.cyclic_body_disjunction_with_complement(case["prog"]),
    "negcycle_fp": lambda case, failure: gp.neg_on_cyclic_goal_under_active_cycle(case["prog"]),
    "neg_under_cycle": lambda case, failure: gp.neg_under_active_cycle(case["prog"]),
    "ad_cyclic_complement": lambda case, failure: gp.cyclic_multihead_ad_with_complementary_body(case["prog"]),
    "shared_var_call": lambda case, failure: gp.shared_var_call(case["prog"]),
}

SUBCHECKS = [
    SubCheck("configs", check, strategy=_strategy, budget={"quick": 600, "thorough": 15000},
             timeout={"quick": 15, "thorough": 60}, render=lambda c: sem.render_program(c["prog"])),
]
