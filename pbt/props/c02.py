"""C02 - programs with a cycle through negation are rejected, never answered."""
from pbt.core.api import Failure, Outcome, SubCheck
from pbt.core import plrun, refcmp
from pbt.gen import programs as gp
from pbt.ref import semantics as sem

PROPERTY_ID = "C02"
LEVEL = "exploration"
RULE = ("Programs generated like C01 but with the stratification constraint relaxed (negative literals on any "
        "predicate, also inside the recursive SCC), mixed with the stratified C01 programs. The reference "
        "classifies each program from its ground program: must-reject = a query/evidence atom is undefined in the "
        "well-founded model of some positive-probability world (outcome must be a GroundingError); must-answer = the "
        "FULL ground dependency graph has no cycle through negation (NegativeCycle must not be raised, answers = "
        "reference); either = everything else (a GroundingError is accepted; an answer must equal the WFS-based "
        "reference when the WFM is total on all query/evidence atoms). Non-trivial: must-reject, or 'either' with a "
        "negative cycle among the relevant ground rules. Distinct = distinct program AST.")
ASSUMPTIONS = ["reference well-founded semantics by alternating fixpoint over all worlds (pbt/ref/semantics.py)",
               "must-reject is deliberately conservative (query/evidence atom undefined in a positive-probability world)"]


def check(case):
    prog = case["prog"]
    feats = gp.features(prog)
    try:
        ref = sem.evaluate(prog, max_choices=10, max_worlds=1 << 13, want_masks=True)
    except sem.TooLarge:
        return Outcome(inconclusive="oversize", features=feats)
    full_cycle = sem.full_ground_has_negative_cycle(prog)
    rel_cycle = sem.relevant_ground_has_negative_cycle(ref)
    if ref.undefined:
        cls = "must-reject"
    elif not full_cycle:
        cls = "must-answer"
    else:
        cls = "either"
    src = sem.render_program(prog)
    res = plrun.run_problog(src)
    if res[0] == "resource":
        return Outcome(inconclusive=res[1], features=feats)
    outcome = "answered" if res[0] == "ok" else ("crash" if res[0] == "crash" else "rejected:" + res[1])
    failure = None
    if res[0] == "crash":
        failure = Failure("crash", "internal exception %s" % res[1], sig=res[1])
    elif cls == "must-reject":
        if res[0] == "ok":
            failure = Failure("undefined-answered",
                              "a query/evidence atom is undefined in the well-founded model of a positive-probability "
                              "world, but ProbLog answered %r" % (res[1],))
        elif not plrun.is_grounding_error(res[1]) and res[1] != "InconsistentEvidenceError":
            failure = Failure("undefined-wrong-error", "expected a GroundingError, got %s" % res[1],
                              sig="undefined-wrong-error:%s" % res[1])
        elif res[1] == "InconsistentEvidenceError" and not ref.inconsistent:
            failure = Failure("undefined-wrong-error", "expected a GroundingError, got %s" % res[1],
                              sig="undefined-wrong-error:%s" % res[1])
    elif cls == "must-answer":
        failure = refcmp.compare_with_ref(ref, res)
    else:
        if res[0] == "error" and plrun.is_grounding_error(res[1]):
            failure = None  # rejection is acceptable
        else:
            failure = refcmp.compare_with_ref(ref, res)
    nontrivial = cls == "must-reject" or (cls == "either" and rel_cycle)
    feats.add("class:" + cls)
    if rel_cycle:
        feats.add("relevant-neg-cycle")
    return Outcome(nontrivial=nontrivial, features=sorted(feats), failure=failure,
                   classes=["%s/%s" % (cls, outcome)],
                   sample={"program": src, "class": cls, "outcome": outcome})


def _strategy():
    from hypothesis import strategies as st

    return st.one_of(gp.programs(allow_negcycle=True, max_preds=4),
                     gp.programs(allow_negcycle=True, max_preds=3, allow_ads=False, neg_bias=True, max_consts=2),
                     gp.programs(allow_negcycle=True, max_preds=2, neg_bias=True, max_consts=2),
                     gp.programs(allow_negcycle=True, max_preds=3, neg_bias=True, allow_evidence=False,
                                 allow_nonground_query=False, max_consts=1),
                     gp.dense_cycles(neg=True), gp.dense_cycles(neg=True, max_atoms=4),
                     gp.programs()).map(lambda p: {"prog": p})


KNOWN_CLASSES = {
    "cyclic_or_complement": lambda case, failure: gp.cyclic_body_disjunction_with_complement(case["prog"]),
    "pos_and_neg_recursion_same_scc": lambda case, failure: gp.pos_and_neg_recursion_same_scc(case["prog"]),
    "negcycle_fp": lambda case, failure: gp.neg_on_cyclic_goal_under_active_cycle(case["prog"]),
    "neg_under_cycle": lambda case, failure: gp.neg_under_active_cycle(case["prog"]),
    "ad_cyclic_complement": lambda case, failure: gp.cyclic_multihead_ad_with_complementary_body(case["prog"]),
    "shared_var_call": lambda case, failure: gp.shared_var_call(case["prog"]),
}

SUBCHECKS = [
    SubCheck("negcycles", check, strategy=_strategy, budget={"quick": 3000, "thorough": 40000},
             timeout={"quick": 5, "thorough": 20}, render=lambda c: sem.render_program(c["prog"])),
]
