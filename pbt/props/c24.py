"""C24 - learning from interpretations is a monotone EM producing valid parameters."""
import json
import logging
import math
import os
import random
import sys

from hypothesis import assume, strategies as st

from pbt.core.api import CaseTimeout, Failure, Outcome, SubCheck
from pbt.core import plrun
from pbt.gen import c24_lfi as g
from pbt.ref import semantics as sem

PROPERTY_ID = "C24"
LEVEL = "exploration"

STEPS = {"quick": 6, "thorough": 12}
MAX_EXAMPLES = {"quick": 12, "thorough": 30}

RULE = ("Case = (program with tunable parameters built in layers by pbt/gen/c24_lfi.py: base predicates of arity 0/1 "
        "over <= 2 constants whose ground instances are fixed probabilistic / tunable (t(_) or t(0.1..0.9)) / "
        "deterministic facts; 1-3 of {tunable fact, tunable AD without body (2-4 heads, 0-2 of them with a fixed probability), "
        "tunable rule, tunable AD with body, propositional or with one variable}; 0-2 deterministic rules on top; "
        "hidden true value in 0.1..0.9 for every tunable parameter, AD values summing to <= 1 (exactly 1 when "
        "normalize=True, LFI's model of a tunable AD), n = 3..12 (quick) / 3..30 (thorough) interpretations sampled "
        "from the reference distribution of the program with the true values by random.Random(data_seed) owned by the "
        "case (one case in three repeats the whole dataset 300 or 1000 times: LFI groups identical interpretations "
        "and weighs each group by its count), normalize in {False (constructor default), True (command-line default)}, an integer passed to "
        "random.seed before LFIProblem is built (initial weights), k = 6 (quick) / 12 (thorough) steps).  Sub-check "
        "'em': programs may have a second (deterministic or fixed-probability) clause for a tunable head; an example "
        "is complete with probability 1/3, otherwise each possible ground atom is observed with probability 0.3-0.8. "
        "Sub-check 'mle': one clause per head predicate, every possible ground atom observed in every example.  "
        "Oracle: LFIProblem(PrologString(src), examples, normalize=..).prepare(), then k+1 calls of step(); step() "
        "returns the log-likelihood of the data under the weights it starts from, so the k+1 returned values are "
        "LL(w0..wk) and LL(w_i+1) >= LL(w_i) - (1e-9|LL| + 1e-12) is asserted for all i (signature "
        "'ll-decrease:first-step' when i = 0, 'll-decrease' otherwise); after every step every "
        "weight is in [0,1] (1e-9) and the tunable weights of one AD sum to <= 1 + 1e-9; 'mle': after the first step "
        "weight = (#instances with the head true) / (#instances with the body true) counted in the dataset, whenever "
        "the denominator is > 0 (for an AD with >= 2 tunable heads and fixed heads under normalize=True: (1 - sum of "
        "the fixed probabilities) * #head true / #any tunable head of the AD true); under normalize=True the "
        "probabilities of an AD with >= 2 tunable heads, fixed heads included, sum to <= 1 + 1e-9 after every step.  Non-trivial: >= 2 tunable "
        "parameters, >= 5 examples and (em) >= 1 partially observed example.  Distinct = distinct case.")
ASSUMPTIONS = ["reference enumerator (pbt/ref/semantics.py) defines the distribution the datasets are drawn from",
               "log-likelihood values are taken as reported by step(); they are not recomputed",
               "the default knowledge compiler (d-DNNF through the bundled dsharp) is used; SDDs are not available",
               "examples are consistent with the model by construction; LFI's own preprocessing (infer_AD_values) "
               "is left at its default"]


def _tier():
    try:
        t = json.loads(sys.argv[1]).get("tier")
        if t in STEPS:
            return t
    except Exception:
        pass
    t = os.environ.get("VERIF_TIER", "quick")
    return t if t in STEPS else "quick"


# ------------------------------------------------------------------------------------------------ driving LFI

class _Counter(logging.Handler):
    def __init__(self):
        logging.Handler.__init__(self)
        self.ignored = 0

    def emit(self, record):
        try:
            if "Ignoring example" in record.getMessage():
                self.ignored += 1
        except Exception:
            pass


def _term(text):
    from problog.logic import Term

    if "(" not in text:
        return Term(text)
    f, rest = text.split("(", 1)
    return Term(f, *[Term(x) for x in rest[:-1].split(",")])


def run_lfi(src, examples, seed, normalize, steps):
    """Returns (names, trace, ignored): trace = [(LL returned by step i, weights after step i)], preceded by
    (None, initial weights)."""
    from problog.program import PrologString
    from problog.learning.lfi import LFIProblem

    logger = logging.getLogger("problog_lfi")
    handler = _Counter()
    old = (logger.propagate, logger.level)
    logger.addHandler(handler)
    logger.propagate = False
    logger.setLevel(logging.WARNING)
    try:
        random.seed(seed)
        ex = [[(_term(a), bool(v)) for a, v in e] for e in examples]
        lfi = LFIProblem(PrologString(src), ex, normalize=normalize)
        lfi.prepare()

        def weights():
            out = []
            for i in range(lfi.count):
                ws = lfi.get_weights(i)
                out.append([float(w) for _, w in ws])
            return out

        trace = [(None, weights())]
        for _ in range(steps):
            ll = lfi.step()[0]
            trace.append((float(ll), weights()))
        names = [str(n.with_probability()) for n in lfi.names]
        return names, trace, handler.ignored
    finally:
        logger.removeHandler(handler)
        logger.propagate, logger.level = old[0], old[1]


def expected_mle(prog, examples_worlds, ref):
    """Relative frequencies: for every tunable (statement, head) -> (count head true, count body true) over all
    examples and all ground instances of the statement."""
    out = {}
    gp_ = ref.gp
    for head, pos, neg, ch in gp_.rules:
        if ch is None:
            continue
        ci, vi = ch
        si = gp_.choice_info[ci][0]
        key = (si, vi)
        c = out.setdefault(key, [0, 0])
        hm = ref.masks.get(head, 0)
        for w in examples_worlds:
            active = all((ref.masks.get(p, 0) >> w) & 1 for p in pos) and \
                not any((ref.masks.get(q, 0) >> w) & 1 for q in neg)
            if active:
                c[1] += 1
                if (hm >> w) & 1:
                    c[0] += 1
    return out


def make_check(mode):
    def check(case):
        prog = case["prog"]
        normalize = bool(case["normalize"])
        steps = int(case["steps"])
        tun = g.tunables(prog)
        feats = set()
        feats.add("normalize:%s" % normalize)
        for s in prog:
            if s[0] == "ad":
                nt = sum(1 for p, _ in s[1] if g.is_tunable(p))
                if nt >= 2:
                    feats.add("tunable-ad" + ("+body" if s[2] else ""))
                    if nt < len(s[1]):
                        feats.add("tunable-ad+fixed-head")
                elif nt == 1:
                    feats.add("tunable-rule" if len(s[1]) == 1 else "ad:one-tunable-head")
                if any(t[0] == "v" for _, a in s[1] for t in a[1]):
                    feats.add("first-order")
            elif s[0] == "pfact" and g.is_tunable(s[1]):
                feats.add("tunable-fact")
        if any(p["t"] is None for _, _, _, p in tun):
            feats.add("init:random")
        if any(p["t"] is not None for _, _, _, p in tun):
            feats.add("init:given")
        try:
            ref, atoms = g.reference_model(prog)
        except sem.TooLarge:
            return Outcome(inconclusive="oversize", features=sorted(feats))
        if "examples" in case:
            # explicit dataset (hand-written replay files): [[atom text, bool], ...] per example
            examples = case["examples"]
            by_text = dict((sem.atom_str(a), a) for a in atoms)
            worlds = []
            for e in examples:
                m = ref.posw
                for text, v in e:
                    am = ref.masks.get(by_text.get(text), 0)
                    m &= am if v else (ref.full & ~am)
                if not m:
                    return Outcome(inconclusive="example-impossible-under-true-parameters", features=sorted(feats))
                worlds.append((m & -m).bit_length() - 1)
        else:
            data = g.sample_dataset(prog, case["n_examples"], random.Random(case["data_seed"]), case["obs"],
                                    float(case["obs_rate"]), ref, atoms)
            examples = [e["obs"] for e in data]
            worlds = [e["world"] for e in data]
        copies = int(case.get("copies", 1))
        if copies > 1:
            # the dataset repeated: LFI groups identical interpretations and weighs each group by its count
            examples = [e for e in examples for _ in range(copies)]
            worlds = [w for w in worlds for _ in range(copies)]
            feats.add("copies:%d" % copies)
        natoms = len(atoms)
        n_partial = sum(1 for e in examples if len(e) < natoms)
        all_complete = n_partial == 0
        src = g.render_lfi(prog)
        tag = "normalize=%d" % normalize
        nontrivial = len(tun) >= 2 and len(examples) >= 5 and (mode == "mle" or n_partial >= 1)
        shown = {"program": src, "normalize": normalize, "examples": examples, "steps": steps,
                 "true": [p["true"] for _, _, _, p in tun]}

        def done(failure=None, inconclusive=None, cls=None):
            return Outcome(nontrivial=nontrivial, features=sorted(feats), failure=failure, inconclusive=inconclusive,
                           classes=[cls] if cls else [], sample=shown)

        plrun.reset_state()
        try:
            with plrun.captured_output():
                names, trace, ignored = run_lfi(src, examples, case["seed"], normalize, steps + 1)
        except CaseTimeout:
            raise
        except BaseException as exc:  # noqa
            if isinstance(exc, (KeyboardInterrupt, SystemExit)) or isinstance(exc, plrun.RESOURCE_ERRORS):
                raise
            kind, what = plrun.classify_exception(exc)
            if kind == "error":
                return done(Failure("unexpected-error", "%s: LFI raised %s (%s) on a consistent dataset\n%s\n%s" % (
                    tag, what, exc, src, examples), sig="%s|unexpected-error:%s" % (tag, what)))
            return done(Failure("crash", "%s: internal exception %s (%s)\n%s\n%s" % (tag, what, exc, src, examples),
                                sig="%s|%s" % (tag, what)))
        if ignored:
            feats.add("examples-ignored-by-lfi")
        want_names = [sem.render_atom(a) for _, _, a, _ in tun]
        if names != want_names or any(len(w) != 1 for _, ws in trace for w in ws):
            return done(inconclusive="mapping")
        lls = [ll for ll, _ in trace[1:]]
        shown["log_likelihoods"] = lls
        shown["weights"] = [[w[0] for w in ws] for _, ws in trace]

        # ---- validity after every step
        groups = {}
        for i, (si, k, a, p) in enumerate(tun):
            groups.setdefault(si, []).append(i)
        for it, (ll, ws) in enumerate(trace):
            flat = [w[0] for w in ws]
            for i, w in enumerate(flat):
                if not (w == w) or w < -1e-9 or w > 1 + 1e-9:
                    return done(Failure("weight-out-of-range", "%s: after step %d the weight of %s is %r\n%s\nweights "
                                        "%s\nexamples %s" % (tag, it, names[i], w, src, flat, examples),
                                        sig="%s|weight-out-of-range" % tag))
            for si, idx in groups.items():
                if prog[si][0] == "ad" and len(idx) < len(prog[si][1]):
                    fixed = sum(float(p) for p, _ in prog[si][1] if not g.is_tunable(p))
                    tot = fixed + sum(flat[i] for i in idx)
                    if tot > 1 + 1e-9:
                        if normalize and len(idx) >= 2 and it >= 1:
                            # the tunable heads are renormalised to the mass the fixed heads leave: the AD is valid
                            return done(Failure("ad-total-exceeds-1", "%s: after step %d the probabilities of the AD "
                                                "with tunable heads %s and fixed heads summing to %r sum to %r\n%s\n"
                                                "weights %s\nexamples %s" % (
                                                    tag, it, [names[i] for i in idx], fixed, tot, src, flat, examples),
                                                sig="%s|ad-total-exceeds-1" % tag))
                        # without renormalisation (normalize off or a single tunable head) this is finding F-C24-3
                        feats.add("note:AD total with its fixed heads exceeds 1 after some step")
                if len(idx) >= 2:
                    tot = sum(flat[i] for i in idx)
                    if tot > 1 + 1e-9:
                        return done(Failure("ad-sum-exceeds-1", "%s: after step %d the tunable weights of %s sum to %r"
                                            "\n%s\nweights %s\nexamples %s" % (
                                                tag, it, [names[i] for i in idx], tot, src, flat, examples),
                                            sig="%s|ad-sum-exceeds-1" % tag))
        for ll in lls:
            if not (ll == ll) or ll > 1e-9:
                return done(Failure("ll-invalid", "%s: reported log-likelihood %r\n%s\n%s" % (tag, ll, src, examples),
                                    sig="%s|ll-invalid" % tag))

        # ---- closed form with complete data
        if mode == "mle" and all_complete and worlds is not None:
            exp = expected_mle(prog, worlds, ref)
            first = [w[0] for w in trace[1][1]]
            for i, (si, k, a, p) in enumerate(tun):
                cnt = exp.get((si, k))
                if cnt is None or cnt[1] == 0:
                    feats.add("mle:undetermined-parameter")
                    continue
                s = prog[si]
                want = cnt[0] / float(cnt[1])
                if normalize and s[0] == "ad" and len(groups[si]) >= 2 and len(groups[si]) < len(s[1]):
                    # tunable heads next to fixed heads, renormalised: the estimate is the relative frequency among
                    # the tunable heads scaled to the mass the fixed heads leave
                    avail = 1.0 - sum(float(p_) for p_, _ in s[1] if not g.is_tunable(p_))
                    tot_true = sum(exp[(si, tun[j][1])][0] for j in groups[si])
                    if tot_true == 0:
                        feats.add("mle:undetermined-parameter")
                        continue
                    feats.add("mle:normalised AD with fixed heads")
                    want = avail * cnt[0] / float(tot_true)
                if abs(first[i] - want) > 1e-9:
                    return done(Failure("mle-mismatch", "%s: all %d examples are complete; after one step the weight "
                                        "of %s is %r, relative frequency in the data is %d/%d = %r\n%s\nexamples %s" % (
                                            tag, len(examples), names[i], first[i], cnt[0], cnt[1], want, src,
                                            examples),
                                        sig="%s|mle-mismatch:%s" % (tag, "ad" if len(groups[si]) >= 2 else "single")))

        # ---- monotone log-likelihood
        for i in range(len(lls) - 1):
            a, b = lls[i], lls[i + 1]
            if b < a - (1e-9 * abs(a) + 1e-12):
                return done(Failure("ll-decrease", "%s: log-likelihood of the data under the weights after step %d is "
                                    "%r, after step %d it is %r (decrease %.3g)\n%s\nLL sequence %s\nweights %s\n"
                                    "examples %s" % (tag, i, a, i + 1, b, a - b, src, lls, shown["weights"], examples),
                                    sig="%s|ll-decrease%s" % (tag, ":first-step" if i == 0 else "")))
        return done(cls="learned")
    return check


# ------------------------------------------------------------------------------------------------ strategies

def _cases(mode):
    @st.composite
    def cases(draw):
        tier = _tier()
        normalize = draw(st.booleans())
        prog = draw(g.problems(hidden=(mode == "em"), exhaustive_ads=True if normalize else None))
        assume(len(g.tunables(prog)) >= 1)
        return {"prog": prog, "normalize": normalize, "n_examples": draw(st.integers(3, MAX_EXAMPLES[tier])),
                "data_seed": draw(st.integers(0, 2 ** 31 - 1)), "seed": draw(st.integers(0, 2 ** 31 - 1)),
                "obs": "partial" if mode == "em" else "complete",
                "obs_rate": draw(st.sampled_from(["0.3", "0.5", "0.8"])), "steps": STEPS[tier],
                "copies": draw(st.sampled_from([1, 1, 1, 1, 300, 1000]))}
    return cases


def render(case):
    return {"program": g.render_lfi(case["prog"]), "normalize": case["normalize"],
            "n_examples": case.get("n_examples"), "obs": case.get("obs")}


KNOWN_CLASSES = {
    # D11: the update of the weights of an AD with >= 2 tunable heads without normalisation
    "learnable_ad": lambda case, failure: g.has_learnable_ad(case["prog"]) and not case["normalize"],
    # normalize=True renormalises the weights of a tunable AD after every step but not the initial weights: the
    # first step is not an EM step (only the decrease between the initial weights and the first update is excused)
    "normalised_ad_first_step": lambda case, failure: bool(case["normalize"]) and g.has_learnable_ad(case["prog"]),
    # the update of a tunable head ignores the probability mass of the fixed heads of its AD
    "ad_fixed_and_tunable_heads": lambda case, failure: g.ad_with_fixed_and_tunable_heads(case["prog"],
                                                                                         bool(case["normalize"])),
    # the arguments of a tunable fact are read from the name of its ground node
    "alias_of_tunable_atom": lambda case, failure: g.alias_of_tunable_atom(case["prog"]),
}

SUBCHECKS = [
    SubCheck("em", make_check("em"), strategy=_cases("em"), budget={"quick": 110, "thorough": 2200},
             timeout={"quick": 60, "thorough": 240}, render=render),
    SubCheck("mle", make_check("mle"), strategy=_cases("mle"), budget={"quick": 50, "thorough": 800},
             timeout={"quick": 60, "thorough": 240}, render=render),
]
