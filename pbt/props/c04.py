"""C04 - documented arbitrary-order (unbuffered) evaluation agrees with the default engine."""
import glob
import os

from hypothesis import strategies as st

from pbt.core.api import Failure, Outcome, SubCheck
from pbt.core import plrun, engines
from pbt.gen import programs as gp
from pbt.ref import semantics as sem

PROPERTY_ID = "C04"
LEVEL = "exploration"
RULE = ("C01-style generated programs, and the repository corpus test/*.pl (enumerated), each evaluated with "
        "StackBasedEngine(unbuffered=True), StackBasedEngine(unbuffered=True, rc_first=True) and the RandomOrderEngine "
        "printed in docs/source/engine.rst (random.Random(seed), seeds drawn by Hypothesis) and compared with the "
        "default engine: same probabilities, same reported instances, same accept/reject class (instance mode; "
        "list-valued arguments compared as multisets). Non-trivial: the program has a derived predicate with >= 2 "
        "clauses or recursion. Distinct = distinct (program, seeds).")
ASSUMPTIONS = ["differential oracle against the default engine"]

MODES = ["unbuffered", "rcfirst"]


def _norm_key(k):
    # element order inside lists may differ: compare list contents as multisets
    if "[" not in k:
        return k
    out = []
    i = 0
    while i < len(k):
        if k[i] == "[":
            depth = 0
            j = i
            while j < len(k):
                if k[j] == "[":
                    depth += 1
                elif k[j] == "]":
                    depth -= 1
                    if depth == 0:
                        break
                j += 1
            inner = k[i + 1:j]
            parts = _split_top(inner)
            out.append("[" + ",".join(sorted(p.strip() for p in parts)) + "]")
            i = j + 1
        else:
            out.append(k[i])
            i += 1
    return "".join(out)


def _split_top(s):
    parts, depth, cur = [], 0, ""
    for ch in s:
        if ch in "([":
            depth += 1
        elif ch in ")]":
            depth -= 1
        if ch == "," and depth == 0:
            parts.append(cur)
            cur = ""
        else:
            cur += ch
    if cur.strip():
        parts.append(cur)
    return parts


def _normres(r):
    if r[0] != "ok":
        return r
    d = {}
    for k, v in r[1].items():
        nk = _norm_key(k)
        try:
            d[nk] = d.get(nk, 0.0) + float(v)  # different element orders of one multiset: exclusive worlds
        except Exception:
            d[nk] = v
    return ("ok", d)


def run_modes(src, seeds, feats):
    base = plrun.run_problog(src)
    if base[0] == "resource":
        return Outcome(inconclusive=base[1], features=feats), None
    base = _normres(base)
    failure = None
    for mode, seed in [(m, 0) for m in MODES] + [("random", s) for s in seeds]:
        eng = engines.make_engine(mode, seed)
        res = plrun.run_problog(src, engine=eng)
        if res[0] == "resource":
            return Outcome(inconclusive=res[1], features=feats), None
        res = _normres(res)
        f = plrun.compare_instance_mode(base, res, "default", "%s(%d)" % (mode, seed))
        if f is not None:
            f.sig = mode + "|" + f.sig
            f.detail = "[%s seed %d] %s" % (mode, seed, f.detail)
            failure = f
            break
    return None, (base, failure)


def check(case):
    prog = case["prog"]
    feats = gp.features(prog)
    src = sem.render_program(prog)
    out, r = run_modes(src, case["seeds"], feats)
    if out is not None:
        return out
    base, failure = r
    from pbt.props.c03 import _multi_clause
    nt = any(x.startswith("rec:") for x in feats) or _multi_clause(prog)
    return Outcome(nontrivial=nt, features=sorted(feats), failure=failure,
                   classes=[base[0] if base[0] != "error" else "error:" + base[1]],
                   sample={"program": src, "seeds": case["seeds"]})


def _strategy():
    return st.tuples(st.one_of(gp.programs(), gp.programs(), gp.programs(evidence_bias=True)), st.lists(st.integers(0, 2 ** 31), min_size=2, max_size=2)).map(
        lambda t: {"prog": t[0], "seeds": t[1]})


# ------------------------------------------------------------------------------------------------ corpus

SKIP_CORPUS = {"bigstack.pl"}  # long-running (deep recursion); skipped for time, not for failing


def corpus_cases(tier):
    files = sorted(glob.glob("/repo/test/*.pl"))
    for fn in files:
        if os.path.basename(fn) in SKIP_CORPUS:
            continue
        yield {"file": os.path.basename(fn), "seeds": [1, 2] if tier == "quick" else [1, 2, 3, 4, 5, 6]}


def check_corpus(case):
    fn = os.path.join("/repo/test", case["file"])
    with open(fn) as f:
        src = f.read()
    feats = set()
    if ":- use_module" in src or "consult" in src or "load" in src:
        feats.add("corpus:uses-files")
    cwd = os.getcwd()
    try:
        os.chdir("/repo/test")
        out, r = run_modes(src, case["seeds"], feats)
    finally:
        os.chdir(cwd)
    if out is not None:
        return out
    base, failure = r
    return Outcome(nontrivial=base[0] == "ok" and len(base[1]) > 0, features=sorted(feats), failure=failure,
                   classes=["corpus:" + (base[0] if base[0] != "error" else "error:" + base[1])],
                   sample={"file": case["file"]})


def _prog_of(case):
    return case.get("prog")


def _cls(fn):
    def pred(case, failure):
        p = case.get("prog")
        return p is not None and fn(p)
    return pred


CORPUS_KNOWN = ("varunify_all.pl", "findall_with_anonymous.pl", "findall6.pl", "negative_cycle.pl",
                "ground_nonground_bug_v1.pl", "ground_nonground_bug_v2.pl", "scope_manipulation.pl")


def _recursive(prog):
    return bool(gp.cyclic_preds(prog)[2])


KNOWN_CLASSES = {
    "recursive_program": _cls(_recursive),
    "corpus_known_files": lambda case, failure: case.get("file") in CORPUS_KNOWN,
    "negcycle_fp": _cls(gp.neg_on_cyclic_goal_under_active_cycle),
    "neg_under_cycle": _cls(gp.neg_under_active_cycle),
    "ad_cyclic_complement": _cls(gp.cyclic_multihead_ad_with_complementary_body),
    "shared_var_call": _cls(gp.shared_var_call),
    "zero_prob_or_complementary_body": _cls(gp.zero_prob_or_complementary_body),
}

SUBCHECKS = [
    SubCheck("modes", check, strategy=_strategy, budget={"quick": 480, "thorough": 15000},
             timeout={"quick": 6, "thorough": 60}, render=lambda c: sem.render_program(c["prog"])),
    SubCheck("corpus", check_corpus, enumerate=corpus_cases, timeout={"quick": 8, "thorough": 60},
             exhaustive="every /repo/test/*.pl file x {unbuffered, rc-first, random order seeds}"),
]
