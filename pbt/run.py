"""CLI of the checks:  python -m pbt.run <ID> [--tier quick|thorough] [--replay FILE] [--shards N] [--only sub,...]

Exit codes: 0 held on everything explored; 1 violation (line `VIOLATION property=<id> replay=<path>`);
2 harness error (never reported as a violation)."""
import argparse
import atexit
import importlib
import json
import os
import shutil
import subprocess
import sys
import time

ROOT = os.path.dirname(os.path.dirname(os.path.abspath(__file__)))


def _scratch():
    d = os.path.join(ROOT, "scratch", "run-%d" % os.getpid())
    os.makedirs(d, exist_ok=True)
    os.environ["TMPDIR"] = d
    import tempfile

    tempfile.tempdir = d
    atexit.register(shutil.rmtree, d, True)
    return d


def _relpath(p):
    try:
        return os.path.relpath(p, ROOT)
    except Exception:
        return p


def load_replay_files(pid):
    d = os.path.join(ROOT, "replay", pid)
    out = []
    if os.path.isdir(d):
        for fn in sorted(os.listdir(d)):
            if fn.endswith(".json"):
                with open(os.path.join(d, fn)) as f:
                    out.append((os.path.join(d, fn), json.load(f)))
    return out


def find_sub(mod, name):
    for s in mod.SUBCHECKS:
        if s.name == name:
            return s
    raise KeyError("no subcheck %r in %s" % (name, mod.PROPERTY_ID))


def write_violation(pid, v, seed, tier):
    from pbt.core.api import case_hash

    d = os.path.join(ROOT, "violations", pid)
    os.makedirs(d, exist_ok=True)
    h = case_hash([v["subcheck"], v["case"]])
    path = os.path.join(d, "%s.json" % h)
    with open(path, "w") as f:
        json.dump({"property": pid, "subcheck": v["subcheck"], "case": v["case"], "expect": "pass",
                   "failure": v["failure"], "seed": seed, "tier": tier}, f, indent=1, default=str)
    return path


def do_replay(mod, path, verbose=True):
    """Re-run the oracle on one saved case, without Hypothesis.  Returns (failure, known_id, outcome)."""
    from pbt.core import worker

    with open(path) as f:
        rec = json.load(f)
    sub = find_sub(mod, rec["subcheck"])
    state = worker.ShardState()
    out, failure, known = worker.run_case(mod, sub, rec["case"], sub.timeout["thorough"], state, count=False)
    return rec, out, failure, known


def main(argv=None):
    ap = argparse.ArgumentParser()
    ap.add_argument("prop")
    ap.add_argument("--tier", default=os.environ.get("VERIF_TIER", "quick"), choices=["quick", "thorough"])
    ap.add_argument("--replay", default=None)
    ap.add_argument("--shards", type=int, default=int(os.environ.get("VERIF_SHARDS", "16")))
    ap.add_argument("--only", default=None)
    ap.add_argument("--no-search", action="store_true")
    args = ap.parse_args(argv)
    pid = args.prop.upper()
    try:
        seed = int(os.environ.get("VERIF_SEED", "1"))
    except ValueError:
        seed = 1
    t0 = time.time()
    scratch = _scratch()
    try:
        mod = importlib.import_module("pbt.props.%s" % pid.lower())
        from pbt.core import findings, plrun
        plrun.reset_state()
    except Exception:
        import traceback

        traceback.print_exc()
        print("HARNESS-ERROR property=%s could not load the check" % pid)
        return 2

    # ----------------------------------------------------------------------------------- single replay
    if args.replay:
        try:
            rec, out, failure, known = do_replay(mod, args.replay)
        except Exception:
            import traceback

            traceback.print_exc()
            return 2
        if out.inconclusive:
            print("INCONCLUSIVE property=%s %s" % (pid, out.inconclusive))
            return 0
        if failure is None:
            print("PASS property=%s replay=%s" % (pid, _relpath(args.replay)))
            return 0
        if known is not None:
            e = [x for x in findings.load() if x["id"] == known][0]
            print("KNOWN-FINDING: property=%s %s [%s]" % (pid, e["what"], known))
            print("  " + repr(failure))
            return 0
        print("  " + repr(failure))
        print("VIOLATION property=%s replay=%s" % (pid, _relpath(args.replay)))
        return 1

    violations = []  # (path, failure json)
    known_lines = []
    stale = []
    replayed = 0
    # ----------------------------------------------------------------------------------- replay tier
    try:
        for path, rec in load_replay_files(pid):
            rec, out, failure, known = do_replay(mod, path)
            replayed += 1
            expect = rec.get("expect", "pass")
            if out.inconclusive:
                continue
            if expect == "pass":
                if failure is not None and known is None:
                    violations.append((path, failure.to_json()))
            elif expect.startswith("known:"):
                fid = expect.split(":", 1)[1]
                entry = [x for x in findings.load() if x["id"] == fid]
                if failure is None:
                    stale.append(fid)
                elif known == fid:
                    pass  # reported below, once per finding
                elif known is None:
                    # the witness now fails differently from what is recorded: a different violation
                    violations.append((path, failure.to_json()))
    except Exception:
        import traceback

        traceback.print_exc()
        print("HARNESS-ERROR property=%s replay tier failed" % pid)
        return 2

    # ----------------------------------------------------------------------------------- search tier
    merged = None
    shard_errors = []
    nshards = max(1, args.shards)
    if not args.no_search:
        procs = []
        for sh in range(nshards):
            outp = os.path.join(scratch, "shard-%d.json" % sh)
            wargs = {"prop": pid, "tier": args.tier, "seed": seed, "shard": sh, "nshards": nshards, "out": outp,
                     "only": args.only.split(",") if args.only else None}
            env = dict(os.environ)
            sd = os.path.join(scratch, "tmp-%d" % sh)
            os.makedirs(sd, exist_ok=True)
            env["TMPDIR"] = sd
            p = subprocess.Popen([sys.executable, "-m", "pbt.core.worker", json.dumps(wargs)], cwd=ROOT, env=env,
                                 stdout=subprocess.DEVNULL, stderr=subprocess.PIPE)
            procs.append((sh, p, outp))
        merged = {"evaluations": 0, "nontrivial": set(), "features": {}, "classes": {}, "inconclusive": {},
                  "excluded_known": {}, "samples": [], "violations": [], "extra": {}, "exhaustive_done": {},
                  "per_subcheck": {}, "shards": 0}
        for sh, p, outp in procs:
            _, err = p.communicate()
            if not os.path.exists(outp):
                shard_errors.append("shard %d died (rc=%s): %s" % (sh, p.returncode, err.decode("utf8", "replace")[-3000:]))
                continue
            with open(outp) as f:
                r = json.load(f)
            if not r["status"]["ok"]:
                shard_errors.append("shard %d: %s" % (sh, r["status"]["error"]))
            merged["shards"] += 1
            merged["evaluations"] += r["evaluations"]
            merged["nontrivial"].update(r["nontrivial"])
            for key in ("features", "classes", "inconclusive", "excluded_known", "extra", "exhaustive_done",
                        "per_subcheck"):
                for k, v in r[key].items():
                    merged[key][k] = merged[key].get(k, 0) + v
            merged["samples"].extend(r["samples"])
            merged["violations"].extend(r["violations"])
        if shard_errors:
            for e in shard_errors:
                sys.stderr.write(e + "\n")
            print("HARNESS-ERROR property=%s %d shard(s) failed" % (pid, len(shard_errors)))
            return 2
        seen = set()
        for v in merged["violations"]:
            key = (v["subcheck"], v["failure"]["sig"])
            if key in seen:
                continue
            seen.add(key)
            path = write_violation(pid, v, seed, args.tier)
            violations.append((path, v["failure"]))

    # ----------------------------------------------------------------------------------- known findings
    for e in findings.for_property(pid, "known"):
        n_excl = merged["excluded_known"].get(e["id"], 0) if merged else 0
        if e["id"] in stale and n_excl == 0:
            continue
        known_lines.append("KNOWN-FINDING: property=%s %s [%s; %d generated cases excluded]" % (
            pid, e["what"], e["id"], n_excl))

    # ----------------------------------------------------------------------------------- evidence
    wall = time.time() - t0
    try:
        if merged is not None:  # --no-search runs only the replay tier and leaves the evidence file alone
            write_evidence(mod, pid, args.tier, seed, merged, violations, stale, replayed, wall)
    except Exception:
        import traceback

        traceback.print_exc()
        print("HARNESS-ERROR property=%s could not write evidence" % pid)
        return 2

    for line in known_lines:
        print(line)
    if violations:
        for path, fj in violations:
            print("  failure: %s | %s | %s" % (fj["kind"], fj["sig"], fj["detail"][:600].replace("\n", " ")))
            print("VIOLATION property=%s replay=%s" % (pid, _relpath(path)))
        return 1
    print("OK property=%s tier=%s seed=%d evaluations=%d nontrivial=%d wall=%.1fs" % (
        pid, args.tier, seed, merged["evaluations"] if merged else 0, len(merged["nontrivial"]) if merged else 0,
        wall))
    return 0


def write_evidence(mod, pid, tier, seed, merged, violations, stale, replayed, wall):
    evdir = os.environ.get("VERIF_EVIDENCE_DIR") or os.path.join(ROOT, "evidence")
    os.makedirs(evdir, exist_ok=True)
    cov = {}
    level = getattr(mod, "LEVEL", "exploration")
    if merged is not None:
        samples = merged["samples"]
        # keep a handful: prefer distinct subchecks
        picked, seen = [], set()
        for s in samples:
            if s["subcheck"] not in seen:
                picked.append(s)
                seen.add(s["subcheck"])
        for s in samples:
            if len(picked) >= 5:
                break
            if s not in picked:
                picked.append(s)
        cov = {
            "evaluations": merged["evaluations"],
            "distinct_nontrivial": len(merged["nontrivial"]),
            "rule": mod.RULE,
            "samples": picked[:6],
            "features": dict(sorted(merged["features"].items())),
            "outcome_classes": dict(sorted(merged["classes"].items())),
            "inconclusive": merged["inconclusive"],
            "excluded_known": merged["excluded_known"],
            "per_subcheck": merged["per_subcheck"],
            "shards": merged["shards"],
            "replay_files_run": replayed,
            "stale_findings": stale,
        }
        ex = []
        for s in mod.SUBCHECKS:
            if s.enumerate is not None and s.name in merged["exhaustive_done"]:
                ex.append({"subcheck": s.name, "space": s.exhaustive, "points": merged["exhaustive_done"][s.name],
                           "exhaustive": tier in s.exhaustive_tiers})
        if ex:
            cov["exhaustive_subspaces"] = ex
        for k, v in merged["extra"].items():
            cov[k] = v
        if level == "translation_validation":
            cov.setdefault("programs", merged["evaluations"])
            cov.setdefault("disagreements_checked", merged["extra"].get("disagreements_checked", 0))
    ev = {
        "property_id": pid,
        "tier": tier,
        "seed": seed,
        "level": level,
        "coverage": cov,
        "assumptions": list(getattr(mod, "ASSUMPTIONS", [])),
        "wall_s": round(wall, 2),
        "violations": len(violations),
    }
    with open(os.path.join(evdir, "%s.json" % pid), "w") as f:
        json.dump(ev, f, indent=1, default=str)


if __name__ == "__main__":
    sys.exit(main())
