"""Hypothesis strategies for ProbLog programs as JSON ASTs (DESIGN 3.1); see pbt/ref/semantics.py for the AST.

Programs are built by construction: predicate signature with strata first, then clauses whose bodies respect
predicate-level stratification and range restriction, then queries and evidence."""
from hypothesis import strategies as st

PRED_NAMES = ["p", "q", "r", "s", "u", "w"]
CONSTS = ["a", "b", "c"]
VARS = ["X", "Y", "Z"]
PROB_GRID = ["0.0", "0.1", "0.2", "0.25", "0.3", "0.4", "0.5", "0.6", "0.7", "0.75", "0.8", "0.9", "1.0"]
TENTHS = ["0.0", "0.1", "0.2", "0.3", "0.4", "0.5", "0.6", "0.7", "0.8", "0.9", "1.0"]


def render_atom_(a):
    if not a[1]:
        return a[0]
    return "%s(%s)" % (a[0], ",".join(str(t[1]) for t in a[1]))


def _const(draw, consts):
    return ["a", draw(st.sampled_from(consts))]


@st.composite
def programs(draw, max_preds=5, allow_evidence=True, allow_neg=True, allow_rec=True, allow_ads=True,
             allow_nonground_query=True, allow_neg_query=True, min_queries=1, allow_negcycle=False,
             max_clauses=3, allow_shuffle=True, max_consts=3, prob_grid=None, neg_bias=False, allow_body_or=True,
             share_bias=False, evidence_bias=False, error_clauses=False, negdef_bias=False, or_bias=False):
    grid = prob_grid or PROB_GRID
    nconst = draw(st.integers(1, max_consts))
    consts = CONSTS[:nconst]
    npred = draw(st.integers(1, max_preds))
    preds = []
    for i in range(npred):
        arity = draw(st.sampled_from([0, 0, 1, 1, 1, 2]))
        if share_bias and i == 0:
            arity = 2  # an extensional binary relation that is called with different variable-sharing patterns
        stratum = 0 if i == 0 else draw(st.integers(0, 2))
        preds.append({"name": PRED_NAMES[i], "arity": arity, "stratum": stratum})
    prog = []

    def ground_atom(p):
        return [p["name"], [_const(draw, consts) for _ in range(p["arity"])]]

    def body_for(head_stratum, head_pred_names, force_nonrec=False):
        nlit = draw(st.integers(1, 3))
        lits = []
        bound = []
        pos_cands = [p for p in preds if p["stratum"] <= head_stratum]
        if not allow_rec or force_nonrec:
            pos_cands = [p for p in pos_cands if p["stratum"] < head_stratum] or \
                        [p for p in pos_cands if p["name"] not in head_pred_names] or pos_cands
        if allow_negcycle:
            neg_cands = list(preds)
        else:
            neg_cands = [p for p in preds if p["stratum"] < head_stratum]
        for li in range(nlit):
            if neg_bias:
                neg = allow_neg and bool(neg_cands) and draw(st.integers(0, 1)) == 0
            else:
                # (a negative literal in first position only has constants as arguments: nothing is bound yet; it
                # gives bodies that are a bare negation, i.e. named atoms whose ground node is a negative key)
                neg = allow_neg and bool(neg_cands) and draw(st.integers(0, 3 if li > 0 else 6)) == 0
            if neg:
                p = draw(st.sampled_from(neg_cands))
                args = []
                for _ in range(p["arity"]):
                    if bound and draw(st.booleans()):
                        args.append(["v", draw(st.sampled_from(bound))])
                    else:
                        args.append(_const(draw, consts))
                lits.append([True, p["name"], args])
            else:
                p = draw(st.sampled_from(pos_cands))
                args = []
                same = None
                if share_bias and p is preds[0] and draw(st.booleans()):
                    same = draw(st.sampled_from(VARS))  # the same variable in every argument position
                for _ in range(p["arity"]):
                    c = draw(st.integers(0, 3))
                    if same is not None:
                        v = same
                        args.append(["v", v])
                        if v not in bound:
                            bound.append(v)
                    elif c == 0:
                        args.append(_const(draw, consts))
                    else:
                        v = draw(st.sampled_from(VARS))
                        args.append(["v", v])
                        if v not in bound:
                            bound.append(v)
                lits.append([False, p["name"], args])
        # negative literals must come after the positive literals binding their variables: they only use
        # variables bound earlier by construction.
        return lits, bound

    def head_atom(p, bound):
        args = []
        for _ in range(p["arity"]):
            if bound and draw(st.integers(0, 3)) != 0:
                args.append(["v", draw(st.sampled_from(bound))])
            else:
                args.append(_const(draw, consts))
        return [p["name"], args]

    for p in preds:
        ncl = draw(st.integers(1, max_clauses + (2 if share_bias and p is preds[0] else 0)))
        for ci in range(ncl):
            kinds = ["fact", "pfact", "pfact", "rule", "rule"] + (["rule_or"] if allow_body_or else []) + \
                (["rule_or", "rule_or", "rule_or"] if or_bias else [])
            if allow_ads:
                kinds += ["adfact", "adrule", "prule"]
            if (p["stratum"] == 0 and ci == 0) or (share_bias and p is preds[0]):
                kinds = ["fact", "pfact", "pfact"] + (["adfact"] if allow_ads else [])
            kind = draw(st.sampled_from(kinds))
            if kind == "fact":
                prog.append(["fact", ground_atom(p)])
            elif kind == "pfact":
                prog.append(["pfact", draw(st.sampled_from(grid)), ground_atom(p)])
            elif kind == "rule":
                body, bound = body_for(p["stratum"], [p["name"]])
                prog.append(["rule", head_atom(p, bound), body])
            elif kind == "rule_or":
                # head :- (alt1 ; alt2).   head variables must be bound in both branches
                alt1, b1 = body_for(p["stratum"], [p["name"]])
                alt2, b2 = body_for(p["stratum"], [p["name"]])
                both = [v for v in b1 if v in b2]
                prog.append(["rule_or", head_atom(p, both), [], alt1, alt2])
            elif kind == "prule":
                body, bound = body_for(p["stratum"], [p["name"]])
                prog.append(["ad", [[draw(st.sampled_from(grid)), head_atom(p, bound)]], body])
            else:
                nheads = draw(st.integers(2, 3))
                others = [q for q in preds if q["stratum"] >= p["stratum"]]
                hp = [p] + [draw(st.sampled_from(others)) for _ in range(nheads - 1)]
                minstr = min(q["stratum"] for q in hp)
                if kind == "adrule":
                    body, bound = body_for(minstr, [q["name"] for q in hp])
                else:
                    body, bound = [], []
                budget = 10
                heads = []
                for q in hp:
                    k = draw(st.integers(0, budget))
                    budget -= k
                    heads.append([TENTHS[k], head_atom(q, bound) if kind == "adrule" else ground_atom(q)])
                prog.append(["ad", heads, body])
    if allow_shuffle and draw(st.integers(0, 2)) == 0:
        prog = draw(st.permutations(prog))
        prog = list(prog)
    nq = draw(st.integers(min_queries, 3))
    qs = []
    for _ in range(nq):
        p = draw(st.sampled_from(preds))
        nonground = allow_nonground_query and p["arity"] > 0 and draw(st.integers(0, 2)) == 0
        if nonground:
            args = []
            for k in range(p["arity"]):
                if draw(st.integers(0, 2)) == 0:
                    args.append(_const(draw, consts))
                else:
                    args.append(["v", VARS[k] if draw(st.integers(0, 4)) else VARS[0]])
            qs.append(["query", [p["name"], args], False])
        else:
            neg = allow_neg_query and draw(st.integers(0, 5)) == 0
            qs.append(["query", ground_atom(p), neg])
    es = []
    if allow_evidence:
        ne = draw(st.sampled_from([2, 2, 3] if evidence_bias else [0, 0, 1, 1, 2]))
        derived_preds = [q for q in preds if any(
            (s_[0] == "rule" and s_[1][0] == q["name"]) or (s_[0] == "rule_or" and s_[1][0] == q["name"]) or
            (s_[0] == "ad" and s_[2] and any(a[0] == q["name"] for _, a in s_[1])) for s_ in prog)]
        for _ in range(ne):
            if evidence_bias and derived_preds and draw(st.integers(0, 2)) != 0:
                p = draw(st.sampled_from(derived_preds))  # evidence on derived atoms (disjunction / conjunction nodes)
            else:
                p = draw(st.sampled_from(preds))
            es.append(["evidence", ground_atom(p), draw(st.booleans()), draw(st.integers(0, 1))])
        neg_heads = [s_[1] for s_ in prog if s_[0] == "rule" and len(s_[2]) == 1 and s_[2][0][0] and
                     all(t[0] == "a" for t in s_[1][1])]
        if neg_heads and draw(st.booleans()):
            # evidence on an atom defined by a bare negation (its ground node is a negative key)
            es.append(["evidence", draw(st.sampled_from(neg_heads)), draw(st.booleans()), draw(st.integers(0, 1))])
        conj_rules = [s_ for s_ in prog if s_[0] == "rule" and len(s_[2]) >= 2]
        if evidence_bias and conj_rules and draw(st.booleans()):
            # evidence aimed at one ground instance of a conjunctive clause: on its head, on one conjunct, and a
            # query on another conjunct (what evidence propagation infers for the remaining conjuncts)
            r = draw(st.sampled_from(conj_rules))
            theta = {}

            def inst(atom):
                out = []
                for t in atom[1]:
                    if t[0] == "v":
                        if t[1] not in theta:
                            theta[t[1]] = _const(draw, consts)
                        out.append(theta[t[1]])
                    else:
                        out.append(t)
                return [atom[0], out]

            i = draw(st.integers(0, len(r[2]) - 1))
            j = draw(st.sampled_from([k for k in range(len(r[2])) if k != i]))
            es.append(["evidence", inst(r[1]), draw(st.sampled_from([False, False, True])), draw(st.integers(0, 1))])
            es.append(["evidence", inst([r[2][i][1], r[2][i][2]]), draw(st.booleans()), draw(st.integers(0, 1))])
            qs.append(["query", inst([r[2][j][1], r[2][j][2]]), False])
    if error_clauses:
        # clauses whose grounding raises a user error (ill-typed arithmetic, undefined predicate, non-ground
        # probabilistic fact); whether they are reached must not depend on clause / exploration order
        # (one kind of error per program: with two different errors the one that is reported is the one met first)
        kind = draw(st.sampled_from(["arith", "undefined", "nonground"]))
        for _ in range(draw(st.integers(1, 2))):
            p = draw(st.sampled_from(preds))
            head = render_atom_(ground_atom(p))
            if kind == "arith":
                txt = "%s :- X is foo+1, X > 0." % head
            elif kind == "undefined":
                txt = "%s :- undefined_predicate_xyz(1)." % head
            else:
                txt = "0.5::ngp_%s(X).\n%s :- ngp_%s(_)." % (p["name"], head, p["name"])
            pos = draw(st.integers(0, len(prog)))
            prog = prog[:pos] + [["raw", txt]] + prog[pos:]
    if negdef_bias:
        # an atom defined by a bare negation of a probabilistic atom (its ground node is a NEGATIVE literal), used in
        # the body of another clause, with evidence on it or on the atom under the negation
        pf = [s_[2] for s_ in prog if s_[0] == "pfact" and all(t[0] == "a" for t in s_[2][1]) and
              0.0 < float(s_[1]) < 1.0]
        if pf and draw(st.integers(0, 2)) != 0:
            under = draw(st.sampled_from(pf))
        else:
            under = ["nb", []]
            prog.append(["pfact", draw(st.sampled_from(grid)), under])
        prog.append(["rule", ["na", []], [[True, under[0], under[1]]]])
        body = [[False, "na", []]]
        if pf and draw(st.booleans()):
            other = draw(st.sampled_from(pf))
            body.append([draw(st.integers(0, 3)) == 0, other[0], other[1]])
        if draw(st.booleans()):
            body.reverse()
        prog.append(["rule", ["nq", []], body])
        if draw(st.integers(0, 2)) == 0:
            prog.append(["rule", ["nq", []], [[False, draw(st.sampled_from(pf))[0], []]]] if pf and not pf[0][1]
                        else ["pfact", "0.1", ["nq", []]])
        qs.append(["query", ["nq", []], draw(st.integers(0, 4)) == 0])
        if allow_evidence:
            es.append(["evidence", ["na", []] if draw(st.integers(0, 2)) != 0 else under, draw(st.booleans()),
                       draw(st.integers(0, 1))])
    tail = qs + es
    if allow_shuffle and draw(st.booleans()):
        tail = list(draw(st.permutations(tail)))
    return prog + tail


# ------------------------------------------------------------------------------------------------ features

def pred_graph(prog):
    """Predicate dependency graph: {head pred: set((body pred, negative?))}."""
    from pbt.ref.semantics import expand

    prog = expand(prog)
    g = {}
    for s in prog:
        if s[0] == "rule":
            heads, body = [s[1]], s[2]
        elif s[0] == "ad":
            heads, body = [a for _, a in s[1]], s[2]
        elif s[0] == "fact":
            heads, body = [s[1]], []
        elif s[0] == "pfact":
            heads, body = [s[2]], []
        else:
            continue
        for h in heads:
            d = g.setdefault((h[0], len(h[1])), set())
            for l in body:
                d.add(((l[1], len(l[2])), bool(l[0])))
    return g


def sccs(nodes, succ):
    """Tarjan; returns list of SCCs (each a list)."""
    index = {}
    low = {}
    onstack = set()
    stack = []
    out = []
    counter = [0]

    def strong(v):
        work = [(v, iter(succ(v)))]
        index[v] = low[v] = counter[0]
        counter[0] += 1
        stack.append(v)
        onstack.add(v)
        while work:
            node, it = work[-1]
            advanced = False
            for w in it:
                if w not in index:
                    index[w] = low[w] = counter[0]
                    counter[0] += 1
                    stack.append(w)
                    onstack.add(w)
                    work.append((w, iter(succ(w))))
                    advanced = True
                    break
                elif w in onstack:
                    low[node] = min(low[node], index[w])
            if advanced:
                continue
            work.pop()
            if work:
                parent = work[-1][0]
                low[parent] = min(low[parent], low[node])
            if low[node] == index[node]:
                comp = []
                while True:
                    w = stack.pop()
                    onstack.discard(w)
                    comp.append(w)
                    if w == node:
                        break
                out.append(comp)

    for v in nodes:
        if v not in index:
            strong(v)
    return out


def features(prog):
    from pbt.ref.semantics import expand

    f = set()
    if any(s[0] == "rule_or" for s in prog):
        f.add("body-disjunction")
    prog = expand(prog)
    g = pred_graph(prog)
    nodes = set(g)
    for d in g.values():
        for (p, _) in d:
            nodes.add(p)
    comps = sccs(sorted(nodes), lambda v: sorted(set(p for p, _ in g.get(v, ()))))
    comp_of = {}
    for c in comps:
        for v in c:
            comp_of[v] = id(c)
    rec_preds = set()
    for c in comps:
        if len(c) > 1:
            f.add("rec:mutual")
            rec_preds.update(c)
        else:
            v = c[0]
            if any(p == v for p, _ in g.get(v, ())):
                f.add("rec:self")
                rec_preds.add(v)
    for v, d in g.items():
        for (p, neg) in d:
            if neg and comp_of.get(p) == comp_of.get(v):
                f.add("neg-in-scc")
    seen_pf = set()
    derived = set()
    for s in prog:
        k = s[0]
        if k in ("rule", "ad") and s[2]:
            heads = [s[1]] if k == "rule" else [a for _, a in s[1]]
            for h in heads:
                derived.add((h[0], len(h[1])))
    for s in prog:
        k = s[0]
        if k == "pfact":
            key = (s[2][0], str(s[2][1]))
            if key in seen_pf:
                f.add("dup-pfact")
            seen_pf.add(key)
            if s[1] in ("0.0", "0", "1.0", "1"):
                f.add("prob-0-or-1")
        elif k == "ad":
            if len(s[1]) > 1:
                f.add("ad:multihead")
                if s[2]:
                    f.add("ad:multihead+body")
            else:
                f.add("ad:prob-rule")
            if s[2]:
                hv = set(t[1] for _, a in s[1] for t in a[1] if t[0] == "v")
                bv = set(t[1] for l in s[2] for t in l[2] if t[0] == "v")
                if hv:
                    f.add("ad:head-vars")
                if bv - hv:
                    f.add("ad:body-only-vars")
                if any((l[1], len(l[2])) in rec_preds for l in s[2]) and \
                        any((a[0], len(a[1])) in rec_preds for _, a in s[1]):
                    f.add("rec:through-ad")
        elif k == "rule":
            if any(l[0] for l in s[2]):
                f.add("negation")
            hp = (s[1][0], len(s[1][1]))
            if hp in rec_preds:
                n_in = sum(1 for l in s[2] if not l[0] and comp_of.get((l[1], len(l[2]))) == comp_of.get(hp))
                if n_in >= 2:
                    f.add("rec:nonlinear")
        elif k == "query":
            if any(t[0] == "v" for t in s[1][1]):
                f.add("query:nonground")
            if s[2]:
                f.add("query:negated")
            if (s[1][0], len(s[1][1])) in derived:
                f.add("query:derived")
        elif k == "evidence":
            f.add("evidence:" + ("true" if s[2] else "false"))
            if (s[1][0], len(s[1][1])) in derived:
                f.add("evidence:derived")
    if any(s[0] == "ad" and any(l[0] for l in s[2]) for s in prog):
        f.add("negation")
    if "negation" in f and rec_preds and any(x.startswith("evidence") for x in f):
        f.add("cycle+negation+evidence")
    return f


# ------------------------------------------------------------------------------------------------ case classes

def _reach(start, succ):
    seen = set(start)
    stack = list(start)
    while stack:
        v = stack.pop()
        for w in succ(v):
            if w not in seen:
                seen.add(w)
                stack.append(w)
    return seen


def cyclic_preds(prog):
    g = pred_graph(prog)
    nodes = set(g)
    for d in g.values():
        for (p, _) in d:
            nodes.add(p)
    comps = sccs(sorted(nodes), lambda v: sorted(set(p for p, _ in g.get(v, ()))))
    cyc = set()
    for c in comps:
        if len(c) > 1 or any(p == c[0] for p, _ in g.get(c[0], ())):
            cyc.update(c)
    return g, nodes, cyc


def neg_on_cyclic_goal_under_active_cycle(prog):
    """Class of finding F-ENG-1: some clause that can be evaluated while a cycle is active (its head predicate is
    in, or called from, a recursive SCC) has a negative literal on a predicate that is in, or depends on, a
    recursive SCC."""
    g, nodes, cyc = cyclic_preds(prog)
    if not cyc:
        return False
    fwd = lambda v: [p for p, _ in g.get(v, ())]
    rev_map = {}
    for v, d in g.items():
        for p, _ in d:
            rev_map.setdefault(p, set()).add(v)
    up = _reach(cyc, fwd)  # predicates called (transitively) from a cyclic predicate
    down = _reach(cyc, lambda v: rev_map.get(v, ()))  # predicates that depend on a cyclic predicate
    for v, d in g.items():
        if v in up:
            for p, neg in d:
                if neg and p in down:
                    return True
    return False


def neg_under_active_cycle(prog):
    """Class of finding F-ENG-2: a clause that can be evaluated while a cycle is active (head predicate in, or
    called from, a recursive SCC) contains a negative literal."""
    g, nodes, cyc = cyclic_preds(prog)
    if not cyc:
        return False
    up = _reach(cyc, lambda v: [p for p, _ in g.get(v, ())])
    for v, d in g.items():
        if v in up and any(neg for _, neg in d):
            return True
    return False


def cyclic_multihead_ad_with_complementary_body(prog):
    """Class of finding F-ENG-3: an annotated disjunction / probabilistic rule whose body (a) has a positive
    literal that depends on one of the clause's own head predicates and (b) contains a positive and a negative
    literal on the same predicate (a complementary pair, possibly only after grounding)."""
    g = pred_graph(prog)
    fwd = lambda v: [p for p, _ in g.get(v, ())]
    for s in prog:
        if s[0] != "ad" or not s[2]:
            continue
        pos = set((l[1], len(l[2])) for l in s[2] if not l[0])
        neg = set((l[1], len(l[2])) for l in s[2] if l[0])
        if not (pos & neg):
            continue
        heads = set((a[0], len(a[1])) for _, a in s[1])
        for l in s[2]:
            if not l[0]:
                reach = _reach([(l[1], len(l[2]))], fwd)
                if reach & heads:
                    return True
    return False


def shared_var_call(prog):
    """Class of finding F-ENG-4: some body literal or query has the same variable in two argument positions i, j
    AND the called predicate has a clause with a non-empty body whose head arguments at i and j are not
    syntactically identical (that clause body is then evaluated without the binding that identifies them)."""
    from pbt.ref.semantics import expand

    prog = expand(prog)
    clauses = {}  # (pred, arity) -> list of head arg lists of clauses with a body
    for s in prog:
        if s[0] == "rule" and s[2]:
            clauses.setdefault((s[1][0], len(s[1][1])), []).append(s[1][1])
        elif s[0] == "ad" and s[2]:
            for _, a in s[1]:
                clauses.setdefault((a[0], len(a[1])), []).append(a[1])

    def bad(pred, args):
        pos = {}
        for i, t in enumerate(args):
            if t[0] == "v":
                pos.setdefault(t[1], []).append(i)
        for v, ps in pos.items():
            if len(ps) < 2:
                continue
            for hargs in clauses.get((pred, len(args)), ()):
                for i in ps:
                    for j in ps:
                        if i < j and hargs[i] != hargs[j]:
                            return True
        return False

    for s in prog:
        if s[0] in ("rule", "ad"):
            if any(bad(l[1], l[2]) for l in s[2]):
                return True
        elif s[0] == "query":
            if bad(s[1][0], s[1][1]):
                return True
    return False


def pos_and_neg_recursion_same_scc(prog):
    """Class of finding F-ENG-5: some recursive SCC of the predicate graph has both a positive and a negative
    internal edge."""
    g = pred_graph(prog)
    nodes = set(g)
    for d in g.values():
        for (p, _) in d:
            nodes.add(p)
    comps = sccs(sorted(nodes), lambda v: sorted(set(p for p, _ in g.get(v, ()))))
    for c in comps:
        cs = set(c)
        pos = neg = False
        for v in c:
            for p, n in g.get(v, ()):
                if p in cs:
                    if n:
                        neg = True
                    else:
                        pos = True
        if pos and neg:
            return True
    return False



def zero_prob_or_complementary_body(prog):
    """Class of finding F-C07-1: the program has a probability-0 annotation, or a clause body with a positive and
    a negative literal on the same predicate (such conjunctions fold to FALSE only when both literals meet in
    one add_and call, so whether a zero-probability instance is listed depends on evaluation order)."""
    from pbt.ref.semantics import expand

    # ... or a predicate with a deterministic fact next to other clauses: its node becomes TRUE (and its negation
    # FALSE) only when the fact's proof has arrived, which depends on the exploration order / buffering
    det = set()
    other = set()
    for s in expand(prog):
        if s[0] == "fact":
            det.add((s[1][0], len(s[1][1])))
        elif s[0] == "pfact":
            other.add((s[2][0], len(s[2][1])))
        elif s[0] == "rule":
            other.add((s[1][0], len(s[1][1])))
        elif s[0] == "ad":
            for _, a_ in s[1]:
                other.add((a_[0], len(a_[1])))
    if det & other:
        return True
    for s in expand(prog):
        if s[0] == "pfact" and float(s[1]) == 0.0:
            return True
        if s[0] == "ad":
            if any(float(p) == 0.0 for p, _ in s[1]):
                return True
        if s[0] in ("rule", "ad"):
            pos = set((l[1], len(l[2])) for l in s[2] if not l[0])
            neg = set((l[1], len(l[2])) for l in s[2] if l[0])
            if pos & neg:
                return True
    return False


def cyclic_body_disjunction_with_complement(prog):
    """Class of finding F-ENG-6: a clause with a body disjunction (rule_or) whose head predicate is recursive and
    one of whose alternatives contains a positive and a negative literal on the same predicate (that alternative
    folds to the FALSE node)."""
    g, nodes, cyc = cyclic_preds(prog)
    for s in prog:
        if s[0] != "rule_or":
            continue
        if (s[1][0], len(s[1][1])) not in cyc:
            continue
        for alt in (s[3], s[4]):
            lits = list(s[2]) + list(alt)
            pos = set((l[1], len(l[2])) for l in lits if not l[0])
            neg = set((l[1], len(l[2])) for l in lits if l[0])
            if pos & neg:
                return True
    return False


@st.composite
def dense_cycles(draw, max_atoms=5, neg=False):
    """Propositional programs with densely mutually recursive derived atoms, each with its own probabilistic
    support, and several queries in drawn order (the order in which cycle breaking meets the atoms matters)."""
    n = draw(st.integers(3, max_atoms))
    names = ["n%d" % i for i in range(n)]
    prog = []
    for i in range(n):
        prog.append(["pfact", draw(st.sampled_from(["0.2", "0.3", "0.4", "0.5", "0.6", "0.7"])), ["f%d" % i, []]])
    rules = []
    for i in range(n):
        rules.append(["rule", [names[i], []], [[False, "f%d" % i, []]]])
        for j in range(n):
            if (i != j or neg) and draw(st.integers(0, 2)) != 0:
                # with neg: one dependency in four is negative, and an atom may depend on itself
                body = [[neg and draw(st.integers(0, 3)) == 0, names[j], []]]
                if neg and i == j and not body[0][0] and draw(st.booleans()):
                    body[0][0] = True
                if draw(st.integers(0, 3)) == 0:
                    k = draw(st.integers(0, n - 1))
                    body.append([False, "f%d" % k, []])
                rules.append(["rule", [names[i], []], body])
    rules = list(draw(st.permutations(rules)))
    prog += rules
    nq = draw(st.integers(2, 3))
    qs = draw(st.permutations(names))[:nq]
    for q in qs:
        prog.append(["query", [q, []], False])
    if draw(st.integers(0, 3)) == 0:
        prog.append(["evidence", [draw(st.sampled_from(names)), []], draw(st.booleans()), 0])
    return prog


@st.composite
def reach_programs(draw):
    """Graph reachability written with a body disjunction (the textbook shape of test/smokers_or.pl, with several
    start nodes): start/1 facts, probabilistic edge/2 facts over 3-4 nodes and
        reach(X) :- (start(X) ; reach(Y), edge(Y,X)).
    with the alternatives and the two literals of the recursive alternative in either order, optionally split into
    two clauses; ground and non-ground queries."""
    n = draw(st.integers(3, 4))
    nodes = CONSTS[:3] + (["d"] if n == 4 else [])
    prog = []
    for c in draw(st.lists(st.sampled_from(nodes), min_size=1, max_size=3, unique=True)):
        if draw(st.integers(0, 2)) == 0:
            prog.append(["fact", ["s", [["a", c]]]])
        else:
            prog.append(["pfact", draw(st.sampled_from(PROB_GRID)), ["s", [["a", c]]]])
    edges = draw(st.lists(st.tuples(st.sampled_from(nodes), st.sampled_from(nodes)), min_size=1, max_size=5, unique=True))
    for a, b in edges:
        if draw(st.integers(0, 3)) == 0:
            prog.append(["fact", ["e", [["a", a], ["a", b]]]])
        else:
            prog.append(["pfact", draw(st.sampled_from(PROB_GRID)), ["e", [["a", a], ["a", b]]]])
    base = [[False, "s", [["v", "X"]]]]
    rec = [[False, "r", [["v", "Y"]]], [False, "e", [["v", "Y"], ["v", "X"]]]]
    if draw(st.booleans()):
        rec.reverse()
    head = ["r", [["v", "X"]]]
    shape = draw(st.integers(0, 3))
    if shape == 0:
        prog.append(["rule_or", head, [], base, rec])
    elif shape == 1:
        prog.append(["rule_or", head, [], rec, base])
    else:
        cl = [["rule", head, base], ["rule", head, rec]]
        if shape == 3:
            cl.reverse()
        prog += cl
    if draw(st.integers(0, 2)) == 0:
        prog = list(draw(st.permutations(prog)))
    for _ in range(draw(st.integers(1, 2))):
        if draw(st.booleans()):
            prog.append(["query", ["r", [["v", "X"]]], False])
        else:
            prog.append(["query", ["r", [["a", draw(st.sampled_from(nodes))]]], draw(st.integers(0, 4)) == 0])
    if draw(st.integers(0, 3)) == 0:
        prog.append(["evidence", ["r", [["a", draw(st.sampled_from(nodes))]]], draw(st.booleans()), 0])
    return prog
