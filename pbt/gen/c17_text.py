"""C17/C27 - token-level generation and mutation of ProbLog source text.

Everything here is a Hypothesis strategy (or a deterministic helper); the produced *case* is always the final
program text, so a replay needs neither Hypothesis nor the corpus."""
import glob
import os
import re

from hypothesis import strategies as st

# ------------------------------------------------------------------------------------------------ token alphabet
# Every operator of problog/parser.py (binary and unary tokens of the _token_* actions and string_operators).
BINARY_OPERATORS = [
    # (text, priority, type)
    ("-->", 1200, "xfx"), (":-", 1200, "xfx"), ("<-", 1200, "xfx"),
    (";", 1100, "xfy"), ("|", 1100, "xfy"),
    ("->", 1050, "xfy"),
    (",", 1000, "xfy"), ("&", 1000, "xfy"), ("::", 1000, "xfx"), ("~", 1000, "xfx"),
    ("<", 700, "xfx"), ("=<", 700, "xfx"), ("=:=", 700, "xfx"), ("=\\=", 700, "xfx"), ("=@=", 700, "xfx"),
    ("=..", 700, "xfx"), ("==", 700, "xfx"), ("=>", 700, "yfx"), ("=", 700, "xfx"), (">=", 700, "xfx"),
    (">", 700, "xfx"), ("@<", 700, "xfx"), ("@=<", 700, "xfx"), ("@>=", 700, "xfx"), ("@>", 700, "xfx"),
    ("\\=@=", 700, "xfx"), ("\\==", 700, "xfx"), ("\\=", 700, "xfx"), ("~==", 700, "xfx"), ("~=/=", 700, "xfx"),
    ("~<", 700, "xfx"), ("~=<", 700, "xfx"), ("~>=", 700, "xfx"), ("~>", 700, "xfx"), ("~=", 700, "xfx"),
    ("is", 700, "xfx"), ("as", 700, "xfx"),
    (":", 600, "xfy"),
    ("+", 500, "yfx"), ("-", 500, "yfx"), ("#", 500, "yfx"), ("/\\", 500, "yfx"), ("\\/", 500, "yfx"),
    ("><", 500, "yfx"), ("xor", 500, "yfx"),
    ("*", 400, "yfx"), ("/", 400, "yfx"), ("//", 400, "yfx"), ("<<", 400, "yfx"), (">>", 400, "yfx"),
    ("rdiv", 400, "yfx"), ("mod", 400, "yfx"), ("rem", 400, "yfx"), ("div", 400, "yfx"), ("^", 400, "xfy"),
    ("**", 200, "xfx"), ("*->", 200, "xfy"),
]
UNARY_OPERATORS = [
    (":-", 1200, "fx"), ("\\+", 900, "fy"), ("not", 900, "fy"), ("~", 900, "fx"),
    ("+", 200, "fy"), ("-", 200, "fy"), ("\\", 200, "fy"), ("\\\\", 200, "fy"), ("~=", 200, "fy"),
]

ATOMS = ["a", "b", "c", "f", "g", "p", "q", "foo", "query", "evidence", "true", "fail", "findall", "e", "x1",
         "aB_c", "\u00e9t\u00e9", "\u03bb"]
VARIABLES = ["X", "Y", "Z", "_", "_G1", "Abc", "X1", "\u00c9"]
NUMBERS = ["0", "1", "2", "42", "007", "2.5", ".5", "0.3", "1.0", "1e5", "1.0e-3", "2E+2", "0x1F", "0x", "1.", "1.e3",
           "0.5", "1e", "99999999999999999999", "1e400"]
STRINGS = ['"s"', '""', '"a\\"b"', '"two words"', '"\'"', '"']
QUOTED = ["'a b'", "''", "'it\\'s'", "'+'", "'A'", "'[]'", "'\\\\'", "'"]
PUNCTUATION = ["(", ")", "[", "]", "|", ",", ".", ". ", ".\n", ".(", ":-", "::", ";", "?::", "<-", "\\+", "?", "!", "{", "}",
               "$", "`", "@", "#!", ".."]
COMMENTS = ["% c\n", "%", "/* c */", "/*", "*/", "/**/"]
AGGREGATES = ["avg<X>", "sum<Y>", "max<_>", "<X>", "<"]
FUNCTOR_OPEN = ["f(", "p(", "foo(", "'a b'(", "+(", "-(", "not(", "\\+(", ":-(", "is(", "[](", ".(", "avg<X>(", "X(",
                "1(", "\"s\"(", "query(", "evidence(", "mod("]
WHITESPACE = ["", "", "", " ", " ", "\n", "\t", "\r\n", "\x00", "\x0b"]

OPERATOR_TOKENS = sorted(set(o[0] for o in BINARY_OPERATORS) | set(o[0] for o in UNARY_OPERATORS))

ALL_TOKENS = (ATOMS + VARIABLES + NUMBERS + STRINGS + QUOTED + PUNCTUATION + COMMENTS + AGGREGATES + FUNCTOR_OPEN
              + OPERATOR_TOKENS)

# weighted pools: structure tokens are drawn more often than exotic ones
_POOLS = [ATOMS[:9], VARIABLES[:5], NUMBERS[:9], PUNCTUATION[:16], OPERATOR_TOKENS, FUNCTOR_OPEN, ALL_TOKENS]

CHARS = ("abfXY_019 .,;:()[]|'\"\\+-*/<>=~@#&^?!%${}`\n\t\u00e9\u00c9\u03bb\u4e2d\u00a0\u2028\x00\x7f"
         "eE")


def _token():
    return st.one_of([st.sampled_from(p) for p in _POOLS])


def _assemble(parts):
    out = []
    for tok, sep in parts:
        out.append(tok)
        out.append(sep)
    return "".join(out)


def token_strings(max_tokens=14):
    """Random sequences over the token alphabet, with random separators, optionally terminated by '.'."""
    body = st.lists(st.tuples(_token(), st.sampled_from(WHITESPACE)), min_size=1, max_size=max_tokens).map(_assemble)
    return st.tuples(body, st.sampled_from([".", ".", ".", "", ".\n", " ."])).map(lambda t: t[0] + t[1])


def nested_strings(max_leaves=12):
    """Token sequences with balanced brackets: random tokens wrapped in ( ) / [ ] / f( ) / < > groups and joined by
    commas, bars and operators, so that the sub-expression, argument-list and list code of the parser is reached."""
    leaf = st.lists(st.tuples(_token(), st.sampled_from(WHITESPACE)), min_size=0, max_size=3).map(_assemble)
    join = st.sampled_from([",", ", ", "|", " ", "", ";", ":-", "::", "+", "-", " is ", "=", "<", ">", ":"])

    def wrap(inner):
        group = st.tuples(st.sampled_from(["(", "[", "f(", "p(", "'q'(", "-(", "\\+(", "avg<", "<", " (", "query("]), inner,
                          st.sampled_from([")", "]", ")", ")", ">", ""])).map(lambda t: t[0] + t[1] + t[2])
        seq = st.tuples(inner, join, inner).map(lambda t: t[0] + t[1] + t[2])
        return st.one_of(group, group, seq)

    body = st.recursive(leaf, wrap, max_leaves=max_leaves)
    return st.tuples(body, st.sampled_from([".", ".", ".", "", ". a."])).map(lambda t: t[0] + t[1])


# statement skeletons whose holes take 1-2 random tokens: near-valid clauses with odd heads, probabilities, aggregates
SKELETONS = ["{} :- {}.", "{} :- {}, {}.", "{}::{}.", "{}::{} :- {}.", "{}::{}; {}::{}.", "{}; {} :- {}.", "\\+ {} :- {}.",
             "not {} :- {}.", "{}::\\+ {}.", "p({}, {}) :- q.", "{}<{}> :- a.", "p({}<{}>, {}) :- q.", "p({}, {}<{}>) :- q.",
             ":- {}.", "query({}).", "evidence({}, {}).", "{} <- {}.", "{} ~ {}.", "[{} | {}] :- {}.", "p :- {} = [{} | {}]."]


def _hole():
    return st.lists(_token(), min_size=1, max_size=2).map(lambda l: " ".join(l))


def skeleton_strings():
    def fill(t):
        skel, toks = t
        out = []
        i = 0
        for part in skel.split("{}"):
            out.append(part)
            if i < skel.count("{}"):
                out.append(toks[i % len(toks)])
                i += 1
        return "".join(out)
    return st.tuples(st.sampled_from(SKELETONS), st.lists(_hole(), min_size=5, max_size=5)).map(fill)


def char_strings(max_size=12):
    """Raw character sequences over the interesting characters plus arbitrary unicode."""
    return st.one_of(st.text(alphabet=CHARS, min_size=1, max_size=max_size),
                     st.text(min_size=1, max_size=max_size))


# ------------------------------------------------------------------------------------------------ seed statements

_OP_ALT = "|".join(re.escape(o) for o in sorted((o for o in OPERATOR_TOKENS if not o.isalpha()), key=lambda x: -len(x)))
_TOKEN_RE = re.compile(
    r"\s+|%[^\n]*\n?|/\*.*?\*/|\"(?:\\.|[^\"\\])*\"|'(?:\\.|[^'\\])*'|0x[0-9a-fA-F]+|\d+(?:\.\d+)?(?:[eE][-+]?\d+)?"
    r"|[A-Za-z_][A-Za-z0-9_]*|\?::|" + _OP_ALT + r"|.", re.S)


def split_tokens(text):
    """Lexical split that is loss-free: ''.join(split_tokens(s)) == s."""
    return _TOKEN_RE.findall(text)


def split_statements(text):
    """Split a program into statements (token-aware: '.' followed by white space / end / comment)."""
    toks = split_tokens(text)
    out, cur = [], []
    for i, t in enumerate(toks):
        cur.append(t)
        if t == "." and (i + 1 == len(toks) or toks[i + 1][:1].isspace() or toks[i + 1][:1] == "%"):
            s = "".join(cur).strip()
            if s:
                out.append(s)
            cur = []
    s = "".join(cur).strip()
    if s:
        out.append(s)
    return out


_CORPUS = None


def corpus_dir():
    import problog

    return os.path.join(os.path.dirname(os.path.dirname(os.path.abspath(problog.__file__))), "test")


def corpus_statements(max_len=160):
    """Statements of the repository's test/*.pl corpus (sorted, de-duplicated, comments stripped)."""
    global _CORPUS
    if _CORPUS is None:
        seen, out = set(), []
        for fn in sorted(glob.glob(os.path.join(corpus_dir(), "*.pl"))):
            try:
                with open(fn, encoding="utf8", errors="ignore") as f:
                    text = f.read()
            except OSError:
                continue
            for s in split_statements(text):
                s = "".join(t for t in split_tokens(s) if not t.startswith("%")).strip()
                if 0 < len(s) <= max_len and s not in seen:
                    seen.add(s)
                    out.append(s)
        _CORPUS = out or list(SHORT_STATEMENTS)
    return _CORPUS


# the atheris seed corpus (also used as fallback seed statements)
SHORT_STATEMENTS = [
    "a.", "0.5::a.", "p(X) :- q(X), \\+ r(X).", "0.3::a; 0.7::b :- c.", "query(p(_)).", "evidence(a, false).",
    "X is 1 + 2 * 3.", "p([H|T]) :- q(H), p(T).", "p([]).", ":- use_module(library(lists)).", "a :- b; c.",
    "a :- (b, c); \\+ d.", "p(X) :- X > 1, X =< 3.", "0.5::p(X) :- between(1, 3, X).", "a <- b.", "t(_)::a.",
    "t(0.5)::p(X) :- q(X).", "p('A b', \"str\").", "p(-1, - 1, 1 - -3, -(3)).", "a :- not b.", "a :- \\+ \\+ b.",
    "s(D, avg<S>) :- sal(X, S), dept(X, D).", "p(X) :- findall(Y, q(Y), X).", "P::a(P).", "0.5::a :- b, c ; d.",
    "p(X) :- X = f(Y, [1, 2 | Z]).", "q :- call(p, 1).", "a :- true.", "x ~ normal(0, 1).", "a : b.", "m:a :- m:b.",
    "p(X) :- X =.. [f, a].", "p(0x1F, 1.0e-3, .5).", "a :- b -> c ; d.", "a --> b, c.", "p(X) :- X = 'it\\'s'.",
    "?::a.", "utility(a, 3).", "0.5::a. 0.5::b. c :- a, b. query(c).", "p :- 1 =:= 1.0, a @< b, x \\== y.",
    "a :- p(X), X ** 2 > 3 ^ 2 mod 4.",
]


# ------------------------------------------------------------------------------------------------ mutations

_MUT_KINDS = ["tdel", "tins", "trep", "tswap", "tdup", "cdel", "cins", "crep", "cswap"]


def _mutation():
    return st.tuples(st.sampled_from(_MUT_KINDS), st.integers(0, 10 ** 6), _token(), st.sampled_from(CHARS))


def apply_mutations(text, muts):
    """Apply token-/character-level mutations; positions are taken modulo the current length."""
    for kind, pos, tok, ch in muts:
        if kind[0] == "t":
            toks = split_tokens(text)
            n = len(toks)
            if kind == "tins":
                i = pos % (n + 1)
                toks[i:i] = [tok]
            elif n == 0:
                continue
            elif kind == "tdel":
                del toks[pos % n]
            elif kind == "trep":
                toks[pos % n] = tok
            elif kind == "tdup":
                i = pos % n
                toks[i:i] = [toks[i]]
            elif kind == "tswap" and n >= 2:
                i = pos % (n - 1)
                j = i + 1
                # skip over white space so that real tokens are transposed
                while j < n - 1 and toks[j].isspace():
                    j += 1
                toks[i], toks[j] = toks[j], toks[i]
            text = "".join(toks)
        else:
            n = len(text)
            if kind == "cins":
                i = pos % (n + 1)
                text = text[:i] + ch + text[i:]
            elif n == 0:
                continue
            elif kind == "cdel":
                i = pos % n
                text = text[:i] + text[i + 1:]
            elif kind == "crep":
                i = pos % n
                text = text[:i] + ch + text[i + 1:]
            elif kind == "cswap" and n >= 2:
                i = pos % (n - 1)
                text = text[:i] + text[i + 1] + text[i] + text[i + 2:]
    return text


def mutated(seeds, max_mutations=4, max_statements=2):
    """1-2 seed statements, 1..max_mutations mutations."""
    base = st.lists(seeds, min_size=1, max_size=max_statements).map(lambda l: "\n".join(l))
    return st.tuples(base, st.lists(_mutation(), min_size=1, max_size=max_mutations)).map(
        lambda t: apply_mutations(t[0], t[1]))


def mutated_corpus(max_mutations=4):
    return mutated(st.sampled_from(corpus_statements()), max_mutations=max_mutations)


def mutated_generated(max_mutations=4):
    """Mutations of rendered generated programs (pbt.gen.programs)."""
    from pbt.gen import programs as gp
    from pbt.ref import semantics as sem

    progs = gp.programs(max_preds=3, max_clauses=2).map(sem.render_program)
    return st.tuples(progs, st.lists(_mutation(), min_size=1, max_size=max_mutations)).map(
        lambda t: apply_mutations(t[0], t[1]))


def fuzz_texts():
    """The C17 totality domain."""
    return st.one_of(token_strings(), token_strings(max_tokens=6), nested_strings(), nested_strings(max_leaves=5),
                     skeleton_strings(), skeleton_strings(),
                     mutated_corpus(), mutated_corpus(max_mutations=2), mutated_generated(), char_strings(),
                     mutated(st.sampled_from(SHORT_STATEMENTS), max_mutations=3))


def reaches_statement_level(text):
    """Non-trivial rule of the totality check: at least one '.' or an operator token."""
    if "." in text:
        return True
    for t in split_tokens(text):
        if t in _OPSET:
            return True
    return False


_OPSET = frozenset(OPERATOR_TOKENS)
