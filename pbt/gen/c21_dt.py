"""Generators for C21: decision-theoretic programs (DT-ProbLog) and MAP programs, as JSON ASTs.

The AST of pbt/ref/semantics.py is extended with three statement kinds (rendered by `render_program` below):

    ["dfact", atom]                         ?::atom.                      (ground decision fact)
    ["dad", [atom, ...], [literal, ...]]    ?::h1; ?::h2 :- body.         (decision rule / decision AD)
    ["utility", atom, neg, "number"]        utility(atom, number).  /  utility(\\+atom, number).

`to_reference(prog)` turns such a program into a plain program of the reference semantics in which every decision
is a probabilistic choice with uniform positive probabilities (so that every strategy is a positive-probability
event and EU(strategy) is a conditional expectation), plus one query per utility atom."""
from hypothesis import strategies as st

from pbt.gen import programs as gp
from pbt.ref import semantics as sem

UTIL_GRID = ["-10", "-5", "-3", "-2", "-1", "-0.5", "0", "0.5", "1", "2", "3", "5", "10"]
FRESH = [["d1", []], ["d2", []], ["d", [["a", "a"]]], ["d", [["a", "b"]]]]


# ------------------------------------------------------------------------------------------------ rendering

def render_statement(s):
    k = s[0]
    if k == "dfact":
        return "?::%s." % sem.render_atom(s[1])
    if k == "dad":
        heads = "; ".join("?::%s" % sem.render_atom(a) for a in s[1])
        if s[2]:
            return "%s :- %s." % (heads, ", ".join(sem.render_lit(l) for l in s[2]))
        return heads + "."
    if k == "utility":
        a = sem.render_atom(s[1])
        return "utility(%s, %s)." % (("\\+" + a) if s[2] else a, s[3])
    return sem.render_statement(s)


def render_program(prog):
    return "\n".join(render_statement(s) for s in prog) + "\n"


# ------------------------------------------------------------------------------------------------ reference view

def to_reference(prog):
    """Returns (reference program, index map: reference statement index -> index in prog)."""
    out = []
    idx = []
    qseen = []
    for i, s in enumerate(prog):
        k = s[0]
        if k == "dfact":
            out.append(["pfact", "1/2", s[1]])
            idx.append(i)
        elif k == "dad":
            n = len(s[1])
            out.append(["ad", [["1/%d" % (n + 1), a] for a in s[1]], s[2]])
            idx.append(i)
        elif k == "utility":
            if s[1] not in qseen:
                qseen.append(s[1])
        elif k in ("query", "evidence"):
            continue
        elif k == "rule_or":
            # head :- common, (alt1 ; alt2): the two rules it abbreviates (the reference would expand it itself,
            # which would shift the statement indices that the choices refer to)
            out.append(["rule", s[1], list(s[2]) + list(s[3])])
            idx.append(i)
            out.append(["rule", s[1], list(s[2]) + list(s[4])])
            idx.append(i)
        else:
            out.append(s)
            idx.append(i)
    for a in qseen:
        out.append(["query", a, False])
        idx.append(None)
    return out, idx


def plain_view(prog):
    """The program with decisions as probabilistic statements and without utilities: input of the class
    predicates of pbt.gen.programs (which look at the predicate dependency graph only)."""
    ref, _ = to_reference(prog)
    return [s for s in ref if s[0] != "query"]


def _heads_of(s):
    k = s[0]
    if k in ("fact", "dfact", "rule", "rule_or"):
        return [s[1]]
    if k == "pfact":
        return [s[2]]
    if k == "ad":
        return [a for _, a in s[1]]
    if k == "dad":
        return list(s[1])
    return []


def _may_unify(ground_atom, head):
    if ground_atom[0] != head[0] or len(ground_atom[1]) != len(head[1]):
        return False
    seen = {}
    for g, h in zip(ground_atom[1], head[1]):
        if h[0] == "v":
            if seen.setdefault(h[1], g) != g:
                return False
        elif h != g:
            return False
    return True


def decision_fact_with_other_clause(prog):
    """Some decision fact ?::d has another clause (of any kind, incl. a second ?::d) whose head unifies with d."""
    for i, s in enumerate(prog):
        if s[0] != "dfact":
            continue
        for j, t in enumerate(prog):
            if i != j and any(_may_unify(s[1], h) for h in _heads_of(t)):
                return True
    return False


def utility_on_both_signs(prog):
    """Some atom has a utility on the atom and one on its negation."""
    pos = [s[1] for s in prog if s[0] == "utility" and not s[2]]
    return any(s[0] == "utility" and s[2] and s[1] in pos for s in prog)


def has_multihead_dad(prog):
    return any(s[0] == "dad" and len(s[1]) > 1 for s in prog)


def features(prog):
    f = set(x for x in gp.features(plain_view(prog)) if not x.startswith("query"))
    for s in prog:
        if s[0] == "dfact":
            f.add("decision:fact")
        elif s[0] == "dad":
            f.add("decision:ad" if len(s[1]) > 1 else "decision:rule")
            if s[2]:
                f.add("decision:with-body")
            if any(t[0] == "v" for a in s[1] for t in a[1]):
                f.add("decision:nonground")
        elif s[0] == "utility":
            f.add("utility:negated" if s[2] else "utility:positive")
            if s[3].startswith("-"):
                f.add("utility:negative-value")
    if utility_on_both_signs(prog):
        f.add("utility:both-signs")
    if decision_fact_with_other_clause(prog):
        f.add("decision:fact-with-other-clause")
    return f


# ------------------------------------------------------------------------------------------------ DT programs

@st.composite
def dt_programs(draw, allow_dad=True, allow_rec=False):
    base = draw(gp.programs(max_preds=4, allow_evidence=False, allow_nonground_query=False, allow_neg_query=False,
                            allow_rec=allow_rec))
    body = [s for s in base if s[0] not in ("query", "evidence")]
    qatoms = []
    for s in base:
        if s[0] == "query" and s[1] not in qatoms:
            qatoms.append(s[1])
    # 1. turn some probabilistic statements into decisions
    prog = []
    ndec = 0

    def clean(i, atom):
        # no other clause can derive the atom of this probabilistic fact
        return not any(j != i and any(_may_unify(atom, h) for h in _heads_of(t)) for j, t in enumerate(body))

    for i, s in enumerate(body):
        if s[0] == "pfact" and ndec < 4 and draw(st.integers(0, 2)) == 0 and \
                (clean(i, s[2]) or draw(st.integers(0, 5)) == 0):
            prog.append(["dfact", s[2]])
            ndec += 1
        elif s[0] == "ad" and allow_dad and ndec < 4 and draw(st.integers(0, 3)) == 0:
            prog.append(["dad", [a for _, a in s[1]], s[2]])
            ndec += 1
        else:
            prog.append(s)
    # 2. fresh decision facts, used in the body of new or existing rules
    lo = 0 if ndec else 1
    if ndec < 2 and draw(st.integers(0, 3)) != 0:
        lo = 2 - ndec
    nfresh = draw(st.integers(lo, 2)) if ndec < 4 else 0
    fresh = []
    if nfresh:
        cands = [FRESH[0], FRESH[1]] if draw(st.booleans()) else [FRESH[2], FRESH[3]]
        fresh = cands[:nfresh]
    preds = []
    for s in body:
        for h in _heads_of(s):
            key = (h[0], len(h[1]))
            if key not in preds:
                preds.append(key)
    consts = sorted(set(t[1] for s in body for h in _heads_of(s) for t in h[1] if t[0] == "a")) or ["a"]
    extra_heads = []
    for d in fresh:
        prog.append(["dfact", d])
        nuse = draw(st.integers(1, 2))
        for _ in range(nuse):
            neg = draw(st.integers(0, 3)) == 0
            lit = [neg, d[0], d[1]]
            rules = [i for i, s in enumerate(prog) if s[0] == "rule" or (s[0] in ("ad", "dad") and s[2])]
            if rules and draw(st.integers(0, 2)) == 0:
                i = draw(st.sampled_from(rules))
                s = prog[i]
                prog[i] = [s[0], s[1], list(s[2]) + [lit]]
            else:
                p = draw(st.sampled_from(preds))
                head = [p[0], [["a", draw(st.sampled_from(consts))] for _ in range(p[1])]]
                lits = [lit]
                other = [x for x in fresh if x != d]
                c = draw(st.integers(0, 3))
                if c == 0 and other:
                    o = other[0]
                    lits.append([draw(st.integers(0, 3)) == 0, o[0], o[1]])
                kind = draw(st.sampled_from(["rule", "rule", "prule"]))
                if kind == "rule":
                    prog.append(["rule", head, lits])
                else:
                    prog.append(["ad", [[draw(st.sampled_from(gp.PROB_GRID)), head]], lits])
                if head not in extra_heads:
                    extra_heads.append(head)
    # 3. utilities
    ucands = list(qatoms)
    for a in extra_heads:
        if a not in ucands:
            ucands.append(a)
    for s in prog:
        if s[0] == "dfact" and s[1] not in ucands:
            ucands.append(s[1])
        elif s[0] == "dad":
            for a in s[1]:
                if all(t[0] != "v" for t in a[1]) and a not in ucands:
                    ucands.append(a)
    # ground atoms of predicates that depend on a decision
    g = gp.pred_graph(plain_view(prog))
    dec_preds = set()
    for s in prog:
        if s[0] in ("dfact", "dad"):
            for h in _heads_of(s):
                dec_preds.add((h[0], len(h[1])))
    dep = set(dec_preds)
    changed = True
    while changed:
        changed = False
        for v, d in g.items():
            if v not in dep and any(p in dep for p, _ in d):
                dep.add(v)
                changed = True
    depcands = []
    for s in prog:
        for h in _heads_of(s):
            if (h[0], len(h[1])) in dep:
                a = [h[0], [t if t[0] != "v" else ["a", draw(st.sampled_from(consts))] for t in h[1]]]
                if a not in depcands:
                    depcands.append(a)
    nutil = draw(st.integers(1, 4))
    seen = []
    for _ in range(nutil):
        if depcands and draw(st.integers(0, 3)) != 0:
            a = draw(st.sampled_from(depcands))
        else:
            a = draw(st.sampled_from(ucands))
        neg = draw(st.integers(0, 3)) == 0
        if (a, neg) in seen:
            continue
        seen.append((a, neg))
        prog.append(["utility", a, neg, draw(st.sampled_from(UTIL_GRID))])
    return prog


# ------------------------------------------------------------------------------------------------ MAP programs

@st.composite
def map_programs(draw):
    """Programs for `problog map`: ground probabilistic facts (each with a single clause) as the only queries, other
    probabilistic facts / ADs / rules above them, 0-2 evidence atoms."""
    base = draw(gp.programs(max_preds=4, allow_evidence=True, allow_nonground_query=False, allow_neg_query=False,
                            allow_rec=False))
    body = [s for s in base if s[0] not in ("query", "evidence")]
    ev = [s for s in base if s[0] == "evidence"]
    if draw(st.integers(0, 2)) != 0:
        ev = []
    heads = {}
    for s in body:
        for h in _heads_of(s):
            heads.setdefault((h[0], len(h[1])), []).append((s, h))
    # candidate query facts: ground pfacts that are the only clause that can derive their atom
    cands = []
    for s in body:
        if s[0] != "pfact":
            continue
        a = s[2]
        n = sum(1 for (t, h) in heads[(a[0], len(a[1]))] if _may_unify(a, h))
        if n == 1 and a not in cands:
            cands.append(a)
    adheads = []
    for s in body:
        if s[0] == "ad" and not s[2] and len(s[1]) > 1:
            for _, a in s[1]:
                n = sum(1 for (t, h) in heads[(a[0], len(a[1]))] if _may_unify(a, h))
                if n == 1 and a not in adheads and a not in cands:
                    adheads.append(a)
    prog = list(body)
    # fresh query facts used by new rules, so that there are always facts to assign
    nfresh = draw(st.integers(0 if len(cands) >= 2 else 2 - len(cands), 3))
    fresh = []
    for i in range(nfresh):
        a = ["f%d" % (i + 1), []]
        fresh.append(a)
        prog.append(["pfact", draw(st.sampled_from(gp.PROB_GRID[1:-1] + ["0.0", "1.0"] if draw(st.integers(0, 9)) == 0
                                                   else gp.PROB_GRID[1:-1])), a])
    targets = []
    pattern = len(fresh) >= 2 and draw(st.integers(0, 3)) == 0
    if pattern:
        # 'at least one of the (probably true) facts is false' / 'at least one of the (probably false) facts is true'
        neg = draw(st.booleans())
        k0 = len(prog) - len(fresh)
        for i, a in enumerate(fresh):
            k = k0 + i
            prog[k] = ["pfact", draw(st.sampled_from(["0.9", "0.8", "0.75"] if neg else ["0.1", "0.2", "0.25"])), a]
            prog.append(["rule", ["e1", []], [[neg, a[0], a[1]]]])
        ev.append(["evidence", ["e1", []], True, draw(st.integers(0, 1))])
    elif fresh:
        nr = draw(st.integers(1, 3))
        for j in range(nr):
            head = ["e%d" % (draw(st.integers(1, 2))), []]
            nl = draw(st.integers(1, 3))
            lits = []
            pool = fresh + cands
            for _ in range(nl):
                a = draw(st.sampled_from(pool))
                lits.append([draw(st.integers(0, 2)) == 0, a[0], a[1]])
            prog.append(["rule", head, lits])
            if head not in targets:
                targets.append(head)
    for t in targets:
        if draw(st.integers(0, 3)) != 0:
            ev.append(["evidence", t, draw(st.integers(0, 2)) != 0, draw(st.integers(0, 1))])
    pool = cands + fresh
    nq = draw(st.integers(1, min(4, len(pool))))
    qs = list(draw(st.permutations(pool)))[:nq]
    if adheads and draw(st.integers(0, 4)) == 0:
        qs.append(draw(st.sampled_from(adheads)))
    if draw(st.integers(0, 9)) == 0:
        # evidence directly on a query fact
        a = draw(st.sampled_from(qs))
        ev.append(["evidence", a, draw(st.booleans()), 0])
    return prog + [["query", a, False] for a in qs] + ev[:3]


# ------------------------------------------------------------------------------------------------ interacting decisions

COST_GRID = ["-5", "-3", "-2", "-1", "-0.5", "-0.5", "0.5", "1"]


@st.composite
def dt_interacting_programs(draw):
    """Small decision problems in which the value of one decision depends on the others (the shape local search has
    to get right): 2-3 decision facts, 0-2 chance facts, 2-4 derived atoms whose bodies combine two or three
    decisions with mixed polarity (plus possibly a chance fact), utilities on the derived atoms, costs (or small
    rewards) on individual decisions.  The statements - hence the declaration order of the decisions, the order of
    the utilities and so the order in which DT-ProbLog grounds and tries the decisions - are shuffled; so are the
    literals of every body.  Half of these programs contain a 'synergy' pair (s1 :- B, \\+A with a small utility,
    s2 :- A, B[, chance] with a large one, a cost on A) next to 0-2 random derived atoms.  E.g.  0.5::c. ?::x. ?::y. r :- y, \\+x. s :- x, y, c. utility(r,1). utility(s,10).
    utility(x,-2)."""
    ndec = draw(st.integers(2, 3))
    decs = [[n, []] for n in ["x", "y", "z"][:ndec]]
    nch = draw(st.integers(0, 2))
    chances = [["c%d" % (i + 1), []] for i in range(nch)]
    stmts = [["dfact", d] for d in decs]
    for c in chances:
        stmts.append(["pfact", draw(st.sampled_from(gp.PROB_GRID[1:-1])), c])
    derived = []
    utils = []
    if draw(st.booleans()):
        # synergy: B alone pays a little (only without A), A and B together pay a lot, A alone only costs -
        # from 'nothing chosen' the only improving flip is B, after which A becomes worth its cost
        a, b = list(draw(st.permutations(decs)))[:2]
        l1 = list(draw(st.permutations([[False, b[0], b[1]], [True, a[0], a[1]]])))
        l2 = [[False, a[0], a[1]], [False, b[0], b[1]]]
        if chances and draw(st.booleans()):
            c = draw(st.sampled_from(chances))
            l2.append([False, c[0], c[1]])
        l2 = list(draw(st.permutations(l2)))
        stmts.append(["rule", ["s1", []], l1])
        stmts.append(["rule", ["s2", []], l2])
        utils.append(["utility", ["s1", []], False, draw(st.sampled_from(["0.5", "1", "2"]))])
        utils.append(["utility", ["s2", []], False, draw(st.sampled_from(["5", "10"]))])
        utils.append(["utility", a, False, draw(st.sampled_from(["-0.5", "-1", "-2", "-3"]))])
        decs_for_cost = [d for d in decs if d != a]
        nder = draw(st.integers(0, 2))
    else:
        decs_for_cost = decs
        nder = draw(st.integers(2, 4))
    for i in range(nder):
        h = ["r%d" % (i + 1), []]
        k = draw(st.integers(2, ndec)) if draw(st.integers(0, 4)) else 1
        ds = list(draw(st.permutations(decs)))[:k]
        lits = [[draw(st.booleans()), d[0], d[1]] for d in ds]
        if chances and (k == 1 or draw(st.integers(0, 2)) == 0):
            c = draw(st.sampled_from(chances))
            lits.append([draw(st.integers(0, 3)) == 0, c[0], c[1]])
        if len(lits) < 2:
            # a body that is a single decision literal would make the head an alias of the decision
            o = [d for d in decs if d != ds[0]][0]
            lits.append([draw(st.booleans()), o[0], o[1]])
        lits = list(draw(st.permutations(lits)))
        if draw(st.integers(0, 5)) == 0:
            stmts.append(["ad", [[draw(st.sampled_from(gp.PROB_GRID[1:-1])), h]], lits])
        else:
            stmts.append(["rule", h, lits])
        derived.append(h)
        # now and then a second clause for the same head
        if draw(st.integers(0, 5)) == 0:
            ds2 = list(draw(st.permutations(decs)))[:2]
            stmts.append(["rule", h, [[draw(st.booleans()), d[0], d[1]] for d in ds2]])
    for h in derived:
        if draw(st.integers(0, 3)) != 0 or not utils:
            utils.append(["utility", h, draw(st.integers(0, 5)) == 0, draw(st.sampled_from(UTIL_GRID))])
    for d in decs_for_cost:
        if draw(st.booleans()):
            utils.append(["utility", d, False, draw(st.sampled_from(COST_GRID))])
    return list(draw(st.permutations(stmts + utils)))
