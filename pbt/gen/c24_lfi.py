"""C24 - learning problems for LFI: programs with tunable parameters, hidden true parameters and datasets sampled
from the reference distribution of the program with the true parameters.

Program AST = the AST of pbt/ref/semantics.py, except that a probability is either a decimal string (fixed) or
a dict {"t": None | "0.3", "true": "0.6"}: a tunable parameter written t(_) / t(0.3) in the LFI source, whose hidden
true value (used only to sample the dataset) is "true".

Layers (acyclic by construction):
  base    1-3 predicates b0.. of arity 0/1 over <= 2 constants; every ground instance is a fixed probabilistic fact,
          a tunable fact or (rarely) a deterministic fact
  heads   1-3 statements: tunable fact | tunable AD without body (2-4 heads, 0-2 of them with a fixed probability) | tunable rule
          (one head, body of 1-2 base literals) | tunable AD with body; every head predicate is fresh, head variables
          occur in a positive body literal
  extra   (only with hidden=True) a second clause for a head predicate (deterministic or with a fixed probability):
          which clause derived the head is then hidden even in a complete interpretation
  derived 0-2 deterministic rules over base and head atoms
"""
import math
from fractions import Fraction

from hypothesis import strategies as st

from pbt.ref import semantics as sem

CONSTS = ["a", "b"]
TENTHS = ["0.1", "0.2", "0.3", "0.4", "0.5", "0.6", "0.7", "0.8", "0.9"]


# ------------------------------------------------------------------------------------------------ AST helpers

def is_tunable(p):
    return isinstance(p, dict)


def true_prob(p):
    return p["true"] if is_tunable(p) else p


def to_reference(prog):
    """The same program with every tunable parameter replaced by its hidden true value (semantics.py AST)."""
    out = []
    for s in prog:
        if s[0] == "pfact":
            out.append(["pfact", true_prob(s[1]), s[2]])
        elif s[0] == "ad":
            out.append(["ad", [[true_prob(p), a] for p, a in s[1]], s[2]])
        else:
            out.append(s)
    return out


def with_parameters(prog, values):
    """The program with tunable parameter i replaced by values[i] (decimal strings or Fractions)."""
    out = []
    i = 0
    for s in prog:
        if s[0] == "pfact":
            p = s[1]
            if is_tunable(p):
                p = str(values[i])
                i += 1
            out.append(["pfact", p, s[2]])
        elif s[0] == "ad":
            heads = []
            for p, a in s[1]:
                if is_tunable(p):
                    p = str(values[i])
                    i += 1
                heads.append([p, a])
            out.append(["ad", heads, s[2]])
        else:
            out.append(s)
    return out


def _render_prob(p):
    if is_tunable(p):
        return "t(%s)" % ("_" if p["t"] is None else p["t"])
    return p


def render_lfi(prog):
    """LFI source text."""
    lines = []
    for s in prog:
        if s[0] == "pfact":
            lines.append("%s::%s." % (_render_prob(s[1]), sem.render_atom(s[2])))
        elif s[0] == "ad":
            heads = "; ".join("%s::%s" % (_render_prob(p), sem.render_atom(a)) for p, a in s[1])
            if s[2]:
                lines.append("%s :- %s." % (heads, ", ".join(sem.render_lit(l) for l in s[2])))
            else:
                lines.append(heads + ".")
        else:
            lines.append(sem.render_statement(s))
    return "\n".join(lines) + "\n"


def tunables(prog):
    """[(statement index, head index, atom, parameter dict)] in source order (= order of LFIProblem.names)."""
    out = []
    for si, s in enumerate(prog):
        if s[0] == "pfact" and is_tunable(s[1]):
            out.append((si, 0, s[2], s[1]))
        elif s[0] == "ad":
            for k, (p, a) in enumerate(s[1]):
                if is_tunable(p):
                    out.append((si, k, a, p))
    return out


def ad_with_fixed_and_tunable_heads(prog, normalize):
    """Some annotated disjunction has a fixed-probability head next to tunable heads whose weights are not
    renormalised (normalize off, or a single tunable head)."""
    for s in prog:
        if s[0] == "ad":
            nt = sum(1 for p, _ in s[1] if is_tunable(p))
            if 1 <= nt < len(s[1]) and (not normalize or nt == 1):
                return True
    return False


def alias_of_tunable_atom(prog):
    """Some deterministic rule makes its head equivalent to one (possibly negated) tunable atom - its body is one
    literal on a tunable predicate, apart from literals on predicates that only have deterministic facts - and
    the literal is negative or the head has other arguments than the literal."""
    tun = set(a[0] for _, _, a, _ in tunables(prog))
    defined = {}
    for s in prog:
        if s[0] == "fact":
            defined.setdefault(s[1][0], set()).add("fact")
        elif s[0] == "pfact":
            defined.setdefault(s[2][0], set()).add("prob")
        elif s[0] == "ad":
            for _, a in s[1]:
                defined.setdefault(a[0], set()).add("prob")
        elif s[0] == "rule":
            defined.setdefault(s[1][0], set()).add("rule")
    det_only = set(p for p, k in defined.items() if k == {"fact"})
    for s in prog:
        if s[0] != "rule":
            continue
        lits = []
        for l in s[2]:
            if not l[0] and l[1] in det_only:
                continue
            if l not in lits:
                lits.append(l)
        if len(lits) == 1 and lits[0][1] in tun and (lits[0][0] or lits[0][2] != s[1][1]):
            return True
    return False


def has_learnable_ad(prog):
    """Some annotated disjunction has >= 2 tunable heads."""
    return any(s[0] == "ad" and sum(1 for p, _ in s[1] if is_tunable(p)) >= 2 for s in prog)


# ------------------------------------------------------------------------------------------------ datasets

def reference_model(prog, max_choices=10, max_worlds=1 << 12):
    """(RefResult with masks, sorted list of possible ground atoms) of the program with the true parameters."""
    rp = to_reference(prog)
    g = sem.ground(rp)
    atoms = sorted(g.possible)
    probe = rp + [["query", [a[0], [[k[0], k[1]] for k in a[1]]], False] for a in atoms]
    ref = sem.evaluate(probe, max_choices=max_choices, max_worlds=max_worlds, want_masks=True)
    return ref, atoms


def sample_dataset(prog, n_examples, rnd, obs, obs_rate, ref=None, atoms=None):
    """n_examples interpretations sampled from the reference distribution.

    Returns a list of examples; an example is {"world": index, "obs": [[atom_text, bool], ...], "complete": bool}.
    obs == "complete": every possible ground atom is observed in every example;
    obs == "partial": an example is complete with probability 1/3, otherwise every atom is observed with
    probability obs_rate (at least one atom is observed)."""
    if ref is None:
        ref, atoms = reference_model(prog)
    weights = ref.weights
    worlds = [i for i, w in enumerate(weights) if w > 0]
    cum = []
    tot = 0
    for i in worlds:
        tot += weights[i]
        cum.append(tot)
    out = []
    for _ in range(n_examples):
        x = rnd.randrange(tot)
        lo, hi = 0, len(cum) - 1
        while lo < hi:
            mid = (lo + hi) // 2
            if cum[mid] > x:
                hi = mid
            else:
                lo = mid + 1
        w = worlds[lo]
        vals = [(a, bool((ref.masks.get(a, 0) >> w) & 1)) for a in atoms]
        complete = obs == "complete" or rnd.random() < 1.0 / 3
        if complete:
            seen = vals
        else:
            seen = [av for av in vals if rnd.random() < obs_rate]
            if not seen:
                seen = [vals[rnd.randrange(len(vals))]]
            complete = len(seen) == len(vals)
        out.append({"world": w, "obs": [[sem.atom_str(a), v] for a, v in seen], "complete": complete})
    return out


def log_likelihood(prog, values, examples, atoms_by_text=None):
    """Reference log-likelihood of the observations under parameter values (floats), computed with exact rationals
    of the floats' decimal expansion to 12 places."""
    vals = [str(Fraction(v).limit_denominator(10 ** 12)) for v in values]
    rp = with_parameters(prog, vals)
    g = sem.ground(rp)
    atoms = sorted(g.possible)
    probe = rp + [["query", [a[0], [[k[0], k[1]] for k in a[1]]], False] for a in atoms]
    ref = sem.evaluate(probe, max_choices=12, max_worlds=1 << 14, want_masks=True)
    by_text = dict((sem.atom_str(a), a) for a in atoms)
    total = 0.0
    for ex in examples:
        m = ref.posw
        for text, v in ex["obs"]:
            a = by_text.get(text)
            am = ref.masks.get(a, 0) if a is not None else 0
            m &= am if v else (ref.full & ~am)
        w = sem._weight(m, ref.weights)
        if w == 0:
            return float("-inf")
        total += math.log(Fraction(w, ref.scale))
    return total


# ------------------------------------------------------------------------------------------------ strategy

def _split_tenths(draw, k, total):
    """k positive integers summing to at most `total` (exactly `total` when exact)."""
    parts = []
    left = total
    for i in range(k):
        hi = left - (k - 1 - i)
        v = draw(st.integers(1, max(1, hi)))
        parts.append(v)
        left -= v
    return parts, left


@st.composite
def problems(draw, hidden=True, exhaustive_ads=None):
    """A program AST with tunable parameters.  hidden=False: every head predicate has exactly one clause and
    clause variables all occur in the head, so that a complete interpretation determines every tunable choice
    that matters.  exhaustive_ads: True - the true probabilities of every AD with >= 2 tunable heads sum to 1;
    None - drawn per AD."""
    nconst = draw(st.integers(1, 2))
    consts = CONSTS[:nconst]
    prog = []
    base_atoms = []  # (pred, arity)
    nb = draw(st.integers(1, 3))

    def param():
        init = draw(st.sampled_from([None, None] + TENTHS))
        return {"t": init, "true": draw(st.sampled_from(TENTHS))}

    for i in range(nb):
        name = "b%d" % i
        arity = draw(st.sampled_from([0, 0, 1]))
        insts = [[]] if arity == 0 else [[["a", c]] for c in consts]
        made = False
        for args in insts:
            kinds = ["fixed", "fixed", "tunable", "tunable", "det"] + (["absent"] if arity == 1 else [])
            kind = draw(st.sampled_from(kinds))
            if kind == "absent":
                continue
            made = True
            if kind == "fixed":
                prog.append(["pfact", draw(st.sampled_from(TENTHS)), [name, args]])
            elif kind == "tunable":
                prog.append(["pfact", param(), [name, args]])
            else:
                prog.append(["fact", [name, args]])
        if not made:
            prog.append(["pfact", draw(st.sampled_from(TENTHS)), [name, insts[0]]])
        base_atoms.append((name, arity))

    def body(need_var):
        """1-2 literals over base predicates; with need_var the first literal is a positive unary one on X."""
        lits = []
        unary = [b for b in base_atoms if b[1] == 1]
        if need_var:
            b = draw(st.sampled_from(unary))
            lits.append([False, b[0], [["v", "X"]]])
        n = draw(st.integers(0 if lits else 1, 1 if lits else 2))
        for _ in range(n):
            b = draw(st.sampled_from(base_atoms))
            neg = draw(st.integers(0, 2)) == 0
            if b[1] == 0:
                args = []
            elif need_var and draw(st.booleans()):
                args = [["v", "X"]]
            else:
                args = [["a", draw(st.sampled_from(consts))]]
            lits.append([neg, b[0], args])
        return lits

    has_unary = any(b[1] == 1 for b in base_atoms)
    head_atoms = []  # (pred, arity)
    nh = draw(st.integers(1, 3))
    for i in range(nh):
        kind = draw(st.sampled_from(["lfact", "lad", "lad", "lrule", "lrule", "ladb", "ladb"]))
        if kind == "lfact":
            name = "h%d" % i
            prog.append(["pfact", param(), [name, []]])
            head_atoms.append((name, 0))
        elif kind == "lrule":
            name = "h%d" % i
            fo = has_unary and draw(st.booleans())
            args = [["v", "X"]] if fo else []
            prog.append(["ad", [[param(), [name, args]]], body(fo)])
            head_atoms.append((name, 1 if fo else 0))
        else:
            nheads = draw(st.sampled_from([2, 3, 3, 4, 4, 4]))
            with_body = kind == "ladb"
            fo = with_body and has_unary and draw(st.booleans())
            args = [["v", "X"]] if fo else []
            # 0-2 heads with a fixed probability (at least one tunable head stays)
            nfixed = min(draw(st.sampled_from([0, 0, 1, 2, 2])), nheads - 2 if nheads > 2 else 1)
            exact = exhaustive_ads if exhaustive_ads is not None else draw(st.booleans())
            parts, left = _split_tenths(draw, nheads, 10)
            if exact:
                parts[-1] += left
            # initial values: all anonymous, or explicit values that leave room
            explicit = draw(st.integers(0, 2)) == 0
            fixed_tenths = sum(parts[:nfixed])
            ntun = nheads - nfixed
            inits = [None] * ntun
            if explicit and 10 - fixed_tenths - 1 >= ntun:
                ip, _ = _split_tenths(draw, ntun, 10 - fixed_tenths - 1)
                inits = ["0.%d" % v if v < 10 else "1.0" for v in ip]
                if draw(st.booleans()):
                    inits[draw(st.integers(0, ntun - 1))] = None
            heads = []
            ti = 0
            for k in range(nheads):
                name = "h%d_%d" % (i, k)
                p_true = "0.%d" % parts[k] if parts[k] < 10 else "1.0"
                if k < nfixed:
                    heads.append([p_true, [name, args]])
                else:
                    heads.append([{"t": inits[ti], "true": p_true}, [name, args]])
                    ti += 1
                head_atoms.append((name, 1 if fo else 0))
            prog.append(["ad", heads, body(fo) if with_body else []])

    def lit_over(cands, var_ok):
        p = draw(st.sampled_from(cands))
        neg = draw(st.integers(0, 3)) == 0
        if p[1] == 0:
            args = []
        elif var_ok:
            args = [["v", "X"]]
        else:
            args = [["a", draw(st.sampled_from(consts))]]
        return [neg, p[0], args]

    if hidden and draw(st.booleans()):
        # a second clause for one head predicate
        h = draw(st.sampled_from(head_atoms))
        fo = h[1] == 1
        args = [["v", "X"]] if fo else []
        b = body(fo)
        if draw(st.booleans()):
            prog.append(["rule", [h[0], args], b])
        else:
            prog.append(["ad", [[draw(st.sampled_from(TENTHS)), [h[0], args]]], b])

    nd = draw(st.integers(0, 2))
    for i in range(nd):
        cands = base_atoms + head_atoms
        first = draw(st.sampled_from(cands))
        fo = first[1] == 1 and draw(st.booleans())
        lits = [[False, first[0], ([["v", "X"]] if fo else [["a", draw(st.sampled_from(consts))]]) if first[1] else []]]
        if draw(st.booleans()):
            lits.append(lit_over(cands, fo))
        prog.append(["rule", ["d%d" % i, [["v", "X"]] if fo else []], lits])
    return prog
