"""Hypothesis strategies for deterministic Prolog programs (C13) and findall/all programs (C19).

AST: see pbt/ref/c13_prolog.py.  Programs are built by construction:

* `nonrec_cases()`   - layered (non-recursive) programs: predicate i only calls predicates < i (plus the list
                       recursion mem/2 on proper lists), so SLD terminates.  Clause heads deliberately mix ground,
                       partially ground and variable arguments in interleaved order (first-argument indexing,
                       DESIGN 4.4 D3); queries and findall wrappers call them with bound and unbound arguments,
                       several times on the same prepared database.
* `datalog_cases()`  - definite Datalog with arbitrary (left / right / non-linear / mutual) recursion.
* `index_cases(tier)`- bounded-exhaustive family aimed at ClauseIndex.find.
* `findall_cases()`  - C19: q(L) :- findall/all(T, Goal, L) over probabilistic facts, ADs and rules.
"""
from hypothesis import strategies as st

CONSTS = ["a", "b", "c"]
INTS = [1, 2, 3]
# a small pool of ground terms so that head arguments, call arguments and query arguments collide often
POOL = [["a", "a"], ["a", "b"], ["a", "c"], ["i", 1], ["i", 2], ["c", "f", [["a", "a"]]], ["c", "f", [["a", "b"]]],
        ["c", "g", [["a", "a"], ["i", 1]]], ["l", [["a", "a"]], None], ["l", [["a", "a"], ["a", "b"]], None],
        ["l", [], None]]
SIMPLE_POOL = POOL[:5]
MEM = [["cl", ["mem", [["v", "X"], ["l", [["v", "X"]], ["v", "_"]]]], None],
       ["cl", ["mem", [["v", "X"], ["l", [["v", "_"]], ["v", "T"]]]], ["call", "mem", [["v", "X"], ["v", "T"]]]]]


def _ground(draw, simple=False):
    return draw(st.sampled_from(SIMPLE_POOL if simple else POOL))


class _Names(object):
    def __init__(self, prefix="V"):
        self.n = 0
        self.prefix = prefix

    def new(self):
        self.n += 1
        return "%s%d" % (self.prefix, self.n)


def _call_args(draw, arity, bound, names, simple, allow_shared, want_bind=()):
    """Arguments of a positive call: bound variables, new variables, ground terms, partial terms.  Returns
    (args, newly bound variables).  Variables in `want_bind` (still unbound head variables) are preferred as the new
    variables.  No variable is repeated inside the literal unless allow_shared."""
    args = []
    new = []
    used = []
    want = [v for v in want_bind]
    for _ in range(arity):
        c = draw(st.integers(0, 9))
        if c <= 2:
            args.append(_ground(draw, simple))
        elif c <= 4 and bound:
            cands = [v for v in bound if allow_shared or v not in used]
            if cands:
                v = draw(st.sampled_from(cands))
                used.append(v)
                args.append(["v", v])
            else:
                args.append(_ground(draw, simple))
        elif c == 5 and not simple:
            v = want.pop(0) if want else names.new()
            used.append(v)
            new.append(v)
            args.append(["c", "f", [["v", v]]] if draw(st.booleans()) else ["l", [["v", v]], ["v", "_"]])
        else:
            if allow_shared and new and draw(st.integers(0, 2)) == 0:
                args.append(["v", draw(st.sampled_from(new))])
            else:
                v = want.pop(0) if want else names.new()
                used.append(v)
                new.append(v)
                args.append(["v", v])
    return args, new


def _bound_args(draw, arity, bound, simple):
    args = []
    for _ in range(arity):
        if bound and draw(st.integers(0, 2)) != 0:
            args.append(["v", draw(st.sampled_from(bound))])
        else:
            args.append(_ground(draw, simple))
    return args


def _goal(draw, preds, bound, names, need, depth, opts):
    """A conjunction (list of goals) that binds all variables in `need`.  Returns (goals, bound')."""
    bound = list(bound)
    goals = []
    need = [v for v in need if v not in bound]
    nsteps = draw(st.integers(1, 3 if depth == 0 else 2))
    simple = opts.get("simple", False)
    for _ in range(nsteps):
        kinds = []
        if preds:
            kinds += ["call", "call", "call"]
            if bound and opts.get("neg", True):
                kinds.append("neg")
            if depth == 0 and opts.get("disj", True):
                kinds.append("disj")
            if depth == 0 and opts.get("findall", True):
                kinds.append("findall")
        if need:
            kinds.append("eq")
        if bound:
            kinds.append("neq")
        if opts.get("mem") and (need or bound):
            kinds.append("mem")
        if not kinds:
            break
        kind = draw(st.sampled_from(kinds))
        if kind == "call":
            p = draw(st.sampled_from(preds))
            args, new = _call_args(draw, p[1], bound, names, simple, opts.get("shared", False), need)
            goals.append(["call", p[0], args])
            bound += [v for v in new if v not in bound]
            vs = [t[1] for t in args if t[0] == "v"]
            if opts.get("shared", False) and len(vs) != len(set(vs)) and draw(st.booleans()):
                # the same predicate called again with distinct fresh variables (a more general call after a call
                # that shares a variable between arguments: the two must not share a table entry)
                free = [v for v in need if v not in bound]
                more = [free.pop(0) if free else names.new() for _ in range(p[1])]  # head variables first
                goals.append(["call", p[0], [["v", v] for v in more]])
                bound += more
        elif kind == "neg":
            p = draw(st.sampled_from(preds))
            goals.append(["not", ["call", p[0], _bound_args(draw, p[1], bound, simple)]])
        elif kind == "eq":
            v = need[0]
            if bound and draw(st.integers(0, 3)) == 0:
                rhs = ["c", "f", [["v", draw(st.sampled_from(bound))]]] if not simple else ["v", draw(st.sampled_from(bound))]
            else:
                rhs = _ground(draw, simple)
            goals.append(["=", ["v", v], rhs] if draw(st.booleans()) else ["=", rhs, ["v", v]])
            bound.append(v)
        elif kind == "neq":
            v = draw(st.sampled_from(bound))
            if len(bound) > 1 and draw(st.booleans()):
                rhs = ["v", draw(st.sampled_from([b for b in bound if b != v]))]
            else:
                rhs = _ground(draw, simple)
            goals.append(["\\=", ["v", v], rhs])
        elif kind == "mem":
            if need and (not bound or draw(st.booleans())):
                v = need[0]
                items = [_ground(draw, simple) for _ in range(draw(st.integers(1, 3)))]
                goals.append(["call", "mem", [["v", v], ["l", items, None]]])
                bound.append(v)
            elif bound:
                v = draw(st.sampled_from(bound))
                items = [_ground(draw, simple) for _ in range(draw(st.integers(1, 3)))]
                goals.append(["call", "mem", [["v", v], ["l", items, None]]])
        elif kind == "disj":
            # both branches bind the same wanted variables; other new variables stay local to their branch
            want = need[:1]
            branches = []
            for _b in range(2):
                g, _bd = _goal(draw, preds, bound, names, want, depth + 1, opts)
                branches.append(g[0] if len(g) == 1 else ["and", g])
            goals.append(["or", branches])
            bound += [v for v in want if v not in bound]
        elif kind == "findall":
            inner_names = names
            p = draw(st.sampled_from(preds))
            args, new = _call_args(draw, p[1], bound, inner_names, simple, False)
            inner = [["call", p[0], args]]
            ib = bound + new
            if draw(st.integers(0, 2)) == 0:
                if draw(st.booleans()) and preds:
                    p2 = draw(st.sampled_from(preds))
                    a2, n2 = _call_args(draw, p2[1], ib, inner_names, simple, False)
                    inner.append(["call", p2[0], a2])
                    new = new + n2
                elif ib:
                    inner.append(["\\=", ["v", draw(st.sampled_from(ib))], _ground(draw, simple)])
            if new:
                tv = [["v", v] for v in new[:2]]
                tmpl = tv[0] if len(tv) == 1 else ["c", "t", tv]
            else:
                tmpl = ["a", "y"]
            lv = names.new()
            goals.append(["findall", tmpl, inner[0] if len(inner) == 1 else ["and", inner], ["v", lv]])
            bound.append(lv)
            if need and draw(st.booleans()):
                goals.append(["=", ["v", need[0]], ["v", lv]])
                bound.append(need[0])
        need = [v for v in need if v not in bound]
    for v in need:
        goals.append(["=", ["v", v], _ground(draw, simple)])
        bound.append(v)
    return goals, bound


def _head(draw, arity, names, simple, idx_bias):
    """Head arguments and their variables.  idx_bias: probability weights tuned so that the first two arguments mix
    ground / variable / partial terms."""
    args = []
    hv = []
    for k in range(arity):
        c = draw(st.integers(0, 9))
        if c <= 3:
            args.append(_ground(draw, simple))
        elif c <= 7 or simple:
            if hv and c == 7 and draw(st.integers(0, 3)) == 0:
                args.append(["v", draw(st.sampled_from(hv))])  # repeated head variable
            else:
                v = names.new()
                hv.append(v)
                args.append(["v", v])
        else:
            v = names.new()
            hv.append(v)
            if draw(st.booleans()):
                args.append(["c", "f", [["v", v]]])
            else:
                args.append(["c", "g", [_ground(draw, True), ["v", v]]])
    return args, hv


@st.composite
def nonrec_cases(draw, simple=None, allow_shared=None, nonground_facts=None):
    if simple is None:
        simple = draw(st.integers(0, 4)) == 0  # flat terms only: the Datalog part of the space
    npred = draw(st.integers(1, 4))
    use_mem = (not simple) and draw(st.integers(0, 3)) == 0
    if allow_shared is None:
        allow_shared = draw(st.integers(0, 3)) == 0
    if nonground_facts is None:
        # facts with variables give non-ground answers and non-ground findall solutions, whose variable sharing is
        # outside the statement; off unless asked for
        nonground_facts = False
    opts = {"simple": simple, "shared": allow_shared, "mem": use_mem,
            "neg": draw(st.integers(0, 3)) != 0, "disj": draw(st.integers(0, 2)) != 0,
            "findall": draw(st.integers(0, 2)) != 0}
    preds = []
    prog = []
    if use_mem:
        prog += [list(c) for c in MEM]
    for i in range(npred):
        arity = draw(st.sampled_from([1, 2, 2, 2, 3]))
        name = "p%d" % i
        ncl = draw(st.integers(1, 5 if i == 0 else 4))
        lower = list(preds)
        if allow_shared and i == 0:
            # a binary relation with a diagonal and an off-diagonal fact: p0(X,X) and p0(X,Y) have different answers
            arity = 2
            g1 = _ground(draw, simple)
            g2 = _ground(draw, simple)
            prog.append(["cl", [name, [g1, g1]], None])
            prog.append(["cl", [name, [g1, g2]], None])
        for ci in range(ncl):
            names = _Names()
            hargs, hv = _head(draw, arity, names, simple, None)
            is_fact = (not lower and not hv) or draw(st.integers(0, 2)) == 0
            if is_fact and hv and not nonground_facts:
                is_fact = False
            if is_fact:
                prog.append(["cl", [name, hargs], None])
            else:
                uniq = []
                for v in hv:
                    if v not in uniq:
                        uniq.append(v)
                goals, _b = _goal(draw, lower, [], names, uniq, 0, opts)
                body = goals[0] if len(goals) == 1 else ["and", goals]
                prog.append(["cl", [name, hargs], body])
        preds.append((name, arity))
    # findall wrappers
    nw = draw(st.integers(1, 3))
    wrappers = []
    for wi in range(nw):
        names = _Names("W")
        p = draw(st.sampled_from(preds))
        args, new = _query_args(draw, p[1], names, simple)
        inner = [["call", p[0], args]]
        if draw(st.integers(0, 3)) == 0:
            p2 = draw(st.sampled_from(preds))
            a2, n2 = _query_args(draw, p2[1], names, simple, reuse=new)
            g2 = ["call", p2[0], a2]
            if draw(st.booleans()):
                inner.append(g2)
                goal = ["and", inner]
            else:
                goal = ["or", [inner[0], g2]]
            new = new + [v for v in n2 if v not in new]
        else:
            goal = inner[0]
        if goal[0] == "or":
            # template variables must be bound in both branches: use the shared ones, else a constant marker
            v1 = set(_vars_of_args(goal[1][0][2]))
            v2 = set(_vars_of_args(goal[1][1][2]))
            tv = [v for v in new if v in v1 and v in v2]
        else:
            tv = list(new)
        if tv:
            tvs = [["v", v] for v in tv[:2]]
            tmpl = tvs[0] if len(tvs) == 1 else ["c", "t", tvs]
        else:
            tmpl = ["a", "y"]
        wname = "w%d" % wi
        prog.append(["cl", [wname, [["v", "L"]]], ["findall", tmpl, goal, ["v", "L"]]])
        wrappers.append(wname)
    # query sequence: wrappers and direct calls, with repetitions (index mutation shows on the second call)
    base = [[w, [["v", "L"]]] for w in wrappers]
    nd = draw(st.integers(1, 3))
    for _ in range(nd):
        p = draw(st.sampled_from(preds))
        names = _Names("Q")
        args, _n = _query_args(draw, p[1], names, simple)
        base.append([p[0], args])
    if allow_shared and preds[0][1] == 2:
        # one clause that calls the binary relation p0 with a shared variable and with distinct variables, in either
        # order (the restricted and the general call must not share a table entry)
        c1 = ["call", "p0", [["v", "S3"], ["v", "S3"]]]
        c2 = ["call", "p0", [["v", "S1"], ["v", "S2"]]]
        prog.append(["cl", ["ps", [["v", "S1"], ["v", "S2"]]], ["and", [c1, c2] if draw(st.integers(0, 2)) else [c2, c1]]])
        base.append(["ps", [["v", "Q1"], ["v", "Q2"]]])
    order = draw(st.lists(st.integers(0, len(base) - 1), min_size=len(base), max_size=len(base) + 3))
    queries = [base[i] for i in order]
    for b in base:
        if b not in queries:
            queries.append(b)
    return {"prog": prog, "queries": queries}


def _vars_of_args(args):
    out = []

    def go(t):
        if t[0] == "v":
            if t[1] != "_" and t[1] not in out:
                out.append(t[1])
        elif t[0] == "c":
            for x in t[2]:
                go(x)
        elif t[0] == "l":
            for x in t[1]:
                go(x)
            if t[2] is not None:
                go(t[2])

    for a in args:
        go(a)
    return out


def _query_args(draw, arity, names, simple, reuse=()):
    """Arguments of a top-level call: distinct fresh variables, ground terms from the pool, now and then a partial
    term; never a repeated variable inside one literal."""
    args = []
    new = []
    used = []
    for _ in range(arity):
        c = draw(st.integers(0, 9))
        if c <= 3:
            args.append(_ground(draw, simple))
        elif c == 4 and not simple:
            v = names.new()
            new.append(v)
            args.append(["c", "f", [["v", v]]])
        elif c == 5 and [v for v in reuse if v not in used]:
            v = draw(st.sampled_from([v for v in reuse if v not in used]))
            used.append(v)
            args.append(["v", v])
        else:
            v = names.new()
            new.append(v)
            args.append(["v", v])
    return args, new


# ------------------------------------------------------------------------------------------------ recursive Datalog

DCONSTS = [["a", "a"], ["a", "b"], ["a", "c"], ["a", "d"], ["i", 1], ["i", 2]]


@st.composite
def datalog_cases(draw):
    ncon = draw(st.integers(2, 5))
    consts = DCONSTS[:ncon]
    npred = draw(st.integers(1, 4))
    preds = [("r%d" % i, draw(st.sampled_from([1, 2, 2, 2, 3]))) for i in range(npred)]
    allow_shared = draw(st.integers(0, 19)) == 0
    prog = []
    # an extensional predicate with a few facts so that something is derivable
    ne = draw(st.integers(1, 5))
    for _ in range(ne):
        prog.append(["cl", ["e", [draw(st.sampled_from(consts)), draw(st.sampled_from(consts))]], None])
    callable_preds = [("e", 2)] + preds
    for name, arity in preds:
        ncl = draw(st.integers(1, 4))
        for ci in range(ncl):
            kind = draw(st.integers(0, 4))
            if kind == 0:
                prog.append(["cl", [name, [draw(st.sampled_from(consts)) for _ in range(arity)]], None])
                continue
            names = _Names()
            nlit = draw(st.integers(1, 3))
            body = []
            bound = []
            for li in range(nlit):
                p = draw(st.sampled_from(callable_preds))
                args = []
                used = []
                for _ in range(p[1]):
                    c = draw(st.integers(0, 5))
                    if c == 0:
                        args.append(draw(st.sampled_from(consts)))
                    elif c <= 2 and [v for v in bound if allow_shared or v not in used]:
                        v = draw(st.sampled_from([v for v in bound if allow_shared or v not in used]))
                        used.append(v)
                        args.append(["v", v])
                    else:
                        v = names.new()
                        used.append(v)
                        args.append(["v", v])
                body.append(["call", p[0], args])
                for v in used:
                    if v not in bound:
                        bound.append(v)
            if len(bound) >= 1 and draw(st.integers(0, 4)) == 0:
                v = draw(st.sampled_from(bound))
                if len(bound) > 1 and draw(st.booleans()):
                    rhs = ["v", draw(st.sampled_from([b for b in bound if b != v]))]
                else:
                    rhs = draw(st.sampled_from(consts))
                body.insert(draw(st.integers(len(body), len(body))), ["\\=", ["v", v], rhs])
            if len(body) >= 2 and draw(st.integers(0, 5)) == 0:
                # disjunction of the last two literals when it keeps the rule range restricted: only between calls
                # that bind the same variables
                l1, l2 = body[-2], body[-1]
                if l1[0] == "call" and l2[0] == "call" and set(_vars_of_args(l1[2])) == set(_vars_of_args(l2[2])):
                    body[-2:] = [["or", [l1, l2]]]
            hargs = []
            for _ in range(arity):
                if bound and draw(st.integers(0, 3)) != 0:
                    hargs.append(["v", draw(st.sampled_from(bound))])
                else:
                    hargs.append(draw(st.sampled_from(consts)))
            prog.append(["cl", [name, hargs], body[0] if len(body) == 1 else ["and", body]])
    if draw(st.integers(0, 3)) == 0:
        prog = list(draw(st.permutations(prog)))
    nq = draw(st.integers(1, 4))
    queries = []
    for _ in range(nq):
        p = draw(st.sampled_from(preds))
        args = []
        for k in range(p[1]):
            if draw(st.integers(0, 2)) == 0:
                args.append(draw(st.sampled_from(consts)))
            else:
                args.append(["v", "Q%d" % k])
        queries.append([p[0], args])
    if draw(st.booleans()):
        queries.append(queries[0])
    return {"prog": prog, "queries": queries}


# ------------------------------------------------------------------------------------------------ indexing family

def index_cases(tier):
    """p/2 with 2-3 clauses; the first argument of clause i is one of {a, b, X (X=a in the body), X (X=b), X over
    r/1 facts, f(a), f(X) with X=a}; the second argument is the clause number, either in the head or bound in the
    body.  Every program is queried with the same sequence of findall wrappers and direct calls (bound first
    argument, unbound, bound second argument, and again)."""
    firsts = ["a", "b", "Xa", "Xb", "Xr"] + (["fa", "fX"] if tier != "quick" else [])
    seconds = ["h", "b"] if tier != "quick" else ["h"]
    sizes = [2, 3]

    def clause(i, f, s):
        goals = []
        if f == "a":
            a1 = ["a", "a"]
        elif f == "b":
            a1 = ["a", "b"]
        elif f == "fa":
            a1 = ["c", "f", [["a", "a"]]]
        elif f == "fX":
            a1 = ["c", "f", [["v", "X"]]]
            goals.append(["=", ["v", "X"], ["a", "a"]])
        else:
            a1 = ["v", "X"]
            if f == "Xa":
                goals.append(["=", ["v", "X"], ["a", "a"]])
            elif f == "Xb":
                goals.append(["=", ["v", "X"], ["a", "b"]])
            else:
                goals.append(["call", "r", [["v", "X"]]])
        if s == "h":
            a2 = ["i", i + 1]
        else:
            a2 = ["v", "Y"]
            goals.append(["=", ["v", "Y"], ["i", i + 1]])
        body = None if not goals else (goals[0] if len(goals) == 1 else ["and", goals])
        return ["cl", ["p", [a1, a2]], body]

    tail = [["cl", ["r", [["a", "a"]]], None], ["cl", ["r", [["a", "b"]]], None],
            ["cl", ["w0", [["v", "L"]]], ["findall", ["v", "Y"], ["call", "p", [["a", "a"], ["v", "Y"]]], ["v", "L"]]],
            ["cl", ["w1", [["v", "L"]]], ["findall", ["c", "t", [["v", "X"], ["v", "Y"]]],
                                         ["call", "p", [["v", "X"], ["v", "Y"]]], ["v", "L"]]],
            ["cl", ["w2", [["v", "L"]]], ["findall", ["v", "Y"], ["call", "p", [["a", "b"], ["v", "Y"]]], ["v", "L"]]],
            ["cl", ["w3", [["v", "L"]]], ["findall", ["v", "Y"], ["call", "p", [["c", "f", [["a", "a"]]], ["v", "Y"]]],
                                         ["v", "L"]]],
            ["cl", ["w4", [["v", "L"]]], ["findall", ["v", "X"], ["call", "p", [["v", "X"], ["i", 2]]], ["v", "L"]]]]
    L = [["v", "L"]]
    seqs = [[["w0", L], ["w1", L], ["w2", L], ["w0", L], ["p", [["a", "a"], ["v", "Y"]]], ["w3", L], ["w4", L]],
            [["w1", L], ["w2", L], ["w0", L], ["w1", L], ["p", [["v", "X"], ["v", "Y"]]], ["w4", L], ["w3", L]]]

    def rec(n, acc):
        if len(acc) == n:
            yield list(acc)
            return
        for f in firsts:
            for s in seconds:
                acc.append((f, s))
                for r in rec(n, acc):
                    yield r
                acc.pop()

    for n in sizes:
        for combo in rec(n, []):
            kinds = set(f for f, _ in combo)
            if not (kinds & set(["Xa", "Xb", "Xr", "fX"])) or not (kinds & set(["a", "b", "fa"])):
                continue  # only programs that mix ground and non-ground first arguments
            prog = [clause(i, f, s) for i, (f, s) in enumerate(combo)] + tail
            for si, seq in enumerate(seqs):
                yield {"prog": prog, "queries": seq}


# ------------------------------------------------------------------------------------------------ C19

PROBS = ["0.1", "0.2", "0.3", "0.4", "0.5", "0.6", "0.7", "0.8", "0.9"]
PROBS_EDGE = PROBS + ["0.0", "1.0"]
TENTHS = ["0.0", "0.1", "0.2", "0.3", "0.4", "0.5", "0.6", "0.7", "0.8", "0.9", "1.0"]


@st.composite
def findall_cases(draw, nested=False, max_prob_statements=4):
    """Programs for C19.  Base predicates b0, b1 (arity 1-2) get deterministic facts, probabilistic facts (with
    duplicates of the same fact) and annotated disjunctions; derived predicates d0.. get rules (several proofs per
    solution, stratified negation on base predicates and on derived predicates defined earlier, if-then-else pairs
    'h :- c, t.  h :- e, \\+ c.' that use one atom with both polarities, probabilistic rules / ADs with bodies); q0..
    wrap findall / all over calls, conjunctions, disjunctions, call + negation (preferably of a derived predicate),
    call + \\=.  Negative literals only use variables bound by an earlier positive literal; no recursion."""
    consts = [["a", "a"], ["a", "b"], ["a", "c"]][:draw(st.integers(2, 3))]
    terms = consts + [["i", 1]] if draw(st.integers(0, 3)) == 0 else consts
    prog = []
    nprob = [0]
    probs = PROBS_EDGE if draw(st.integers(0, 3)) == 0 else PROBS

    def gterm():
        return draw(st.sampled_from(terms))

    def ad_probs(n):
        budget = 10
        out = []
        for _ in range(n):
            k = draw(st.integers(0 if draw(st.integers(0, 5)) == 0 else 1, max(1, budget - (n - len(out) - 1))))
            k = min(k, budget)
            budget -= k
            out.append(TENTHS[k])
        return out

    nbase = draw(st.sampled_from([1, 2, 2]))
    base = []
    for i in range(nbase):
        arity = draw(st.sampled_from([1, 1, 2]))
        name = "b%d" % i
        ncl = draw(st.integers(1, 4))
        for _ in range(ncl):
            kind = draw(st.sampled_from(["fact", "pf", "pf", "pf", "ad"]))
            if kind != "fact" and nprob[0] >= max_prob_statements:
                kind = "fact"
            if kind == "fact":
                prog.append(["cl", [name, [gterm() for _ in range(arity)]], None])
            elif kind == "pf":
                nprob[0] += 1
                prog.append(["pf", draw(st.sampled_from(probs)), [name, [gterm() for _ in range(arity)]]])
            else:
                nprob[0] += 1
                nh = draw(st.integers(2, 3))
                ps = ad_probs(nh)
                prog.append(["ad", [[p, [name, [gterm() for _ in range(arity)]]] for p in ps], None])
        base.append((name, arity))
    nder = draw(st.sampled_from([0, 1, 1, 2, 2]))
    preds = list(base)
    ite_heads = {}  # derived predicate -> head arguments of its if-then-else pair

    def neg_literal(lower_preds, vars_bound):
        """A negative literal on a predicate defined earlier, using only bound variables; prefers derived predicates,
        in particular the head instances of if-then-else pairs (their formula contains one atom with both
        polarities)."""
        ite = [q for q in lower_preds if q[0] in ite_heads]
        derived = [q for q in lower_preds if q[0].startswith("d")]
        nv = draw(st.sampled_from(vars_bound)) if vars_bound else None
        if ite and draw(st.integers(0, 3)) != 0:
            q = draw(st.sampled_from(ite))
            args = []
            for t in ite_heads[q[0]]:
                if t[0] == "v":
                    args.append(["v", nv] if nv is not None and draw(st.integers(0, 2)) != 0 else gterm())
                else:
                    args.append(t)
            return ["not", ["call", q[0], args]]
        q = draw(st.sampled_from(derived if derived and draw(st.booleans()) else lower_preds))
        use_var = nv is not None and draw(st.integers(0, 3)) != 0
        return ["not", ["call", q[0], [["v", nv] if use_var and k == 0 else gterm() for k in range(q[1])]]]

    for i in range(nder):
        arity = draw(st.sampled_from([1, 1, 2]))
        name = "d%d" % i
        ncl = draw(st.integers(1, 3))
        lower = list(preds)
        if draw(st.integers(0, 2)) != 0:
            # if-then-else pair: the same atom is used positively in one clause and negatively in the other, both
            # clauses derive the same head (head :- cond, then.  head :- else, \+ cond.)
            t = ["v", "V1"] if draw(st.integers(0, 2)) != 0 else gterm()

            def ite_lit(q):
                return ["call", q[0], [t] + [gterm() for _ in range(q[1] - 1)]]

            cond = ite_lit(draw(st.sampled_from(base if draw(st.integers(0, 3)) != 0 else lower)))
            then_l = ite_lit(draw(st.sampled_from(lower)))
            else_l = ite_lit(draw(st.sampled_from(lower)))
            head = [name, [t] + [gterm() for _ in range(arity - 1)]]
            prog.append(["cl", head, ["and", [cond, then_l]]])
            prog.append(["cl", head, ["and", [else_l, ["not", cond]]]])
            ite_heads[name] = head[1]
            ncl = max(0, ncl - 2)
        elif draw(st.integers(0, 1)) == 0:
            # complementary solutions: two head instances whose proofs are exact complements of one another
            # (head(t1) :- g.  head(t2) :- \+ g.  with g ground)
            q = draw(st.sampled_from(base if draw(st.integers(0, 3)) != 0 else lower))
            g = ["call", q[0], [gterm() for _ in range(q[1])]]
            prog.append(["cl", [name, [gterm() for _ in range(arity)]], g])
            prog.append(["cl", [name, [gterm() for _ in range(arity)]], ["not", g]])
            ncl = max(0, ncl - 2)
        for _ in range(ncl):
            names = _Names()
            kind = draw(st.sampled_from(["rule", "rule", "rule", "prule", "adrule", "fact"]))
            if kind in ("prule", "adrule") and nprob[0] >= max_prob_statements:
                kind = "rule"
            if kind == "fact":
                prog.append(["cl", [name, [gterm() for _ in range(arity)]], None])
                continue
            nlit = draw(st.sampled_from([1, 1, 2]))
            body = []
            bound = []
            for li in range(nlit):
                p = draw(st.sampled_from(lower))
                if li > 0 and bound and draw(st.integers(0, 2)) == 0:
                    # stratified negation: on base predicates and on derived predicates defined earlier
                    body.append(neg_literal(lower, bound))
                    continue
                args = []
                used = []
                for _ in range(p[1]):
                    c = draw(st.integers(0, 4))
                    if c == 0:
                        args.append(gterm())
                    elif c == 1 and [v for v in bound if v not in used]:
                        v = draw(st.sampled_from([v for v in bound if v not in used]))
                        used.append(v)
                        args.append(["v", v])
                    else:
                        v = names.new()
                        used.append(v)
                        args.append(["v", v])
                body.append(["call", p[0], args])
                for v in used:
                    if v not in bound:
                        bound.append(v)
            if bound and draw(st.integers(0, 5)) == 0:
                body.append(["\\=", ["v", draw(st.sampled_from(bound))], gterm()])

            def hd():
                return [name, [["v", draw(st.sampled_from(bound))] if bound and draw(st.integers(0, 3)) != 0
                               else gterm() for _ in range(arity)]]

            bgoal = body[0] if len(body) == 1 else ["and", body]
            if kind == "rule":
                prog.append(["cl", hd(), bgoal])
            elif kind == "prule":
                nprob[0] += 1
                prog.append(["ad", [[draw(st.sampled_from(probs)), hd()]], bgoal])
            else:
                nprob[0] += 1
                ps = ad_probs(2)
                prog.append(["ad", [[ps[0], hd()], [ps[1], hd()]], bgoal])
        preds.append((name, arity))
    if draw(st.integers(0, 4)) == 0:
        prog = list(draw(st.permutations(prog)))
    nq = draw(st.integers(1, 2))
    for qi in range(nq):
        names = _Names("G")
        which = draw(st.sampled_from(["findall", "findall", "all"]))
        p = draw(st.sampled_from(preds))

        def qargs(p, reuse):
            args = []
            new = []
            used = []
            for _ in range(p[1]):
                c = draw(st.integers(0, 5))
                if c == 0:
                    args.append(gterm())
                elif c == 1 and [v for v in reuse if v not in used]:
                    v = draw(st.sampled_from([v for v in reuse if v not in used]))
                    used.append(v)
                    args.append(["v", v])
                else:
                    v = names.new()
                    new.append(v)
                    used.append(v)
                    args.append(["v", v])
            return args, new

        args, new = qargs(p, [])
        goals = [["call", p[0], args]]
        shape = draw(st.sampled_from([0, 1, 2, 2, 3, 4, 5, 5, 5, 5, 5, 6, 7] if nested else
                                     [0, 1, 2, 2, 2, 2, 3, 4, 6, 6, 7, 7, 7, 7]))
        if shape <= 1:
            p2 = draw(st.sampled_from(preds))
            a2, n2 = qargs(p2, new)
            goals.append(["call", p2[0], a2])
            new = new + n2
        elif shape == 2 and new:
            goals.append(neg_literal(preds, new))
        elif shape == 3 and new:
            goals.append(["\\=", ["v", draw(st.sampled_from(new))], gterm()])
        goal = goals[0] if len(goals) == 1 else ["and", goals]
        if shape == 4:
            p2 = draw(st.sampled_from(preds))
            a2, n2 = qargs(p2, new)
            g2 = ["call", p2[0], a2]
            shared = [v for v in new if v in _vars_of_args(a2)]
            goal = ["or", [goal, g2]]
            new = shared
        if nested and shape == 5 and new:
            # nested findall: for every solution of the outer goal collect the solutions of an inner goal
            p2 = draw(st.sampled_from(preds))
            a2, n2 = qargs(p2, new)
            inner_t = ["v", n2[0]] if n2 else ["a", "y"]
            lv = names.new()
            goal = ["and", [goal, [draw(st.sampled_from(["findall", "findall", "all"])), inner_t,
                                   ["call", p2[0], a2], ["v", lv]]]]
            new = new + [lv]
        if new:
            tv = [["v", v] for v in new[:2]]
            k = draw(st.integers(0, 3))
            tmpl = tv[0] if (len(tv) == 1 or k == 0) else ["c", "t", tv]
        else:
            tmpl = ["a", "y"]
        qn = "q%d" % qi
        prog.append(["cl", [qn, [["v", "L"]]], [which, tmpl, goal, ["v", "L"]]])
        prog.append(["query", [qn, [["v", "L"]]]])
    return {"prog": prog}
