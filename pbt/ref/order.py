"""Reference standard order of terms (Yap / SWI-Prolog), for C15 and C33.  No import of problog.

Order (property statement C15):  Var < Number < Atom < Compound
  * numbers by value; when the values are equal the float comes before the integer
  * atoms alphabetically (character codes) by their TEXT - the quotes of a quoted atom are syntax, not text
  * compounds by arity, then by name (as atoms), then by arguments left to right
Strings are not part of this reference (the statement does not order them; Yap and SWI differ).

Term representation (JSON-native):
  ["v", Name] | ["i", int] | ["f", float] | ["a", text, quoted] | ["c", name, quoted, [arg, ...]]
`quoted` records whether the source text had quotes; it never takes part in a comparison.

The text syntax accepted by `parse` is the small subset the generators emit:
  integers and floats with optional sign, variables (upper case / underscore first), unquoted atoms
  [a-z][A-Za-z0-9_]*, quoted atoms '...' (no quote or backslash inside), canonical compounds name(arg,...).
"""
import re

_TOKEN = re.compile(r"""\s*(?:
    (?P<float>-?\d+\.\d+(?:[eE][+-]?\d+)?) |
    (?P<int>-?\d+) |
    (?P<var>[A-Z_][A-Za-z0-9_]*) |
    (?P<atom>[a-z][A-Za-z0-9_]*) |
    (?P<qatom>'[^'\\]*') |
    (?P<punct>[(),])
)""", re.X)


class ParseError(ValueError):
    pass


def _tokens(text):
    pos = 0
    out = []
    n = len(text)
    while pos < n:
        if text[pos:].strip() == "":
            break
        m = _TOKEN.match(text, pos)
        if m is None:
            raise ParseError("cannot tokenise %r at %d" % (text, pos))
        out.append((m.lastgroup, m.group(m.lastgroup)))
        pos = m.end()
    return out


def parse(text):
    toks = _tokens(text)
    term, i = _parse(toks, 0, text)
    if i != len(toks):
        raise ParseError("trailing input in %r" % (text,))
    return term


def _parse(toks, i, text):
    if i >= len(toks):
        raise ParseError("unexpected end of %r" % (text,))
    kind, val = toks[i]
    if kind == "int":
        return ["i", int(val)], i + 1
    if kind == "float":
        return ["f", float(val)], i + 1
    if kind == "var":
        return ["v", val], i + 1
    if kind in ("atom", "qatom"):
        quoted = kind == "qatom"
        name = val[1:-1] if quoted else val
        if i + 1 < len(toks) and toks[i + 1] == ("punct", "("):
            args = []
            i += 2
            while True:
                a, i = _parse(toks, i, text)
                args.append(a)
                if i >= len(toks):
                    raise ParseError("unclosed '(' in %r" % (text,))
                if toks[i] == ("punct", ","):
                    i += 1
                    continue
                if toks[i] == ("punct", ")"):
                    return ["c", name, quoted, args], i + 1
                raise ParseError("expected ',' or ')' in %r" % (text,))
        return ["a", name, quoted], i + 1
    raise ParseError("unexpected %r in %r" % (val, text))


_PLAIN = re.compile(r"[a-z][A-Za-z0-9_]*\Z")


def _name(text, quoted):
    if quoted or not _PLAIN.match(text):
        return "'%s'" % text
    return text


def render(t):
    k = t[0]
    if k == "v":
        return t[1]
    if k == "i":
        return str(t[1])
    if k == "f":
        return repr(float(t[1]))
    if k == "a":
        return _name(t[1], t[2])
    if k == "c":
        return "%s(%s)" % (_name(t[1], t[2]), ",".join(render(a) for a in t[3]))
    raise ValueError(t)


def size(t):
    if t[0] == "c":
        return 1 + sum(size(a) for a in t[3])
    return 1


def is_ground(t):
    if t[0] == "v":
        return False
    if t[0] == "c":
        return all(is_ground(a) for a in t[3])
    return True


def has_quoted(t):
    if t[0] == "a":
        return bool(t[2])
    if t[0] == "c":
        return bool(t[2]) or any(has_quoted(a) for a in t[3])
    return False


def subterms(t):
    yield t
    if t[0] == "c":
        for a in t[3]:
            for s in subterms(a):
                yield s


_RANK = {"v": 0, "i": 1, "f": 1, "a": 3, "c": 4}


def _cmp(x, y):
    return -1 if x < y else (1 if x > y else 0)


def decide(a, b):
    """Compare two terms.  Returns (result, rule, sub_a, sub_b): result in {-1, 0, 1}, the rule of the standard
    order that decides the comparison, and the pair of sub-terms at which it is decided.

    rule: 'identical' | 'type-rank' | 'var-name' | 'number-value' | 'float-int-tie' | 'atom-text' | 'arity' | 'name'
    """
    ra, rb = _RANK[a[0]], _RANK[b[0]]
    if ra != rb:
        return _cmp(ra, rb), "type-rank", a, b
    if ra == 0:
        # variables: by age/address in a real system; the reference only knows identity
        c = _cmp(a[1], b[1])
        return c, ("identical" if c == 0 else "var-name"), a, b
    if ra == 1:
        # exact comparison of int with float (Python compares int/float by exact value)
        c = _cmp(a[1], b[1])
        if c != 0:
            return c, "number-value", a, b
        if a[0] == b[0]:
            return 0, "identical", a, b
        return (-1 if a[0] == "f" else 1), "float-int-tie", a, b
    if ra == 3:
        c = _cmp(a[1], b[1])
        return c, ("identical" if c == 0 else "atom-text"), a, b
    # compounds
    c = _cmp(len(a[3]), len(b[3]))
    if c != 0:
        return c, "arity", a, b
    c = _cmp(a[1], b[1])
    if c != 0:
        return c, "name", a, b
    for x, y in zip(a[3], b[3]):
        r = decide(x, y)
        if r[0] != 0:
            return r
    return 0, "identical", a, b


def compare(a, b):
    return decide(a, b)[0]


ORDER_SYMBOL = {-1: "<", 0: "=", 1: ">"}


def sort_unique(terms):
    """Strictly ascending, duplicate-free list (sort/2)."""
    import functools

    out = []
    for t in sorted(terms, key=functools.cmp_to_key(compare)):
        if not out or compare(out[-1], t) != 0:
            out.append(t)
    return out
