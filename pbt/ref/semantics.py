"""Reference distribution semantics by possible-world enumeration (DESIGN 3.2).  No import of problog.

Program AST (JSON-native):
  term      : ["a", name] | ["v", Name] | ["i", int]
  atom      : [pred, [term, ...]]
  literal   : [neg, pred, [term, ...]]
  statement : ["fact", atom] | ["pfact", "p", atom] | ["ad", [["p", atom], ...], [literal, ...]]
              | ["rule", atom, [literal, ...]] | ["query", atom, neg] | ["evidence", atom, value, style]
              | ["rule_or", atom, [common literals], [alternative 1 literals], [alternative 2 literals]]
                (rendered as  head :- common, (alt1 ; alt2).  and equivalent to the two rules head :- common, alt_i)

All worlds are evaluated at once: the truth value of a ground atom over all W worlds is one Python integer
used as a W-bit mask; the well-founded model is computed by the alternating fixpoint on those masks."""
from fractions import Fraction
import itertools


class TooLarge(Exception):
    pass


# ------------------------------------------------------------------------------------------------ rendering

def render_term(t):
    k = t[0]
    if k == "a":
        return t[1]
    if k == "v":
        return t[1]
    if k == "i":
        return str(t[1])
    raise ValueError(t)


def render_atom(a):
    if not a[1]:
        return a[0]
    return "%s(%s)" % (a[0], ",".join(render_term(x) for x in a[1]))


def render_lit(l):
    s = render_atom([l[1], l[2]])
    return ("\\+" + s) if l[0] else s


def render_statement(s):
    k = s[0]
    if k == "fact":
        return render_atom(s[1]) + "."
    if k == "pfact":
        return "%s::%s." % (s[1], render_atom(s[2]))
    if k == "ad":
        heads = "; ".join("%s::%s" % (p, render_atom(a)) for p, a in s[1])
        if s[2]:
            return "%s :- %s." % (heads, ", ".join(render_lit(l) for l in s[2]))
        return heads + "."
    if k == "rule":
        return "%s :- %s." % (render_atom(s[1]), ", ".join(render_lit(l) for l in s[2]))
    if k == "rule_or":
        alt = "(%s ; %s)" % (", ".join(render_lit(l) for l in s[3]), ", ".join(render_lit(l) for l in s[4]))
        parts = [render_lit(l) for l in s[2]] + [alt]
        return "%s :- %s." % (render_atom(s[1]), ", ".join(parts))
    if k == "query":
        a = render_atom(s[1])
        return "query(%s)." % (("\\+" + a) if s[2] else a)
    if k == "evidence":
        a = render_atom(s[1])
        val, style = s[2], s[3]
        if style == 0:
            return "evidence(%s)." % (a if val else "\\+" + a)
        return "evidence(%s,%s)." % (a, "true" if val else "false")
    if k == "raw":
        return s[1]
    raise ValueError(s)


def render_program(prog):
    return "\n".join(render_statement(s) for s in prog) + "\n"


# ------------------------------------------------------------------------------------------------ grounding

def _is_var(t):
    return t[0] == "v"


def _tkey(t):
    return (t[0], t[1])


def _match(args, gargs, subst):
    """Match pattern args against ground args (tuples of term keys) extending subst; returns new subst or None."""
    s = subst
    copied = False
    for p, g in zip(args, gargs):
        if p[0] == "v":
            b = s.get(p[1])
            if b is None:
                if not copied:
                    s = dict(s)
                    copied = True
                s[p[1]] = g
            elif b != g:
                return None
        elif (p[0], p[1]) != g:
            return None
    return s


def _inst(args, subst):
    out = []
    for p in args:
        if p[0] == "v":
            out.append(subst[p[1]])
        else:
            out.append((p[0], p[1]))
    return tuple(out)


def _clause_vars(heads, body):
    vs = []
    for a in heads:
        for t in a[1]:
            if t[0] == "v" and t[1] not in vs:
                vs.append(t[1])
    for l in body:
        for t in l[2]:
            if t[0] == "v" and t[1] not in vs:
                vs.append(t[1])
    return vs


class GroundProgram(object):
    def __init__(self):
        self.rules = []  # (head, pos tuple, neg tuple, choice or None) ; atoms are (pred, argkeys)
        self.choices = []  # list of lists of Fractions (probabilities of the explicit values)
        self.choice_info = []  # (statement index, substitution tuple)
        self.possible = set()


def atom_str(a):
    pred, args = a
    if not args:
        return pred
    return "%s(%s)" % (pred, ",".join(str(x[1]) for x in args))


def expand(prog):
    """Replace every rule_or statement by the two rules it abbreviates."""
    if not any(s[0] == "rule_or" for s in prog):
        return prog
    out = []
    for s in prog:
        if s[0] == "rule_or":
            out.append(["rule", s[1], list(s[2]) + list(s[3])])
            out.append(["rule", s[1], list(s[2]) + list(s[4])])
        else:
            out.append(s)
    return out


def ground(prog):
    """Relevant grounding: all clause instances whose positive body is possibly true."""
    prog = expand(prog)
    clauses = []  # (idx, kind, heads [(p or None, atom)], body)
    for idx, s in enumerate(prog):
        k = s[0]
        if k == "fact":
            clauses.append((idx, "det", [(None, s[1])], []))
        elif k == "pfact":
            clauses.append((idx, "prob", [(Fraction(s[1]), s[2])], []))
        elif k == "ad":
            clauses.append((idx, "prob", [(Fraction(p), a) for p, a in s[1]], s[2]))
        elif k == "rule":
            clauses.append((idx, "det", [(None, s[1])], s[2]))
    possible = {}  # pred -> set of argkeys

    def substitutions(body, heads):
        pos = [l for l in body if not l[0]]

        def rec(i, subst):
            if i == len(pos):
                yield subst
                return
            l = pos[i]
            for g in list(possible.get(l[1], ())):
                if len(g) != len(l[2]):
                    continue
                s2 = _match(l[2], g, subst)
                if s2 is not None:
                    for r in rec(i + 1, s2):
                        yield r

        return rec(0, {})

    changed = True
    while changed:
        changed = False
        for idx, kind, heads, body in clauses:
            for subst in substitutions(body, heads):
                for p, a in heads:
                    try:
                        g = _inst(a[1], subst)
                    except KeyError:
                        raise ValueError("clause %d is not range-restricted" % idx)
                    s = possible.setdefault(a[0], set())
                    if g not in s:
                        s.add(g)
                        changed = True
    gp = GroundProgram()
    for pred, insts in possible.items():
        for g in insts:
            gp.possible.add((pred, g))
    seen_choice = {}
    for idx, kind, heads, body in clauses:
        vs = _clause_vars([a for _, a in heads], body)
        seen = set()
        for subst in substitutions(body, heads):
            try:
                key = tuple(subst[v] for v in vs)
            except KeyError:
                raise ValueError("clause %d is not range-restricted" % idx)
            if key in seen:
                continue
            seen.add(key)
            pos = tuple((l[1], _inst(l[2], subst)) for l in body if not l[0])
            neg = []
            for l in body:
                if l[0]:
                    g = (l[1], _inst(l[2], subst))
                    if g in gp.possible:
                        neg.append(g)
            neg = tuple(neg)
            if kind == "det":
                a = heads[0][1]
                gp.rules.append(((a[0], _inst(a[1], subst)), pos, neg, None))
            else:
                ci = len(gp.choices)
                gp.choices.append([p for p, _ in heads])
                gp.choice_info.append((idx, key))
                for vi, (p, a) in enumerate(heads):
                    gp.rules.append(((a[0], _inst(a[1], subst)), pos, neg, (ci, vi)))
    return gp


# ------------------------------------------------------------------------------------------------ evaluation

class RefResult(object):
    def __init__(self):
        self.probs = {}  # key -> Fraction (conditional probability)
        self.inconsistent = False
        self.evidence_weight = None
        self.undefined = False  # some query/evidence atom undefined (WFS) in a positive-probability world
        self.undefined_any = False  # some relevant atom undefined in a positive-probability world
        self.n_choices = 0
        self.n_worlds = 0
        self.n_rules = 0
        self.features = set()
        self.query_atoms = {}  # key -> ground atom
        self.joint = None


def _mask_for(stride, arity, value, nworlds):
    """Bit mask of the worlds in which the choice (with given stride/arity) takes `value`."""
    block = ((1 << stride) - 1) << (value * stride)
    period = stride * arity
    reps = nworlds // period
    return block * (((1 << (period * reps)) - 1) // ((1 << period) - 1))


def _weight(mask, wts):
    total = 0
    while mask:
        low = mask & -mask
        total += wts[low.bit_length() - 1]
        mask ^= low
    return total


def evaluate(prog, max_worlds=1 << 14, max_choices=16, want_masks=False):
    gp = ground(prog)
    res = RefResult()
    queries = []
    evidence = []
    for s in prog:
        if s[0] == "query":
            queries.append((s[1], s[2]))
        elif s[0] == "evidence":
            evidence.append((s[1], s[2]))
    # query instances
    qinst = []  # (key, atom, neg)
    for a, neg in queries:
        if any(t[0] == "v" for t in a[1]):
            for g in sorted(gp.possible):
                if g[0] == a[0] and len(g[1]) == len(a[1]) and _match(a[1], g[1], {}) is not None:
                    qinst.append((("\\+" if neg else "") + atom_str(g), g, neg))
        else:
            g = (a[0], _inst(a[1], {}))
            qinst.append((("\\+" if neg else "") + atom_str(g), g, neg))
    evinst = [((a[0], _inst(a[1], {})), val) for a, val in evidence]
    # relevance
    by_head = {}
    for r in gp.rules:
        by_head.setdefault(r[0], []).append(r)
    relevant = set()
    stack = [g for _, g, _ in qinst] + [g for g, _ in evinst]
    while stack:
        a = stack.pop()
        if a in relevant:
            continue
        relevant.add(a)
        for r in by_head.get(a, ()):
            stack.extend(r[1])
            stack.extend(r[2])
    rules = [r for r in gp.rules if r[0] in relevant]
    used_choices = sorted(set(r[3][0] for r in rules if r[3] is not None))
    res.n_choices = len(used_choices)
    res.n_rules = len(rules)
    if len(used_choices) > max_choices:
        raise TooLarge("choices %d" % len(used_choices))
    # world layout
    arities = []
    for ci in used_choices:
        probs = gp.choices[ci]
        arities.append(len(probs) + 1)  # + none
    nworlds = 1
    for a in arities:
        nworlds *= a
    if nworlds > max_worlds:
        raise TooLarge("worlds %d" % nworlds)
    res.n_worlds = nworlds
    full = (1 << nworlds) - 1
    strides = []
    s = 1
    for a in arities:
        strides.append(s)
        s *= a
    cmask = {}
    # weights (exact, as Fractions scaled lazily)
    wts = [Fraction(1)] * nworlds
    wts = None
    vals_per_choice = []
    for pos, ci in enumerate(used_choices):
        probs = list(gp.choices[ci])
        none_p = 1 - sum(probs)
        vals = probs + [none_p]
        vals_per_choice.append(vals)
        for vi in range(len(vals)):
            cmask[(ci, vi)] = _mask_for(strides[pos], arities[pos], vi, nworlds)
    # integer weights over a common denominator
    den = 1
    for vals in vals_per_choice:
        d = 1
        for v in vals:
            d = d * v.denominator // _gcd(d, v.denominator)
        den *= d
    wl = [den]
    # build weights by expanding choice after choice (index = sum value*stride)
    wl = [Fraction(1)]
    weights = [1]
    scale = 1
    for vals in vals_per_choice:
        d = 1
        for v in vals:
            d = d * v.denominator // _gcd(d, v.denominator)
        ints = [int(v * d) for v in vals]
        scale *= d
        weights = [w * iv for iv in ints for w in weights]
    # note: the comprehension above puts the NEW choice as the most significant digit: index = v*len(old)+old_index
    # which matches strides (stride of choice k = product of earlier arities).
    negative_weight = any(v < 0 for vals in vals_per_choice for v in vals)
    res.features.add("neg-residual") if negative_weight else None
    posw = 0
    for i, w in enumerate(weights):
        if w != 0:
            posw |= (1 << i)

    atoms = sorted(relevant)

    def gamma(I):
        val = dict((a, 0) for a in atoms)
        changed = True
        while changed:
            changed = False
            for head, pos, neg, ch in rules:
                m = full if ch is None else cmask[ch]
                for p in pos:
                    m &= val.get(p, 0)
                    if not m:
                        break
                if m:
                    for n in neg:
                        m &= ~I.get(n, 0)
                        if not m:
                            break
                if m:
                    old = val[head]
                    new = old | m
                    if new != old:
                        val[head] = new
                        changed = True
        return val

    T = dict((a, 0) for a in atoms)
    while True:
        U = gamma(T)
        T2 = gamma(U)
        if T2 == T:
            break
        T = T2
    true_mask = T
    undef_mask = dict((a, (U[a] & ~T[a]) & full) for a in atoms)
    for a in atoms:
        if undef_mask[a] & posw:
            res.undefined_any = True
            break
    for g in [g for _, g, _ in qinst] + [g for g, _ in evinst]:
        if undef_mask.get(g, 0) & posw:
            res.undefined = True
    # evidence
    emask = full
    for g, val in evinst:
        m = true_mask.get(g, 0)
        emask &= m if val else (full & ~m)
    ew = _weight(emask & posw, weights)
    res.evidence_weight = Fraction(ew, scale)
    if ew == 0:
        res.inconsistent = True
    for key, g, neg in qinst:
        m = true_mask.get(g, 0)
        if neg:
            m = full & ~m
        res.query_atoms[key] = g
        if ew == 0:
            res.probs[key] = None
        else:
            res.probs[key] = Fraction(_weight(m & emask & posw, weights), ew)
    if want_masks:
        res.masks = true_mask
        res.weights = weights
        res.scale = scale
        res.full = full
        res.emask = emask
        res.posw = posw
        res.gp = gp
        res.rules = rules
        res.used_choices = used_choices
        res.cmask = cmask
        res.undef_mask = undef_mask
    return res


def _gcd(a, b):
    while b:
        a, b = b, a % b
    return a


# ------------------------------------------------------------------------------------------------ full grounding

def _consts_of(prog):
    cs = []
    def walk_args(args):
        for t in args:
            if t[0] != "v" and (t[0], t[1]) not in cs:
                cs.append((t[0], t[1]))
    for s in prog:
        k = s[0]
        if k == "fact":
            walk_args(s[1][1])
        elif k == "pfact":
            walk_args(s[2][1])
        elif k == "ad":
            for _, a in s[1]:
                walk_args(a[1])
            for l in s[2]:
                walk_args(l[2])
        elif k == "rule":
            walk_args(s[1][1])
            for l in s[2]:
                walk_args(l[2])
        elif k in ("query", "evidence"):
            walk_args(s[1][1])
    return cs


def full_ground_has_negative_cycle(prog):
    """Does the FULL ground dependency graph (every clause instantiated with every combination of the program's
    constants, no pruning) contain a cycle through negation?"""
    prog = expand(prog)
    consts = _consts_of(prog)
    edges = {}  # atom -> set((atom, neg))
    for s in prog:
        if s[0] == "rule":
            heads, body = [s[1]], s[2]
        elif s[0] == "ad":
            heads, body = [a for _, a in s[1]], s[2]
        else:
            continue
        vs = _clause_vars(heads, body)
        for combo in itertools.product(consts, repeat=len(vs)):
            subst = dict(zip(vs, combo))
            for h in heads:
                ha = (h[0], _inst(h[1], subst))
                d = edges.setdefault(ha, set())
                for l in body:
                    d.add(((l[1], _inst(l[2], subst)), bool(l[0])))
    return _has_neg_cycle(edges)


def _has_neg_cycle(edges):
    nodes = set(edges)
    for d in edges.values():
        for a, _ in d:
            nodes.add(a)
    # Tarjan SCC (iterative)
    index = {}
    low = {}
    on = set()
    stack = []
    comp = {}
    cnt = [0]
    ncomp = [0]
    for root in sorted(nodes):
        if root in index:
            continue
        work = [(root, iter(sorted(a for a, _ in edges.get(root, ()))))]
        index[root] = low[root] = cnt[0]
        cnt[0] += 1
        stack.append(root)
        on.add(root)
        while work:
            v, it = work[-1]
            adv = False
            for w in it:
                if w not in index:
                    index[w] = low[w] = cnt[0]
                    cnt[0] += 1
                    stack.append(w)
                    on.add(w)
                    work.append((w, iter(sorted(a for a, _ in edges.get(w, ())))))
                    adv = True
                    break
                elif w in on:
                    low[v] = min(low[v], index[w])
            if adv:
                continue
            work.pop()
            if work:
                low[work[-1][0]] = min(low[work[-1][0]], low[v])
            if low[v] == index[v]:
                while True:
                    w = stack.pop()
                    on.discard(w)
                    comp[w] = ncomp[0]
                    if w == v:
                        break
                ncomp[0] += 1
    for v, d in edges.items():
        for a, neg in d:
            if neg and comp[a] == comp[v]:
                return True
    return False


def relevant_ground_has_negative_cycle(res):
    """Same, on the relevant ground rules of an evaluate(..., want_masks=True) result."""
    edges = {}
    for head, pos, neg, ch in res.rules:
        d = edges.setdefault(head, set())
        for p in pos:
            d.add((p, False))
        for n in neg:
            d.add((n, True))
    return _has_neg_cycle(edges)
