"""Brute-force helpers over the world bitmasks of pbt.ref.semantics.evaluate(..., want_masks=True) (C20, C23).

World index layout (see semantics.evaluate): the k-th used choice has arity len(probs)+1 (last value = 'none')
and stride = product of the arities of the earlier used choices; world index = sum(value_k * stride_k).
No import of problog."""
import contextlib
import os
import tempfile
from fractions import Fraction

from pbt.ref import semantics as sem


@contextlib.contextmanager
def scratch_cwd():
    """maxsatz appends a line to a file 'resulttable' in the current directory on every call: run it from the
    per-run temp directory so that the checkout stays clean."""
    old = os.getcwd()
    try:
        os.chdir(tempfile.gettempdir())
    except OSError:
        pass
    try:
        yield
    finally:
        os.chdir(old)


def iter_bits(mask):
    while mask:
        low = mask & -mask
        yield low.bit_length() - 1
        mask ^= low


class Layout(object):
    """Per-choice view of a RefResult with masks."""

    def __init__(self, res, prog):
        self.res = res
        self.choices = list(res.used_choices)
        self.pos_of = dict((ci, k) for k, ci in enumerate(self.choices))
        self.arity = []
        self.stride = []
        s = 1
        for ci in self.choices:
            a = len(res.gp.choices[ci]) + 1
            self.arity.append(a)
            self.stride.append(s)
            s *= a
        self.nworlds = s
        self.full = res.full
        self.probs = {}  # ci -> [Fraction per value incl. none]
        self.heads = {}  # ci -> [atom text per explicit value]
        self.key = {}  # ci -> tuple of constant texts (clause variable values)
        self.kind = {}  # ci -> 'pfact' | 'ad'
        self.stmt = {}
        # semantics.ground() numbers the statements of the expanded program (a rule_or statement abbreviates two
        # rules); self.stmt is the index in the program as given (= line of the rendered text)
        expand = getattr(sem, "expand", None)
        xprog = expand(prog) if expand is not None else prog
        orig = []
        for i, s in enumerate(prog):
            orig.extend([i, i] if (s[0] == "rule_or" and expand is not None) else [i])
        for ci in self.choices:
            pr = list(res.gp.choices[ci])
            self.probs[ci] = pr + [1 - sum(pr)]
            self.heads[ci] = [None] * len(pr)
            idx, key = res.gp.choice_info[ci]
            self.stmt[ci] = orig[idx]
            self.key[ci] = tuple(str(x[1]) for x in key)
            self.kind[ci] = "pfact" if xprog[idx][0] == "pfact" else "ad"
        for head, pos, neg, ch in res.gp.rules:
            if ch is not None and ch[0] in self.heads:
                self.heads[ch[0]][ch[1]] = sem.atom_str(head)
        self.atom_by_text = dict((sem.atom_str(a), a) for a in res.masks)

    def value(self, ci, w):
        k = self.pos_of[ci]
        return (w // self.stride[k]) % self.arity[k]

    def vmask(self, ci, vi):
        return self.res.cmask[(ci, vi)]

    def values_mask(self, ci, vals):
        m = 0
        for v in vals:
            m |= self.res.cmask[(ci, v)]
        return m

    def independent(self, mask, ci):
        """Is the world set `mask` invariant under changing the value of choice ci?"""
        k = self.pos_of[ci]
        base = mask & self.res.cmask[(ci, 0)]
        for v in range(1, self.arity[k]):
            if (mask & self.res.cmask[(ci, v)]) >> (v * self.stride[k]) != base:
                return False
        return True

    def atom_mask(self, text):
        """Worlds in which the ground atom with this text is true (0 when it is not derivable)."""
        a = self.atom_by_text.get(text)
        if a is None:
            return 0
        return self.res.masks.get(a, 0)


def at_least_masks(masks, full):
    """atleast[j] = worlds in which at least j of the given masks hold (j = 0..len(masks))."""
    exact = [full]
    for m in masks:
        new = [0] * (len(exact) + 1)
        for j, e in enumerate(exact):
            new[j] |= e & ~m & full
            new[j + 1] |= e & m
        exact = new
    out = []
    acc = 0
    for j in range(len(exact) - 1, -1, -1):
        acc |= exact[j]
        out.append(acc)
    out.reverse()
    return out


def block_prob_table(layout, dref):
    """dref: {ci: set of explicit value indices that have their own atom in the tool's ground program}.
    Returns {ci: [Fraction per value]}: the probability the tool's ground program assigns to the block that the
    value belongs to (own atom: its probability; otherwise the rest block 1 - sum(own atoms); choice absent from
    the ground program: 1)."""
    table = {}
    for ci in layout.choices:
        pr = layout.probs[ci]
        own = dref.get(ci)
        if not own:
            table[ci] = [Fraction(1)] * len(pr)
            continue
        rest = 1 - sum(pr[v] for v in own)
        table[ci] = [pr[v] if v in own else rest for v in range(len(pr))]
    return table


def world_block_prob(layout, table, w):
    p = Fraction(1)
    for k, ci in enumerate(layout.choices):
        v = (w // layout.stride[k]) % layout.arity[k]
        p *= table[ci][v]
    return p


# ------------------------------------------------------------------------------------------------ name mapping
# (duck-typed on problog formula nodes / Terms: .name, .probability, .group, .identifier, .is_extra, .functor,
#  .args, str(); still no import of problog)

def atoms_of(formula):
    """Probabilistic atoms of a LogicFormula/LogicDAG as dicts: index, name (text), p (float | None for the extra
    node of an AD), kind 'pfact' | 'ad', gid (clause id, clause-variable values), idx (head index | 'e'), head."""
    out = []
    for i, n, t in formula:
        if t != "atom":
            continue
        is_extra = bool(getattr(n, "is_extra", False))
        try:
            p = float(n.probability) if n.probability is not True else None
        except Exception:
            p = None
        e = {"index": i, "name": str(n.name), "p": p, "kind": "pfact", "gid": None, "idx": None, "head": None,
             "ident": n.identifier if isinstance(n.identifier, int) else None}
        g = getattr(n, "group", None)
        if g is not None:
            e["kind"] = "ad"
            e["gid"] = (str(g[0]), tuple(str(x) for x in g[1]))
            if is_extra:
                e["idx"] = "e"
            else:
                e["idx"] = int(n.identifier[2])
                nm = n.name
                if getattr(nm, "functor", None) == "choice" and len(nm.args) >= 3:
                    e["head"] = str(nm.args[2])
                else:
                    e["head"] = str(nm)  # an AD head without body that is queried directly carries the query's name
        out.append(e)
    return out


def _pclose(a, b):
    return a is not None and abs(a - float(b)) <= 1e-9


def map_atoms(atoms, lay, stmt_map=None):
    """Map the tool's probabilistic atoms (atoms_of) to reference (choice, value) pairs.  stmt_map (see
    c20_locate.statement_map) pins every atom to the program statement it comes from.

    Returns (per_atom, by_name, dref, unmapped): per_atom[k] = (ci, vi | 'rest') | None for the k-th atom;
    by_name[text] = list of (ci, vi | 'rest') (several for duplicate names); dref = {ci: set(vi)} = the values that
    have their own atom; unmapped = list of atom texts without a counterpart."""
    per_atom = [None] * len(atoms)
    by_name = {}
    dref = {}
    unmapped = []
    used = set()
    groups = {}
    for k, e in enumerate(atoms):
        if e["kind"] == "pfact":
            st = stmt_map.get(("f", e["ident"])) if stmt_map is not None else None
            cands = [ci for ci in lay.choices if ci not in used and lay.kind[ci] == "pfact"
                     and (st is None or lay.stmt[ci] == st)
                     and (lay.heads[ci][0] == e["name"] or st is not None) and _pclose(e["p"], lay.probs[ci][0])]
            if not cands:
                unmapped.append(e["name"])
                continue
            ci = cands[0]
            used.add(ci)
            dref.setdefault(ci, set()).add(0)
            by_name.setdefault(e["name"], []).append((ci, 0))
            per_atom[k] = (ci, 0)
        else:
            groups.setdefault(e["gid"], []).append((k, e))
    for gid in sorted(groups):
        members = groups[gid]
        vs = gid[1]

        st = stmt_map.get(("g", gid[0])) if stmt_map is not None else None

        def fits(ci, exact):
            if lay.kind[ci] != "ad" or ci in used:
                return False
            if st is not None and lay.stmt[ci] != st:
                return False
            if exact:
                if lay.key[ci] != vs:
                    return False
            elif sorted(lay.key[ci]) != sorted(vs):
                return False
            for k, e in members:
                if e["idx"] == "e":
                    continue
                i = e["idx"]
                if i >= len(lay.heads[ci]) or lay.heads[ci][i] != e["head"] or not _pclose(e["p"], lay.probs[ci][i]):
                    return False
            return True

        cands = [ci for ci in lay.choices if fits(ci, True)] or [ci for ci in lay.choices if fits(ci, False)]
        if not cands:
            unmapped.extend(e["name"] for k, e in members)
            continue
        ci = cands[0]
        used.add(ci)
        dref.setdefault(ci, set())
        for k, e in members:
            tg = (ci, "rest") if e["idx"] == "e" else (ci, e["idx"])
            if e["idx"] != "e":
                dref[ci].add(e["idx"])
            by_name.setdefault(e["name"], []).append(tg)
            per_atom[k] = tg
    return per_atom, by_name, dref, unmapped


def literal_mask(lay, dref, target, positive):
    ci, vi = target
    if vi == "rest":
        m = lay.full & ~lay.values_mask(ci, dref.get(ci, ()))
    else:
        m = lay.vmask(ci, vi)
    return m if positive else (lay.full & ~m)


def describe_world(lay, w):
    out = []
    for ci in lay.choices:
        v = lay.value(ci, w)
        hs = lay.heads[ci]
        if v < len(hs):
            out.append("%s#%d=%s" % (lay.kind[ci], ci, hs[v]))
        else:
            out.append("%s#%d(%s)=none" % (lay.kind[ci], ci, "/".join(str(h) for h in hs)))
    return "{" + ", ".join(out) + "}"


