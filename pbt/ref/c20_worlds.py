"""Brute-force helpers over the world bitmasks of pbt.ref.semantics.evaluate(..., want_masks=True) (C20, C23).

World index layout (see semantics.evaluate): the k-th used choice has arity len(probs)+1 (last value = 'none')
and stride = product of the arities of the earlier used choices; world index = sum(value_k * stride_k).
No import of problog."""
from fractions import Fraction

from pbt.ref import semantics as sem


def iter_bits(mask):
    while mask:
        low = mask & -mask
        yield low.bit_length() - 1
        mask ^= low


class Layout(object):
    """Per-choice view of a RefResult with masks."""

    def __init__(self, res, prog):
        self.res = res
        self.choices = list(res.used_choices)
        self.pos_of = dict((ci, k) for k, ci in enumerate(self.choices))
        self.arity = []
        self.stride = []
        s = 1
        for ci in self.choices:
            a = len(res.gp.choices[ci]) + 1
            self.arity.append(a)
            self.stride.append(s)
            s *= a
        self.nworlds = s
        self.full = res.full
        self.probs = {}  # ci -> [Fraction per value incl. none]
        self.heads = {}  # ci -> [atom text per explicit value]
        self.key = {}  # ci -> tuple of constant texts (clause variable values)
        self.kind = {}  # ci -> 'pfact' | 'ad'
        self.stmt = {}
        for ci in self.choices:
            pr = list(res.gp.choices[ci])
            self.probs[ci] = pr + [1 - sum(pr)]
            self.heads[ci] = [None] * len(pr)
            idx, key = res.gp.choice_info[ci]
            self.stmt[ci] = idx
            self.key[ci] = tuple(str(x[1]) for x in key)
            self.kind[ci] = "pfact" if prog[idx][0] == "pfact" else "ad"
        for head, pos, neg, ch in res.gp.rules:
            if ch is not None and ch[0] in self.heads:
                self.heads[ch[0]][ch[1]] = sem.atom_str(head)
        self.atom_by_text = dict((sem.atom_str(a), a) for a in res.masks)

    def value(self, ci, w):
        k = self.pos_of[ci]
        return (w // self.stride[k]) % self.arity[k]

    def vmask(self, ci, vi):
        return self.res.cmask[(ci, vi)]

    def values_mask(self, ci, vals):
        m = 0
        for v in vals:
            m |= self.res.cmask[(ci, v)]
        return m

    def atom_mask(self, text):
        """Worlds in which the ground atom with this text is true (0 when it is not derivable)."""
        a = self.atom_by_text.get(text)
        if a is None:
            return 0
        return self.res.masks.get(a, 0)


def at_least_masks(masks, full):
    """atleast[j] = worlds in which at least j of the given masks hold (j = 0..len(masks))."""
    exact = [full]
    for m in masks:
        new = [0] * (len(exact) + 1)
        for j, e in enumerate(exact):
            new[j] |= e & ~m & full
            new[j + 1] |= e & m
        exact = new
    out = []
    acc = 0
    for j in range(len(exact) - 1, -1, -1):
        acc |= exact[j]
        out.append(acc)
    out.reverse()
    return out


def block_prob_table(layout, dref):
    """dref: {ci: set of explicit value indices that have their own atom in the tool's ground program}.
    Returns {ci: [Fraction per value]}: the probability the tool's ground program assigns to the block that the
    value belongs to (own atom: its probability; otherwise the rest block 1 - sum(own atoms); choice absent from
    the ground program: 1)."""
    table = {}
    for ci in layout.choices:
        pr = layout.probs[ci]
        own = dref.get(ci)
        if not own:
            table[ci] = [Fraction(1)] * len(pr)
            continue
        rest = 1 - sum(pr[v] for v in own)
        table[ci] = [pr[v] if v in own else rest for v in range(len(pr))]
    return table


def world_block_prob(layout, table, w):
    p = Fraction(1)
    for k, ci in enumerate(layout.choices):
        v = (w // layout.stride[k]) % layout.arity[k]
        p *= table[ci][v]
    return p
