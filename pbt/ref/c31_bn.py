"""Joint distribution of a discrete Bayesian network given as plain data, by enumeration (C31).  No import of problog.

Network format (JSON-like, produced by the property module from a problog.pgm.cpd.PGM):

    variables : {name: [value, ...]}                       (values are ints; booleans are [0, 1])
    factors   : [ {"rv": name, "kind": "table", "parents": [name, ...],
                   "table": [ [[parent value, ...], [P(rv = value_0 | key), P(rv = value_1 | key), ...]], ... ]}
                | {"rv": name, "kind": "or", "parentvalues": [[parent, value], ...]} ]

Semantics:
  * a "table" factor is a conditional probability table: row `key` (one value per entry of `parents`, in that
    order) gives the distribution of rv over its values (in the order of variables[rv]);
  * an "or" factor is a deterministic CPT of a boolean rv: rv = 1 iff some listed (parent, value) pair holds;
  * the joint is the product of all CPTs; every variable needs exactly one CPT, all parents must be variables, the
    parent graph must be acyclic, and every reachable CPT row must be a probability distribution.

The enumeration is a depth-first search in topological order that prunes zero-probability branches, with exact
rational arithmetic on the numbers found in the tables (a float is taken at its exact binary value)."""
from fractions import Fraction


class TooLarge(Exception):
    pass


class Malformed(Exception):
    """The data does not define a Bayesian network / a joint distribution."""

    def __init__(self, kind, detail):
        Exception.__init__(self, "%s: %s" % (kind, detail))
        self.kind = kind
        self.detail = detail


def _num(x):
    if isinstance(x, bool):
        return Fraction(int(x))
    if isinstance(x, (int, Fraction)):
        return Fraction(x)
    if isinstance(x, float):
        if x != x or x in (float("inf"), float("-inf")):
            raise Malformed("cpt-entry-not-finite", repr(x))
        return Fraction(x)
    if isinstance(x, str):
        return Fraction(x)
    raise Malformed("cpt-entry-not-a-number", repr(x))


def _val(v):
    """Values are compared as Python does (True == 1, False == 0)."""
    if isinstance(v, bool):
        return int(v)
    return v


def topological_order(variables, factors):
    by_rv = {}
    for f in factors:
        rv = f["rv"]
        if rv not in variables:
            raise Malformed("cpt-for-unknown-variable", rv)
        if rv in by_rv:
            raise Malformed("two-cpts-for-one-variable", rv)
        by_rv[rv] = f
    for name in variables:
        if name not in by_rv:
            raise Malformed("variable-without-cpt", name)
    parents = {}
    for rv, f in by_rv.items():
        if f["kind"] == "table":
            ps = list(f["parents"])
        elif f["kind"] == "or":
            ps = [p for p, _ in f["parentvalues"]]
        else:
            raise Malformed("unknown-factor-kind", str(f["kind"]))
        for p in ps:
            if p not in variables:
                raise Malformed("parent-is-not-a-variable", "%s <- %s" % (rv, p))
        parents[rv] = ps
    order = []
    state = {}
    for root in variables:
        if root in state:
            continue
        stack = [(root, iter(parents[root]))]
        state[root] = 1
        while stack:
            v, it = stack[-1]
            adv = False
            for p in it:
                s = state.get(p)
                if s == 1:
                    raise Malformed("cyclic-network", "%s <- %s" % (v, p))
                if s is None:
                    state[p] = 1
                    stack.append((p, iter(parents[p])))
                    adv = True
                    break
            if adv:
                continue
            stack.pop()
            state[v] = 2
            order.append(v)
    return order, by_rv


def marginals(variables, factors, targets, max_leaves=1 << 16, row_tol=Fraction(1, 10 ** 9)):
    """Returns ({target name: {value: Fraction}}, total mass, number of positive-probability joint states).

    targets: iterable of variable names."""
    order, by_rv = topological_order(variables, factors)
    values = dict((name, [_val(v) for v in vals]) for name, vals in variables.items())
    for name, vals in values.items():
        if not vals:
            raise Malformed("variable-without-values", name)
        if len(set(vals)) != len(vals):
            raise Malformed("duplicate-values", name)
    tables = {}
    for rv, f in by_rv.items():
        if f["kind"] == "table":
            t = {}
            for key, row in f["table"]:
                k = tuple(_val(x) for x in key)
                if len(k) != len(f["parents"]):
                    raise Malformed("cpt-key-arity", "%s: %r" % (rv, key))
                if k in t:
                    raise Malformed("duplicate-cpt-row", "%s: %r" % (rv, key))
                if len(row) != len(values[rv]):
                    raise Malformed("cpt-row-length", "%s: key %r has %d entries for %d values" % (
                        rv, key, len(row), len(values[rv])))
                t[k] = [_num(x) for x in row]
            tables[rv] = (list(f["parents"]), t)
        else:
            if len(values[rv]) != 2 or set(values[rv]) != set([0, 1]):
                raise Malformed("or-cpt-on-non-boolean", rv)
            tables[rv] = None
    targets = list(targets)
    for t in targets:
        if t not in variables:
            raise Malformed("target-is-not-a-variable", t)
    acc = dict((t, dict((v, Fraction(0)) for v in values[t])) for t in targets)
    total = [Fraction(0)]
    leaves = [0]
    assign = {}
    checked_rows = set()
    n = len(order)

    def dist(rv):
        f = by_rv[rv]
        if f["kind"] == "or":
            on = False
            for p, v in f["parentvalues"]:
                if assign[p] == _val(v):
                    on = True
                    break
            one = Fraction(1)
            zero = Fraction(0)
            return [(val, one if (val == 1) == on else zero) for val in values[rv]]
        ps, t = tables[rv]
        key = tuple(assign[p] for p in ps)
        row = t.get(key)
        if row is None:
            raise Malformed("missing-cpt-row", "%s: no row for parents %r = %r" % (rv, ps, key))
        if (rv, key) not in checked_rows:
            checked_rows.add((rv, key))
            s = sum(row)
            if any(x < -row_tol or x > 1 + row_tol for x in row) or abs(s - 1) > row_tol:
                raise Malformed("cpt-row-not-a-distribution", "%s | %r = %r: %r" % (
                    rv, ps, key, [float(x) for x in row]))
        return list(zip(values[rv], row))

    def rec(i, w):
        if i == n:
            leaves[0] += 1
            if leaves[0] > max_leaves:
                raise TooLarge("more than %d joint states" % max_leaves)
            total[0] += w
            for t in targets:
                acc[t][assign[t]] += w
            return
        rv = order[i]
        for val, p in dist(rv):
            if p == 0:
                continue
            assign[rv] = val
            rec(i + 1, w * p)
        assign.pop(rv, None)

    rec(0, Fraction(1))
    return acc, total[0], leaves[0]
