"""Reference Boolean semantics of and-or node tables, for C11.  No import of problog.

Keys (literals) follow the convention documented on problog.formula.BaseFormula:
    None = false, 0 = true, k > 0 = node k (1-based index into the table), -k = negation of node k.

A *table* is a list of nodes, node k stored at table[k - 1]:
    ("atom", var)       var = index of the Boolean variable (0 <= var < nvars), or None for an atom that is not
                        one of the case's atoms (such a node evaluates to false and is listed in `foreign`)
    ("conj", children)  children = tuple of literals
    ("disj", children)

Truth tables are Python ints used as bitmasks over the 2**nvars worlds: bit w of the table of a function is
the function's value in world w, and variable v is true in world w iff bit v of w is set.

Meaning of a table: a node may depend on itself through *positive* edges only (mutable disjunctions closed
into cycles).  The meaning is the least fixpoint (a node on a cycle is true iff it has a finite proof), computed
per strongly connected component in dependency order; a cycle through a negative edge has no meaning here and
raises NegativeCycle.

Two independent implementations are provided:
  * evaluate()  - bitmask evaluation, Tarjan SCCs + Kleene iteration inside cyclic components
  * holds()     - one world at a time, proof search with an ancestor (loop) check, no SCCs, no bitmasks
`Model` is the naive builder (no folding, no sharing, no collapsing) that records what a call sequence
describes.
"""


class NegativeCycle(Exception):
    pass


class DanglingKey(Exception):
    pass


def full_mask(nvars):
    return (1 << (1 << nvars)) - 1


def var_mask(v, nvars):
    """Truth table of variable v: worlds whose bit v is set."""
    m = 0
    for w in range(1 << nvars):
        if (w >> v) & 1:
            m |= 1 << w
    return m


_VAR_CACHE = {}


def _var_masks(nvars):
    r = _VAR_CACHE.get(nvars)
    if r is None:
        r = [var_mask(v, nvars) for v in range(nvars)]
        _VAR_CACHE[nvars] = r
    return r


def lit_value(val, lit, full):
    """Truth table of a literal given the node values `val` (val[k] for node k, as returned by evaluate)."""
    if lit is None:
        return 0
    if lit == 0:
        return full
    k = lit if lit > 0 else -lit
    if k >= len(val):
        raise DanglingKey("literal %r points outside a table of %d nodes" % (lit, len(val) - 1))
    return val[k] if lit > 0 else full ^ val[k]


def _edges(node, n):
    """Child node indices with sign of a compound node: list of (index, positive)."""
    out = []
    if node[0] == "atom":
        return out
    for c in node[1]:
        if c is None or c == 0:
            continue
        k = c if c > 0 else -c
        if k > n:
            raise DanglingKey("child %r points outside a table of %d nodes" % (c, n))
        out.append((k, c > 0))
    return out


def sccs(table):
    """Tarjan.  Returns the list of components (lists of node indices, 1-based) in dependency order
    (every component after the components it depends on)."""
    n = len(table)
    index = [0] * (n + 1)
    low = [0] * (n + 1)
    onstack = [False] * (n + 1)
    stack = []
    out = []
    counter = [1]
    succ = [None] + [[k for k, _ in _edges(table[i], n)] for i in range(n)]
    for root in range(1, n + 1):
        if index[root]:
            continue
        # iterative DFS
        work = [(root, 0)]
        index[root] = low[root] = counter[0]
        counter[0] += 1
        stack.append(root)
        onstack[root] = True
        while work:
            v, i = work[-1]
            if i < len(succ[v]):
                work[-1] = (v, i + 1)
                w = succ[v][i]
                if not index[w]:
                    index[w] = low[w] = counter[0]
                    counter[0] += 1
                    stack.append(w)
                    onstack[w] = True
                    work.append((w, 0))
                elif onstack[w]:
                    if index[w] < low[v]:
                        low[v] = index[w]
            else:
                work.pop()
                if work:
                    u = work[-1][0]
                    if low[v] < low[u]:
                        low[u] = low[v]
                if low[v] == index[v]:
                    comp = []
                    while True:
                        w = stack.pop()
                        onstack[w] = False
                        comp.append(w)
                        if w == v:
                            break
                    out.append(comp)
    return out


def evaluate(table, nvars):
    """Truth tables of all nodes.  Returns (val, info): val[0] = full mask (TRUE), val[k] = table of node k;
    info = {"cyclic": number of cyclic components, "foreign": [atom nodes with var None]}."""
    n = len(table)
    full = full_mask(nvars)
    vm = _var_masks(nvars)
    val = [0] * (n + 1)
    val[0] = full
    foreign = []
    cyclic = 0
    for comp in sccs(table):
        if len(comp) == 1:
            k = comp[0]
            node = table[k - 1]
            if node[0] == "atom":
                if node[1] is None:
                    foreign.append(k)
                    val[k] = 0
                else:
                    val[k] = vm[node[1]]
                continue
            selfloop = False
            for c, pos in _edges(node, n):
                if c == k:
                    selfloop = True
                    if not pos:
                        raise NegativeCycle("node %d depends negatively on itself" % k)
            if not selfloop:
                val[k] = _node_value(node, val, full)
                continue
        # cyclic component: all edges inside must be positive; Kleene iteration from false
        cyclic += 1
        inside = set(comp)
        for k in comp:
            for c, pos in _edges(table[k - 1], n):
                if c in inside and not pos:
                    raise NegativeCycle("nodes %r form a cycle through the negative edge %d -> -%d"
                                        % (sorted(comp), k, c))
        for k in comp:
            val[k] = 0
        changed = True
        while changed:
            changed = False
            for k in comp:
                v = _node_value(table[k - 1], val, full)
                if v != val[k]:
                    val[k] = v
                    changed = True
    return val, {"cyclic": cyclic, "foreign": foreign}


def _node_value(node, val, full):
    kind = node[0]
    if kind == "conj":
        v = full
        for c in node[1]:
            if c is None:
                return 0
            if c == 0:
                continue
            v &= val[c] if c > 0 else full ^ val[-c]
        return v
    elif kind == "disj":
        v = 0
        for c in node[1]:
            if c is None:
                continue
            if c == 0:
                return full
            v |= val[c] if c > 0 else full ^ val[-c]
        return v
    raise ValueError("not a compound node: %r" % (node,))


# ------------------------------------------------------------------------------------ independent prover


class ProofBudget(Exception):
    pass


def holds(table, lit, world, budget=None):
    """Value of a literal in one world (int, bit v = value of variable v): finite-proof semantics by
    depth-first proof search; a node met again on the current branch fails (loop check).  Independent of
    evaluate().  `budget` = [remaining steps] or None; raises ProofBudget when exhausted."""
    return _holds(table, lit, world, frozenset(), budget, 0)


def _holds(table, lit, world, anc, budget, depth):
    if lit is None:
        return False
    if lit == 0:
        return True
    if budget is not None:
        budget[0] -= 1
        if budget[0] < 0:
            raise ProofBudget()
    if depth > 400:
        raise NegativeCycle("proof search did not terminate (cycle through negation?)")
    if lit < 0:
        # no cycle passes through a negation, so the ancestors are irrelevant below it
        return not _holds(table, -lit, world, frozenset(), budget, depth + 1)
    if lit in anc:
        return False
    node = table[lit - 1]
    if node[0] == "atom":
        return node[1] is not None and bool((world >> node[1]) & 1)
    anc2 = anc | {lit}
    if node[0] == "conj":
        for c in node[1]:
            if not _holds(table, c, world, anc2, budget, depth + 1):
                return False
        return True
    for c in node[1]:
        if _holds(table, c, world, anc2, budget, depth + 1):
            return True
    return False


def truth_table_by_proof(table, lit, nvars, budget=None):
    m = 0
    for w in range(1 << nvars):
        if holds(table, lit, w, budget):
            m |= 1 << w
    return m


# ------------------------------------------------------------------------------------ naive builder (model)


class Model(object):
    """What a call sequence *describes*: a node table built without any simplification.  Every call creates
    a fresh node; constants stay as children; nothing is shared."""

    def __init__(self, nvars):
        self.nvars = nvars
        self.table = []
        self.mutable = set()

    def _new(self, node):
        self.table.append(node)
        return len(self.table)

    def atom(self, var):
        return self._new(("atom", var))

    def conj(self, children):
        return self._new(("conj", tuple(children)))

    def disj(self, children, mutable=False):
        k = self._new(("disj", tuple(children)))
        if mutable:
            self.mutable.add(k)
        return k

    @staticmethod
    def negate(lit):
        if lit is None:
            return 0
        if lit == 0:
            return None
        return -lit

    def extend(self, k, child):
        """Add a disjunct to the mutable disjunction k.  Returns False (and leaves the table unchanged) when
        that would close a cycle through a negation."""
        assert k in self.mutable
        old = self.table[k - 1]
        self.table[k - 1] = ("disj", old[1] + (child,))
        try:
            sccs_check_negative(self.table)
        except NegativeCycle:
            self.table[k - 1] = old
            return False
        return True

    def reach(self, lit):
        """Set of node indices a literal depends on (including its own node)."""
        if lit is None or lit == 0:
            return set()
        seen = set()
        todo = [abs(lit)]
        n = len(self.table)
        while todo:
            k = todo.pop()
            if k in seen:
                continue
            seen.add(k)
            for c, _ in _edges(self.table[k - 1], n):
                if c not in seen:
                    todo.append(c)
        return seen

    def evaluate(self):
        return evaluate(self.table, self.nvars)


def sccs_check_negative(table):
    """Raise NegativeCycle if some cycle of the table passes through a negative edge."""
    n = len(table)
    for comp in sccs(table):
        inside = set(comp)
        for k in comp:
            for c, pos in _edges(table[k - 1], n):
                if not pos and c in inside:
                    raise NegativeCycle("cycle through -%d" % c)


# ------------------------------------------------------------------------------------ self test


def self_test():
    """Fixed examples with hand-computed truth tables + agreement of the two implementations."""
    n = 2
    full = full_mask(n)
    a, b = var_mask(0, n), var_mask(1, n)
    assert (a, b, full) == (0b1010, 0b1100, 0b1111)
    # 1:a 2:b 3:and(a,-b) 4:or(3,b) 5:or(5,3) [positive self loop] 6:or(7,a) 7:and(6,b) [cycle 6<->7] 8:or()
    t = [("atom", 0), ("atom", 1), ("conj", (1, -2)), ("disj", (3, 2)), ("disj", (5, 3)), ("disj", (7, 1)),
         ("conj", (6, 2)), ("disj", ()), ("conj", ()), ("disj", (None, 0)), ("conj", (0, None))]
    val, info = evaluate(t, n)
    exp = [full, a, b, a & ~b & full, (a & ~b | b) & full, a & ~b & full, a, a & b, 0, full, full, 0]
    assert val == exp, (val, exp)
    assert info["cyclic"] == 2
    for k in range(1, len(t) + 1):
        assert truth_table_by_proof(t, k, n) == val[k], k
        assert truth_table_by_proof(t, -k, n) == full ^ val[k], k
    for bad in ([("disj", (-1,))], [("disj", (2,)), ("conj", (-1,))]):
        try:
            evaluate(bad, n)
        except NegativeCycle:
            pass
        else:
            raise AssertionError("negative cycle not detected")
    m = Model(2)
    x = m.atom(0)
    d = m.disj([], mutable=True)
    c = m.conj([d, x])
    nd = m.conj([-d])
    assert m.extend(d, c) and not m.extend(d, nd) and m.extend(d, x)
    v, _ = m.evaluate()
    assert v[d] == a and v[c] == a and v[nd] == full ^ a
    return True


if __name__ == "__main__":
    print(self_test())
