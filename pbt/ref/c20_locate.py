"""Statement index of every probabilistic fact / annotated disjunction of a rendered program, as ProbLog numbers
them (C20, C23).  pbt.ref.semantics.render_program writes one statement per line, so the line of a clause-database
node's source location is the index of its statement in the program AST.  This is harness-side bookkeeping that lets
the oracle tell apart two statements with identical heads and probabilities (their bodies differ); it imports
problog only to compile the program text into a ClauseDB (no inference)."""


def statement_map(src):
    """{('f', db node id): statement index, ('g', str(group id)): statement index}"""
    from problog.engine import DefaultEngine
    from problog.program import PrologString

    db = DefaultEngine().prepare(PrologString(src))
    out = {}
    for i in range(len(db)):
        try:
            n = db.get_node(i)
        except Exception:
            continue
        loc = getattr(n, "location", None)
        if not isinstance(loc, tuple) or len(loc) != 2 or loc[0] != 0 or loc[1] is None:
            continue
        kind = type(n).__name__
        line = src.count("\n", 0, loc[1])
        if kind == "fact" and getattr(n, "probability", None) is not None:
            out[("f", i)] = line
        elif kind == "choice":
            out[("g", str(n.group))] = line
    return out
