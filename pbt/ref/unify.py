"""Reference syntactic unification (Robinson, with occurs check) over JSON-native first-order terms.

No import of problog.  Used by the C14 / C18 checks as the oracle.

Term (JSON-native, lists or tuples are both accepted):
    ["v", name]                    variable (name: str or int)
    ["a", text]                    atom; text is the atom's *name* (no quotes): "a", "q a", "[]", "1"
    ["i", int]  ["f", float]       numbers
    ["s", text]                    double-quoted string
    ["c", functor, [arg, ...]]     compound, functor is an atom name, at least one argument
    ["l", [elem, ...], tail|None]  list sugar for '.'(elem, '.'( ... tail)); tail None means []

Standard Prolog identity of constants: two constants are identical iff they have the same kind and the same
value (so 1, 1.0, '1' and "1" are four different constants, and the atoms a and 'a' are the same atom).
`const_key` lets a caller ask "what if constants were identified differently" (used to classify a deviation).

Internal form ("norm"): hashable nested tuples
    ("v", name) | ("k", kind, value) | ("c", functor, (arg, ...))
"""

NIL = ("k", "a", "[]")


# ------------------------------------------------------------------------------------------------ normal form

def norm(t):
    """JSON term -> hashable internal term (lists desugared)."""
    tag = t[0]
    if tag == "v":
        return ("v", t[1])
    if tag in ("a", "i", "s"):
        return ("k", tag, t[1])
    if tag == "f":
        return ("k", "f", float(t[1]))
    if tag == "c":
        if not t[2]:
            return ("k", "a", t[1])
        return ("c", t[1], tuple(norm(x) for x in t[2]))
    if tag == "l":
        tail = NIL if t[2] is None else norm(t[2])
        for e in reversed(t[1]):
            tail = ("c", ".", (norm(e), tail))
        return tail
    if tag == "k":
        return tuple(t)
    raise ValueError("not a term: %r" % (t,))


def denorm(t):
    """Internal term -> JSON term (lists re-sugared)."""
    if t[0] == "v":
        return ["v", t[1]]
    if t[0] == "k":
        return [t[1], t[2]]
    if t[1] == "." and len(t[2]) == 2:
        elems = []
        while t[0] == "c" and t[1] == "." and len(t[2]) == 2:
            elems.append(denorm(t[2][0]))
            t = t[2][1]
        return ["l", elems, None if t == NIL else denorm(t)]
    return ["c", t[1], [denorm(x) for x in t[2]]]


def variables(t, acc=None):
    """Variables of an internal term in order of first occurrence."""
    if acc is None:
        acc = []
    stack = [t]
    while stack:
        x = stack.pop()
        if x[0] == "v":
            if x not in acc:
                acc.append(x)
        elif x[0] == "c":
            stack.extend(reversed(x[2]))
    return acc


def size(t):
    """Number of symbols (variables, constants, functors)."""
    n = 0
    stack = [t]
    while stack:
        x = stack.pop()
        n += 1
        if x[0] == "c":
            stack.extend(x[2])
    return n


def depth(t):
    if t[0] != "c":
        return 1
    return 1 + max(depth(x) for x in t[2])


def rename(t, mapping):
    """Replace variables by mapping(var name) -> new name (function or dict)."""
    if t[0] == "v":
        f = mapping(t[1]) if callable(mapping) else mapping.get(t[1], t[1])
        return ("v", f)
    if t[0] == "c":
        return ("c", t[1], tuple(rename(x, mapping) for x in t[2]))
    return t


# ------------------------------------------------------------------------------------------------ Robinson

def std_key(k):
    """Standard Prolog identity of a constant ("k", kind, value)."""
    return (k[1], k[2])


def text_key(k):
    """Identity 'by printed text without quotes': conflates 1 with '1', 1.0 with '1.0' (but not 1 with 1.0)."""
    if k[1] == "s":
        return '"%s"' % k[2]
    if k[1] == "f":
        return repr(float(k[2]))
    return str(k[2])


def _walk(t, s):
    while t[0] == "v" and t in s:
        t = s[t]
    return t


def _occurs(v, t, s):
    stack = [t]
    while stack:
        x = _walk(stack.pop(), s)
        if x == v:
            return True
        if x[0] == "c":
            stack.extend(x[2])
    return False


def robinson(t1, t2, const_key=std_key):
    """Most general unifier with occurs check.

    Returns a triangular substitution {var: term} (apply with `resolve`) or None when there is no finite
    unifier.  Left-to-right, depth-first."""
    s = {}
    stack = [(t1, t2)]
    while stack:
        a, b = stack.pop()
        a = _walk(a, s)
        b = _walk(b, s)
        if a == b:
            continue
        if a[0] == "v":
            if _occurs(a, b, s):
                return None
            s[a] = b
        elif b[0] == "v":
            if _occurs(b, a, s):
                return None
            s[b] = a
        elif a[0] == "k" and b[0] == "k":
            if const_key(a) != const_key(b):
                return None
        elif a[0] == "c" and b[0] == "c":
            if a[1] != b[1] or len(a[2]) != len(b[2]):
                return None
            stack.extend(reversed(list(zip(a[2], b[2]))))
        else:
            return None
    return s


def resolve(t, s):
    """Apply a triangular substitution exhaustively (the substitution must be acyclic)."""
    t = _walk(t, s)
    if t[0] == "c":
        return ("c", t[1], tuple(resolve(x, s) for x in t[2]))
    return t


def chain_depth(s):
    """Length of the longest dependency chain in a triangular substitution: 1 when no binding mentions a bound
    variable (a single pass of substitution suffices), >= 2 when bindings must be dereferenced through each
    other (X -> f(Y), Y -> a)."""
    memo = {}

    def d(v):
        if v in memo:
            return memo[v]
        memo[v] = 0  # acyclic by construction; guard anyway
        best = 0
        for w in variables(s[v]):
            if w in s:
                best = max(best, d(w))
        memo[v] = best + 1
        return best + 1

    return max([d(v) for v in s] or [0])


# ------------------------------------------------------------------------------------------------ rational trees

class _Classes(object):
    """Union-find over terms; every class keeps its non-variable members."""

    def __init__(self):
        self.parent = {}
        self.members = {}

    def find(self, x):
        p = self.parent
        root = x
        while root in p:
            root = p[root]
        while x in p:
            p[x], x = root, p[x]
        return root

    def nonvars(self, root):
        if root in self.members:
            return self.members[root]
        return [] if root[0] == "v" else [root]

    def union(self, a, b):
        ms = self.nonvars(a) + [m for m in self.nonvars(b) if m not in self.nonvars(a)]
        self.parent[a] = b
        self.members.pop(a, None)
        self.members[b] = ms


def classify(t1, t2, const_key=std_key):
    """Classify a unification problem.

    'mgu'          a finite most general unifier exists
    'clash'        no unifier, and no order of solving the equations meets an occurs-check situation
    'cyclic'       unifiable only with a cyclic binding (the occurs-check case)
    'clash+cyclic' no unifier even over rational trees (symbol clash), but the equations also force a cyclic
                   binding: an implementation may meet the occurs check before it meets the clash (the pair is
                   "subject to occurs check" in the sense of ISO Prolog)

    Independent of `robinson`: congruence closure by union-find.  Classes are merged even when their
    non-variable members clash (the clash is recorded and the arguments of every compatible pair of members are
    still equated), which makes the result independent of the order in which equations are solved."""
    uf = _Classes()
    clash = False
    stack = [(t1, t2)]
    while stack:
        a, b = stack.pop()
        a = uf.find(a)
        b = uf.find(b)
        if a == b:
            continue
        for ma in uf.nonvars(a):
            for mb in uf.nonvars(b):
                if ma[0] == "k" and mb[0] == "k":
                    if const_key(ma) != const_key(mb):
                        clash = True
                elif ma[0] == "c" and mb[0] == "c" and ma[1] == mb[1] and len(ma[2]) == len(mb[2]):
                    stack.extend(zip(ma[2], mb[2]))
                else:
                    clash = True
        uf.union(a, b)
    # cycle detection on the quotient graph
    WHITE, GREY, BLACK = 0, 1, 2
    colour = {}

    def cyclic_from(node):
        node = uf.find(node)
        c = colour.get(node, WHITE)
        if c == GREY:
            return True
        if c == BLACK:
            return False
        colour[node] = GREY
        for m in uf.nonvars(node):
            if m[0] == "c":
                for x in m[2]:
                    if cyclic_from(x):
                        return True
        colour[node] = BLACK
        return False

    cyc = cyclic_from(t1) or cyclic_from(t2)
    if clash:
        return "clash+cyclic" if cyc else "clash"
    return "cyclic" if cyc else "mgu"


class Problem(object):
    """Result of the reference unifier for one pair: .status as in `classify`, .mgu (triangular dict) when
    status == 'mgu'."""

    def __init__(self, t1, t2, const_key=std_key):
        self.t1 = t1
        self.t2 = t2
        self.mgu = robinson(t1, t2, const_key)
        self.status = classify(t1, t2, const_key)
        if (self.mgu is not None) != (self.status == "mgu"):
            raise AssertionError("reference unifiers disagree on %r / %r: robinson=%r classify=%r"
                                 % (t1, t2, self.mgu, self.status))

    def instance(self, t):
        return resolve(t, self.mgu)

    @property
    def chain_depth(self):
        return chain_depth(self.mgu) if self.mgu is not None else 0


# ------------------------------------------------------------------------------------------------ variants

def variant(ts1, ts2, const_key=std_key):
    """True iff the tuples of terms are equal up to a consistent (bijective) renaming of variables."""
    if len(ts1) != len(ts2):
        return False
    fwd, bwd = {}, {}
    stack = list(zip(ts1, ts2))
    while stack:
        a, b = stack.pop()
        if a[0] != b[0]:
            return False
        if a[0] == "v":
            if fwd.setdefault(a, b) != b or bwd.setdefault(b, a) != a:
                return False
        elif a[0] == "k":
            if const_key(a) != const_key(b):
                return False
        else:
            if a[1] != b[1] or len(a[2]) != len(b[2]):
                return False
            stack.extend(zip(a[2], b[2]))
    return True


# ------------------------------------------------------------------------------------------------ rendering

def _atom_text(name):
    if name == "[]":
        return "[]"
    if name and name[0].islower() and all(ch.isalnum() or ch == "_" for ch in name):
        return name
    return "'%s'" % name


def render(t, varname=None):
    """Prolog text of an internal or JSON term.  varname: function var name -> text (default: V<name>)."""
    if isinstance(t, list) or t[0] in ("a", "i", "f", "s", "l"):
        t = norm(t)
    if varname is None:
        varname = lambda n: n if isinstance(n, str) else "V%s" % n
    if t[0] == "v":
        return varname(t[1])
    if t[0] == "k":
        kind, val = t[1], t[2]
        if kind == "a":
            return _atom_text(val)
        if kind == "i":
            return str(val)
        if kind == "f":
            return repr(float(val))
        if kind == "s":
            return '"%s"' % val
        raise ValueError(t)
    if t[1] == "." and len(t[2]) == 2:
        elems = []
        while t[0] == "c" and t[1] == "." and len(t[2]) == 2:
            elems.append(render(t[2][0], varname))
            t = t[2][1]
        if t == NIL:
            return "[%s]" % ",".join(elems)
        return "[%s|%s]" % (",".join(elems), render(t, varname))
    return "%s(%s)" % (_atom_text(t[1]), ",".join(render(x, varname) for x in t[2]))
