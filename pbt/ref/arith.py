"""Reference semantics for property C16 (no import of problog).

Part 1 - arithmetic.  `evaluate(expr)` returns a `Spec`: the SET of admissible results of evaluating an
arithmetic expression the way SWI-Prolog 9 (flags iso=false, prefer_rationals=false, float flags at their
defaults) and Yap 6 document it.  Where the two systems agree the set has one element; where they differ
(or where I could not pin one of them down) every candidate is admitted; where nothing can be said the
Spec is `unchecked` (then only "no raw Python exception, no non-number result" is asserted by the check).

Expressions are JSON values:
    ["int", n] | ["flt", x] | ["const", "pi"|"e"|"epsilon"|"inf"|"nan"] | ["var"] | ["atom", name]
    | ["str", s] | ["call", functor, arg, ...]

A Spec has
    values    : list of admissible numbers; the Python type (int/float) is the Prolog type
    error     : an evaluation/type/instantiation error is admissible
    nonfinite : an IEEE inf/nan of unspecified sign is admissible (Yap hands back C's result where SWI raises)
    unchecked : reason string or None
    tags      : why an error is admissible ('zero-div', 'float-overflow', 'domain', 'int-required', 'unbound',
                'not-evaluable', 'complex-domain'); used to classify failures by root cause

Sources: SWI-Prolog manual section 4.27 (arithmetic), ISO 13211-1 section 9, Yap 6 manual section 6.7.
Decisions where the systems differ (all candidates admitted):
    integer/1 on floats        SWI rounds, Yap truncates
    round/1 on exact halves    SWI: away from zero (llround); Yap manual: to even (rint); ISO: floor(X+1/2)
    / on two integers          SWI: integer when exact (iso=false) else float; Yap: float
    ** ^ exp/2 on two integers SWI: integer (error for a negative exponent unless base is 1/-1); Yap: float
    sign/1, float_integer_part/1, float_fractional_part/1, min/max of numerically equal mixed arguments:
                               value certain, type not: both typed variants admitted
    mod / div with a NEGATIVE divisor: ISO/SWI result (sign of the divisor) and the 'always positive' residue the
                               Yap manual describes
    float overflow, zero division with a float operand, log/sqrt/acos... outside their domain:
                               SWI raises; Yap may return inf/nan: `error` and `nonfinite` admitted
    atan(0,0)                  error (ISO/SWI) or 0/pi/-pi (C)
`rem` is evaluated as `mod`: docs/source/prolog.rst states "X rem Y (currently same as mod)".

Part 2 - term inspection builtins (between/3, succ/2, plus/3, length/2, functor/3, arg/3, =../2,
atom_number/2, type tests): `solve(pred, args)` returns the exact ISO solution set shared by SWI and Yap.
"""
import itertools
import math
import re
from fractions import Fraction

MAX_BITS = 4096  # integers larger than this are not evaluated (TooBig): keeps every case cheap
MAX_COMBOS = 128


class TooBig(Exception):
    """The expression would build an integer of more than MAX_BITS bits."""


CONSTANTS = {
    "pi": math.pi,
    "e": math.e,
    "epsilon": 2.220446049250313e-16,
    "inf": float("inf"),
    "nan": float("nan"),
}


def is_int(x):
    return type(x) is int


def is_float(x):
    return type(x) is float


def finite(x):
    return is_int(x) or (not math.isinf(x) and not math.isnan(x))


class Spec(object):
    def __init__(self, values=(), error=False, nonfinite=False, unchecked=None, tags=()):
        self.values = list(values)
        self.error = error
        self.nonfinite = nonfinite
        self.unchecked = unchecked
        self.tags = set(tags)

    def merge(self, other):
        for v in other.values:
            add_value(self.values, v)
        self.error = self.error or other.error
        self.nonfinite = self.nonfinite or other.nonfinite
        if other.unchecked and not self.unchecked:
            self.unchecked = other.unchecked
        self.tags |= other.tags

    def describe(self):
        if self.unchecked:
            return "unchecked(%s)" % self.unchecked
        parts = [_show(v) for v in self.values]
        if self.error:
            parts.append("error[%s]" % ",".join(sorted(self.tags)))
        if self.nonfinite:
            parts.append("inf/nan")
        return "{" + ", ".join(parts) + "}"

    def only_error(self):
        return not self.unchecked and not self.values and self.error


def _show(v):
    return ("%d" % v) if is_int(v) else ("%r:float" % v)


def same_value(a, b):
    """Identity of typed values inside an admissible set."""
    if type(a) is not type(b):
        return False
    if is_float(a) and math.isnan(a) and math.isnan(b):
        return True
    return a == b


def add_value(lst, v):
    for w in lst:
        if same_value(v, w):
            return
    lst.append(v)


def err(tag):
    return Spec(error=True, tags=[tag])


def unchecked(reason):
    return Spec(unchecked=reason)


def _tofloat(x):
    """float(x) the way C does for an int operand; OverflowError when out of range."""
    return float(x)


def _check_size(n):
    if is_int(n) and n.bit_length() > MAX_BITS:
        raise TooBig()
    return n


# --------------------------------------------------------------------------------------------- functions


def _float_result(v):
    """A float computed from finite operands: SWI raises when it is inf/nan (float_overflow/undefined=error),
    Yap returns it."""
    if math.isinf(v) or math.isnan(v):
        return Spec(values=[v], error=True, nonfinite=True, tags=["float-overflow"])
    return Spec(values=[v])


def _arith2(op_int, op_float):
    def fn(a, b):
        if is_int(a) and is_int(b):
            return Spec(values=[_check_size(op_int(a, b))])
        try:
            fa, fb = _tofloat(a), _tofloat(b)
        except OverflowError:
            return Spec(error=True, nonfinite=True, tags=["float-overflow"])
        return _float_result(op_float(fa, fb))

    return fn


def _div(a, b):
    if is_int(a) and is_int(b):
        if b == 0:
            return err("zero-div")
        s = Spec()
        if a % b == 0:
            s.values.append(a // b)  # SWI iso=false: exact integer result
        try:
            s.merge(_float_result(_tofloat(a) / _tofloat(b)))  # Yap, SWI when inexact (and iso=true)
            # beyond 2^53 the operands are not representable: the correctly rounded quotient of the integers (GMP
            # based systems, Python) can differ from float(a)/float(b) in the last bit; both are admitted
            s.merge(_float_result(a / b))
        except OverflowError:
            s.merge(Spec(error=True, nonfinite=True, tags=["float-overflow"]))
        except ZeroDivisionError:  # cannot happen (b != 0 and float(b) != 0)
            s.merge(err("zero-div"))
        return s
    try:
        fa, fb = _tofloat(a), _tofloat(b)
    except OverflowError:
        return Spec(error=True, nonfinite=True, tags=["float-overflow"])
    if fb == 0.0:
        return Spec(error=True, nonfinite=True, tags=["zero-div"])  # SWI: error; Yap: inf/nan
    return _float_result(fa / fb)


def _int_only(fn):
    """Functions defined on integers only: a float operand is a type_error(integer, _) in SWI and Yap.
    ProbLog being lenient there (Python defines 2.5 // 2) is not a value either system gives, and the statement
    only talks about values they give: left unchecked, except that no raw exception may escape."""

    def wrapped(*args):
        for a in args:
            if not is_int(a):
                s = Spec(error=True, unchecked="integer-only function applied to a float", tags=["int-required"])
                return s
        return fn(*args)

    return wrapped


def _trunc_div(a, b):
    q = abs(a) // abs(b)
    return q if (a >= 0) == (b >= 0) else -q


@_int_only
def _intdiv(a, b):
    if b == 0:
        return err("zero-div")
    return Spec(values=[_trunc_div(a, b)])  # ISO default toward_zero; SWI and Yap truncate


@_int_only
def _mod(a, b):
    if b == 0:
        return err("zero-div")
    s = Spec(values=[a % b])  # sign follows the divisor (ISO, SWI)
    if b < 0:
        add_value(s.values, a % (-b))  # Yap manual: "always positive"
    return s


@_int_only
def _divfloor(a, b):
    if b == 0:
        return err("zero-div")
    s = Spec(values=[a // b])
    if b < 0:
        add_value(s.values, _trunc_div(a - (a % (-b)), b))  # Yap manual: (X - X mod Y) // Y with its mod
    return s


def _bit(op):
    @_int_only
    def fn(a, b):
        return Spec(values=[op(a, b)])

    return fn


@_int_only
def _shl(a, s):
    if s < 0:
        return unchecked("negative shift count (implementation defined)")
    if s > MAX_BITS:
        raise TooBig()
    return Spec(values=[_check_size(a << s)])


@_int_only
def _shr(a, s):
    if s < 0:
        return unchecked("negative shift count (implementation defined)")
    return Spec(values=[a >> s])  # arithmetic shift


@_int_only
def _bitnot(a):
    return Spec(values=[~a])


def _neg(a):
    return Spec(values=[-a])


def _pos(a):
    return Spec(values=[a])


def _abs(a):
    return Spec(values=[abs(a)])


def _sign(a):
    s = (a > 0) - (a < 0)
    if is_int(a):
        return Spec(values=[s])
    return Spec(values=[float(s), s])  # SWI: same type as the argument; type in Yap not pinned down


def _minmax(pick_max):
    def fn(a, b):
        # numeric comparison; exact and via-float comparison can differ for huge integers: admit both then
        cands = []
        orders = [_cmp_exact(a, b)]
        fo = _cmp_float(a, b)
        if fo is not None:
            orders.append(fo)
        for o in orders:
            if o == 0:
                cands.extend([a, b])
            elif (o > 0) == pick_max:
                cands.append(a)
            else:
                cands.append(b)
        s = Spec()
        for c in cands:
            add_value(s.values, c)
        return s

    return fn


def _cmp_exact(a, b):
    return (a > b) - (a < b)


def _cmp_float(a, b):
    """Comparison after converting an int operand to float (what a system without exact mixed comparison
    does); None when that is the same thing as the exact comparison."""
    if type(a) is type(b):
        return None
    try:
        fa, fb = float(a), float(b)
    except OverflowError:
        return None
    return (fa > fb) - (fa < fb)


def _round_half_away(x):
    q = Fraction(x)
    r = math.floor(abs(q) + Fraction(1, 2))
    return r if q >= 0 else -r


def _to_int(fn):
    def wrapped(a):
        if is_int(a):
            return Spec(values=[a])
        return Spec(values=[_check_size(fn(a))])

    return wrapped


def _round(a):
    """SWI: llround(), half away from zero.  Yap 6 manual: "If X is equidistant to two integers, it will be rounded
    to the closest even integral value" (rint).  ISO: floor(X + 1/2).  All three agree except on exact halves,
    where each candidate is admitted."""
    if is_int(a):
        return Spec(values=[a])
    s = Spec(values=[_check_size(_round_half_away(a))])
    q = Fraction(a)
    add_value(s.values, math.floor(q + Fraction(1, 2)))  # ISO
    fl = math.floor(q)
    if q - fl == Fraction(1, 2):
        add_value(s.values, fl if fl % 2 == 0 else fl + 1)  # Yap: half to even
    return s


def _integer(a):
    if is_int(a):
        return Spec(values=[a])
    s = _round(a)  # SWI: rounds
    add_value(s.values, math.trunc(a))  # Yap: truncates
    return s


def _float(a):
    try:
        return Spec(values=[_tofloat(a)])
    except OverflowError:
        return Spec(error=True, nonfinite=True, tags=["float-overflow"])


def _fip(a):
    if is_int(a):
        try:
            return Spec(values=[a, float(a)])
        except OverflowError:
            return Spec(values=[a], error=True, tags=["float-overflow"])
    t = math.trunc(a)
    return Spec(values=[float(t), t])


def _ffp(a):
    if is_int(a):
        return Spec(values=[0, 0.0])
    return Spec(values=[a - math.trunc(a)])


def _math1(pyfn):
    def fn(a):
        try:
            fa = _tofloat(a)
        except OverflowError:
            return Spec(error=True, nonfinite=True, unchecked="integer beyond the float range", tags=["float-overflow"])
        try:
            v = pyfn(fa)
        except ValueError:
            return Spec(error=True, nonfinite=True, tags=["domain"])  # SWI: evaluation_error(undefined); C: nan/inf
        except OverflowError:
            return Spec(error=True, nonfinite=True, tags=["float-overflow"])
        return _float_result(v)

    return fn


def _atan2(y, x):
    try:
        fy, fx = _tofloat(y), _tofloat(x)
    except OverflowError:
        return Spec(error=True, nonfinite=True, tags=["float-overflow"])
    if fy == 0.0:
        # the sign of a zero decides between 0/pi/-pi and a zero's sign is not tracked across systems
        if fx == 0.0:
            return Spec(values=[0.0, math.pi, -math.pi], error=True, tags=["domain"])
        if fx < 0:
            return Spec(values=[math.pi, -math.pi])
        return Spec(values=[0.0])
    return Spec(values=[math.atan2(fy, fx)])


def _pow(a, b):
    if is_int(a) and is_int(b):
        if b >= 0:
            if abs(a) > 1 and b * a.bit_length() > MAX_BITS:
                raise TooBig()
            v = a ** b
            s = Spec(values=[v])  # SWI: integer
            try:
                add_value(s.values, float(v))  # Yap: float
                add_value(s.values, math.pow(float(a), float(b)))  # ... computed by C pow() on converted operands
            except OverflowError:
                s.error = True
                s.nonfinite = True
                s.tags.add("float-overflow")
            return s
        if a == 0:
            return Spec(error=True, nonfinite=True, tags=["zero-div"])
        if a in (1, -1):
            v = a ** (-b)  # = 1/a**(-b) exactly
            s = Spec(values=[v, float(v)])
            try:
                # Yap: C pow() on converted operands; a huge odd exponent becomes an even float
                add_value(s.values, math.pow(float(a), float(b)))
            except OverflowError:
                s.error = True
                s.tags.add("float-overflow")
            return s
        # SWI (prefer_rationals=false): error for ^ ; ** gives a float; Yap: float
        try:
            return Spec(values=[math.pow(float(a), float(b))], error=True, tags=["int-pow-negative"])
        except OverflowError:
            return Spec(error=True, nonfinite=True, tags=["int-pow-negative", "float-overflow"])
    try:
        fa, fb = _tofloat(a), _tofloat(b)
    except OverflowError:
        return Spec(error=True, nonfinite=True, tags=["float-overflow"])
    if fa == 0.0 and fb < 0:
        return Spec(error=True, nonfinite=True, tags=["zero-div"])
    if fa < 0 and fb != math.floor(fb):
        return Spec(error=True, nonfinite=True, tags=["complex-domain"])  # SWI: undefined; C pow: nan
    try:
        v = math.pow(fa, fb)
    except OverflowError:
        return Spec(error=True, nonfinite=True, tags=["float-overflow"])
    except ValueError:
        return Spec(error=True, nonfinite=True, tags=["domain"])
    return _float_result(v)


FUNCTIONS = {
    ("+", 2): _arith2(lambda a, b: a + b, lambda a, b: a + b),
    ("-", 2): _arith2(lambda a, b: a - b, lambda a, b: a - b),
    ("*", 2): _arith2(lambda a, b: a * b, lambda a, b: a * b),
    ("/", 2): _div,
    ("//", 2): _intdiv,
    ("mod", 2): _mod,
    ("rem", 2): _mod,  # documented deviation: "X rem Y (currently same as mod)"
    ("div", 2): _divfloor,
    ("/\\", 2): _bit(lambda a, b: a & b),
    ("\\/", 2): _bit(lambda a, b: a | b),
    ("xor", 2): _bit(lambda a, b: a ^ b),
    ("#", 2): _bit(lambda a, b: a ^ b),
    ("><", 2): _bit(lambda a, b: a ^ b),
    ("<<", 2): _shl,
    (">>", 2): _shr,
    ("\\", 1): _bitnot,
    ("-", 1): _neg,
    ("+", 1): _pos,
    ("abs", 1): _abs,
    ("sign", 1): _sign,
    ("min", 2): _minmax(False),
    ("max", 2): _minmax(True),
    ("truncate", 1): _to_int(math.trunc),
    ("floor", 1): _to_int(math.floor),
    ("ceiling", 1): _to_int(math.ceil),
    ("round", 1): _round,
    ("integer", 1): _integer,
    ("float", 1): _float,
    ("float_integer_part", 1): _fip,
    ("float_fractional_part", 1): _ffp,
    ("atan", 2): _atan2,
    ("**", 2): _pow,
    ("^", 2): _pow,
    ("exp", 2): _pow,
}
for _name in ("exp", "log", "log10", "sqrt", "sin", "cos", "tan", "asin", "acos", "atan", "sinh", "cosh", "tanh",
              "asinh", "acosh", "atanh", "lgamma", "erf", "erfc"):
    FUNCTIONS[(_name, 1)] = _math1(getattr(math, _name))

# what docs/source/prolog.rst lists under "Arithmetic / Supported"
DOC_UNARY = ["-", "exp", "log", "log10", "sqrt", "sin", "cos", "tan", "asin", "acos", "atan", "sinh", "cosh",
             "tanh", "asinh", "acosh", "atanh", "lgamma", "erf", "erfc", "integer", "float",
             "float_fractional_part", "float_integer_part", "abs", "ceiling", "floor", "round", "sign", "truncate",
             "\\"]
DOC_BINARY = ["+", "-", "*", "/", "//", "mod", "rem", "div", "atan", "max", "min", "^", "exp", "**", "/\\", "\\/",
              "#", "><", "xor", "<<", ">>"]
DOC_CONSTANTS = ["pi", "e", "epsilon", "inf", "nan"]
COMPARISONS = ["<", "=<", ">", ">=", "=:=", "=\\="]
INFIX = set(["+", "-", "*", "/", "//", "mod", "rem", "div", "^", "**", "/\\", "\\/", "#", "><", "xor", "<<", ">>"])


def evaluate(expr):
    """Spec of an expression (raises TooBig when an intermediate integer would exceed MAX_BITS bits)."""
    tag = expr[0]
    if tag == "int":
        return Spec(values=[int(expr[1])])
    if tag == "flt":
        return Spec(values=[float(expr[1])])
    if tag == "const":
        return Spec(values=[CONSTANTS[expr[1]]])
    if tag == "var":
        return err("unbound")
    if tag == "atom":
        return err("not-evaluable")
    if tag == "str":
        return unchecked("string operand (SWI: one-char strings evaluate to the char code)")
    if tag != "call":
        raise ValueError("bad expression %r" % (expr,))
    name, args = expr[1], expr[2:]
    fn = FUNCTIONS.get((name, len(args)))
    if fn is None:
        return err("not-evaluable")
    specs = [evaluate(a) for a in args]
    out = Spec()
    for s in specs:
        if s.unchecked:
            out.unchecked = s.unchecked
        if s.error:
            out.error = True
            out.tags |= s.tags
        if s.nonfinite and not out.unchecked:
            out.unchecked = "non-finite intermediate result possible"
        for v in s.values:
            if is_float(v) and not finite(v) and not out.unchecked:
                out.unchecked = "inf/nan operand"
    if out.unchecked:
        return out
    n = 1
    for s in specs:
        n *= max(1, len(s.values))
    if n > MAX_COMBOS:
        out.unchecked = "too many admissible operand combinations"
        return out
    if all(s.values for s in specs):
        for combo in itertools.product(*[s.values for s in specs]):
            out.merge(fn(*combo))
    return out


def node_specs(expr, acc=None, path=()):
    """[(path, node, Spec-or-None)] for every call node, children first (None when TooBig)."""
    if acc is None:
        acc = []
    if expr[0] == "call":
        for i, a in enumerate(expr[2:]):
            node_specs(a, acc, path + (i,))
        try:
            s = evaluate(expr)
        except TooBig:
            s = None
        acc.append((path, expr, s))
    return acc


# tolerances: 1e-12 relative; results pass through problog.logic.Constant which rounds floats to 15 decimals
REL_TOL = 1e-12
ROUND15 = 5.1e-16


def match_value(spec, got):
    """Is the number `got` admissible?  Returns 'exact' | 'rounded15' | None."""
    if is_float(got) and not finite(got):
        if spec.nonfinite:
            return "exact"
        for v in spec.values:
            if is_float(v) and ((math.isnan(v) and math.isnan(got)) or v == got):
                return "exact"
        return None
    best = None
    for v in spec.values:
        if type(v) is not type(got):
            continue
        if is_int(v):
            if v == got:
                return "exact"
            continue
        if not finite(v):
            continue
        d = abs(v - got)
        if d <= REL_TOL * max(abs(v), abs(got)):
            return "exact"
        if d <= REL_TOL * max(abs(v), abs(got)) + ROUND15:
            best = "rounded15"
    return best


def numerically_admissible(spec, got):
    """Ignoring the int/float type: is the number numerically one of the admissible values?"""
    for v in spec.values:
        if not finite(v) or not finite(got):
            continue
        if is_int(v) and is_int(got):
            if v == got:
                return True
            continue
        if v == got or abs(v - got) <= REL_TOL * max(abs(v), abs(got)) + ROUND15:
            return True
    return False


class CmpSpec(object):
    def __init__(self):
        self.outcomes = set()
        self.error = False
        self.unchecked = None
        self.tags = set()


_CMP = {
    "<": lambda o: o < 0,
    "=<": lambda o: o <= 0,
    ">": lambda o: o > 0,
    ">=": lambda o: o >= 0,
    "=:=": lambda o: o == 0,
    "=\\=": lambda o: o != 0,
}


def compare(op, left, right):
    """Admissible truth values of `left op right`."""
    out = CmpSpec()
    sl, sr = evaluate(left), evaluate(right)
    for s in (sl, sr):
        if s.unchecked:
            out.unchecked = s.unchecked
        if s.error:
            out.error = True
            out.tags |= s.tags
        if s.nonfinite and not out.unchecked:
            out.unchecked = "non-finite operand possible"
    if out.unchecked:
        return out
    for a in sl.values:
        for b in sr.values:
            if (is_float(a) and math.isnan(a)) or (is_float(b) and math.isnan(b)):
                out.unchecked = "comparison with nan"
                return out
            out.outcomes.add(_CMP[op](_cmp_exact(a, b)))
            fo = _cmp_float(a, b)
            if fo is not None:
                out.outcomes.add(_CMP[op](fo))
    return out


# ============================================================================================ term inspection
#
# Terms (JSON): ["var", n] | ["atom", name] | ["int", n] | ["flt", x] | ["str", s] | ["cmp", name, [args]]
# Lists are '.'/2 compounds ending in the atom '[]' (helpers mk_list / list_parts).

NIL = ["atom", "[]"]
LIST_FUNCTORS = [".", "[|]"]  # Yap 6 / SWI-Prolog 7+


def mk_list(elems, tail=None):
    t = NIL if tail is None else tail
    for e in reversed(elems):
        t = ["cmp", ".", [e, t]]
    return t


def list_parts(t, b=None):
    """(elements, tail) of a possibly partial list."""
    elems = []
    t = walk(t, b)
    while t[0] == "cmp" and t[1] == "." and len(t[2]) == 2:
        elems.append(t[2][0])
        t = walk(t[2][1], b)
    return elems, t


def walk(t, b):
    while b is not None and t[0] == "var" and t[1] in b:
        t = b[t[1]]
    return t


def resolve(t, b):
    t = walk(t, b)
    if t[0] == "cmp":
        return ["cmp", t[1], [resolve(a, b) for a in t[2]]]
    return t


class CyclicTerm(Exception):
    """Unification would build a cyclic term (X = f(X)): outside what is compared."""


def _occurs(v, t, b):
    t = walk(t, b)
    if t[0] == "var":
        return t[1] == v
    if t[0] == "cmp":
        return any(_occurs(v, a, b) for a in t[2])
    return False


def unify(x, y, b):
    """Unify under bindings b (dict var id -> term); returns extended bindings or None.
    Raises CyclicTerm instead of building a cyclic term."""
    x, y = walk(x, b), walk(y, b)
    if x[0] == "var":
        if y[0] == "var" and y[1] == x[1]:
            return b
        if _occurs(x[1], y, b):
            raise CyclicTerm()
        nb = dict(b)
        nb[x[1]] = y
        return nb
    if y[0] == "var":
        if _occurs(y[1], x, b):
            raise CyclicTerm()
        nb = dict(b)
        nb[y[1]] = x
        return nb
    if x[0] != y[0]:
        return None
    if x[0] == "cmp":
        if x[1] != y[1] or len(x[2]) != len(y[2]):
            return None
        for p, q in zip(x[2], y[2]):
            b = unify(p, q, b)
            if b is None:
                return None
        return b
    if x[0] == "flt":
        return b if float(x[1]) == float(y[1]) else None
    return b if x[1] == y[1] else None


def term_vars(t, acc=None):
    if acc is None:
        acc = []
    if t[0] == "var":
        if t[1] not in acc:
            acc.append(t[1])
    elif t[0] == "cmp":
        for a in t[2]:
            term_vars(a, acc)
    return acc


def is_ground(t):
    return not term_vars(t)


def is_proper_list(t):
    elems, tail = list_parts(t)
    return tail == NIL


def is_partial_list(t):
    elems, tail = list_parts(t)
    return tail[0] == "var"


def is_number(t):
    return t[0] in ("int", "flt")


def is_atomic_non_string(t):
    return t[0] in ("int", "flt", "atom")


class Expect(object):
    """alternatives: list of admissible solution lists (each a list of binding dicts); error_ok: an error is
    admissible as well; unchecked: reason or None."""

    def __init__(self, alternatives=None, error_ok=False, unchecked=None):
        self.alternatives = alternatives if alternatives is not None else []
        self.error_ok = error_ok
        self.unchecked = unchecked


def _one(b):
    return Expect([[b] if b is not None else []])


_FRESH = 1000


def fresh(k):
    return ["var", _FRESH + k]


TYPE_TESTS = ["var", "atom", "atomic", "number", "integer", "float", "compound", "callable", "is_list", "ground"]


def type_test(pred, t):
    """True / False / None (not asserted: SWI and Yap differ on strings and on '[]')."""
    k = t[0]
    if pred == "var":
        return k == "var"
    if pred == "ground":
        return is_ground(t)
    if pred == "number":
        return k in ("int", "flt")
    if pred == "integer":
        return k == "int"
    if pred == "float":
        return k == "flt"
    if k == "str":
        # SWI-7 string object (atomic, not a list) vs Yap 6 code list (compound, is_list): only atom/1 agrees
        return False if pred == "atom" else None
    if pred == "atom":
        if t == NIL:
            return None  # SWI-7: '[]' is a reserved constant that is not an atom; Yap: an atom
        return k == "atom"
    if pred == "atomic":
        return k in ("atom", "int", "flt")
    if pred == "compound":
        return k == "cmp"
    if pred == "callable":
        if t == NIL:
            return None
        return k in ("atom", "cmp")
    if pred == "is_list":
        return k != "var" and is_proper_list(t)
    raise ValueError(pred)


_INT_RE = re.compile(r"^-?[0-9]+$")
_FLT_RE = re.compile(r"^-?[0-9]+\.[0-9]+$")


def parse_number_atom(text):
    """('num', term) | ('nan',) not a number | ('unknown',) syntax the systems may treat differently."""
    if _INT_RE.match(text):
        return ("num", ["int", int(text)])
    if _FLT_RE.match(text):
        return ("num", ["flt", float(text)])
    if re.match(r"^[a-z][a-z_]*$", text):
        return ("nan",)  # plain alphabetic atoms (foo, inf, nan) are not number syntax
    return ("unknown",)


def number_text(t):
    if t[0] == "int":
        return "%d" % t[1]
    r = repr(float(t[1]))
    if "e" in r or "inf" in r or "nan" in r:
        return None
    return r


def solve(pred, args):
    """Expected solutions of pred(args) for the modes ProbLog declares as supported; Expect.unchecked for the
    rest."""
    try:
        return _solve(pred, args)
    except CyclicTerm:
        return Expect(unchecked="cyclic term")


def _solve(pred, args):
    b0 = {}
    if pred in TYPE_TESTS:
        r = type_test(pred, args[0])
        if r is None:
            return Expect(unchecked="SWI and Yap differ")
        return Expect([[b0] if r else []])
    if pred == "between":
        lo, hi, v = args
        if lo[0] != "int" or hi[0] != "int":
            return Expect(unchecked="unsupported mode")
        if v[0] == "int":
            return Expect([[b0] if lo[1] <= v[1] <= hi[1] else []])
        if v[0] == "var":
            return Expect([[unify(v, ["int", i], b0) for i in range(lo[1], hi[1] + 1)]])
        return Expect(unchecked="unsupported mode")
    if pred == "succ":
        a, c = args
        for t in (a, c):
            if t[0] == "int" and t[1] < 0:
                return Expect(unchecked="negative argument (type error in Prolog)")
        if a[0] == "int" and c[0] == "int":
            return Expect([[b0] if c[1] == a[1] + 1 else []])
        if a[0] == "int" and c[0] == "var":
            return _one(unify(c, ["int", a[1] + 1], b0))
        if a[0] == "var" and c[0] == "int":
            if c[1] == 0:
                return Expect([[]], error_ok=True)  # SWI: fails silently; no natural number precedes 0
            return _one(unify(a, ["int", c[1] - 1], b0))
        return Expect(unchecked="unsupported mode")
    if pred == "plus":
        a, c, d = args
        kinds = "".join("i" if t[0] == "int" else "v" if t[0] == "var" else "?" for t in args)
        if kinds == "iii":
            return Expect([[b0] if a[1] + c[1] == d[1] else []])
        if kinds == "iiv":
            return _one(unify(d, ["int", a[1] + c[1]], b0))
        if kinds == "ivi":
            return _one(unify(c, ["int", d[1] - a[1]], b0))
        if kinds == "vii":
            return _one(unify(a, ["int", d[1] - c[1]], b0))
        return Expect(unchecked="unsupported mode")
    if pred == "length":
        lst, n = args
        if n[0] == "int" and n[1] < 0:
            return Expect(unchecked="negative length")
        if lst[0] != "var" and is_proper_list(lst):
            elems, _ = list_parts(lst)
            if n[0] in ("int", "var"):
                return _one(unify(n, ["int", len(elems)], b0))
            return Expect(unchecked="unsupported mode")
        if (lst[0] == "var" or is_partial_list(lst)) and n[0] == "int":
            elems, tail = list_parts(lst)
            if tail in elems or any(tail[1] in term_vars(e) for e in elems):
                return Expect(unchecked="tail variable occurs in the list")
            remain = n[1] - len(elems)
            if remain < 0:
                return Expect([[]])
            return _one(unify(tail, mk_list([fresh(i) for i in range(remain)]), b0))
        return Expect(unchecked="unsupported mode")
    if pred == "functor":
        t, f, a = args
        if t[0] == "var":
            if f[0] == "atom" and a[0] == "int" and a[1] >= 0:
                if a[1] == 0:
                    return _one(unify(t, f, b0))
                return _one(unify(t, ["cmp", f[1], [fresh(i) for i in range(a[1])]], b0))
            return Expect(unchecked="unsupported mode")
        if t[0] == "str":
            return Expect(unchecked="string")
        if t[0] == "cmp":
            names = LIST_FUNCTORS if (t[1] == "." and len(t[2]) == 2) else [t[1]]
            alts = []
            for nm in names:
                b = unify(f, ["atom", nm], b0)
                if b is not None:
                    b = unify(a, ["int", len(t[2])], b)
                alts.append([b] if b is not None else [])
            return Expect(alts)
        b = unify(f, t, b0)
        if b is not None:
            b = unify(a, ["int", 0], b)
        return _one(b)
    if pred == "arg":
        n, t, a = args
        if n[0] != "int" or n[1] < 0 or t[0] != "cmp":
            return Expect(unchecked="unsupported mode")
        if not (1 <= n[1] <= len(t[2])):
            return Expect([[]])
        return _one(unify(t[2][n[1] - 1], a, b0))
    if pred == "=..":
        t, l = args
        if t[0] == "var":
            if l[0] == "var" or not is_proper_list(l):
                return Expect(unchecked="unsupported mode")
            elems, _ = list_parts(l)
            if len(elems) == 1 and is_atomic_non_string(elems[0]):
                return _one(unify(t, elems[0], b0))
            if len(elems) > 1 and elems[0][0] == "atom":
                return _one(unify(t, ["cmp", elems[0][1], elems[1:]], b0))
            return Expect(unchecked="type error in Prolog")
        if t[0] == "str":
            return Expect(unchecked="string")
        if l[0] != "var" and not (is_proper_list(l) or is_partial_list(l)):
            return Expect(unchecked="unsupported mode")
        if t[0] == "cmp":
            names = LIST_FUNCTORS if (t[1] == "." and len(t[2]) == 2) else [t[1]]
            alts = []
            for nm in names:
                b = unify(l, mk_list([["atom", nm]] + list(t[2])), b0)
                alts.append([b] if b is not None else [])
            return Expect(alts)
        return _one(unify(l, mk_list([t]), b0))
    if pred == "atom_number":
        a, n = args
        if a[0] == "var":
            if not is_number(n):
                return Expect(unchecked="unsupported mode")
            txt = number_text(n)
            if txt is None:
                return Expect(unchecked="float text differs between systems")
            return _one(unify(a, ["atom", txt], b0))
        if a[0] != "atom":
            return Expect(unchecked="unsupported mode")
        p = parse_number_atom(a[1])
        if p[0] == "unknown":
            return Expect(unchecked="number syntax not shared by SWI and Yap")
        if n[0] == "var" or is_number(n):
            if p[0] == "nan":
                return Expect([[]], error_ok=True)  # fails (SWI, Yap); a syntax error would also be Prolog-like
            return _one(unify(n, p[1], b0))
        return Expect(unchecked="unsupported mode")
    raise ValueError("unknown predicate %r" % (pred,))


def canonical(terms):
    """Variant-canonical printable form of a tuple of terms (variables numbered by first occurrence)."""
    names = {}

    def go(t):
        k = t[0]
        if k == "var":
            if t[1] not in names:
                names[t[1]] = "_G%d" % len(names)
            return names[t[1]]
        if k == "int":
            return "%d" % t[1]
        if k == "flt":
            return "%r" % float(t[1])
        if k == "atom":
            return "'%s'" % t[1]
        if k == "str":
            return '"%s"' % t[1]
        if k == "cmp":
            return "'%s'(%s)" % (t[1], ",".join(go(a) for a in t[2]))
        return "<%s>" % (t,)

    return "(" + ", ".join(go(t) for t in terms) + ")"
