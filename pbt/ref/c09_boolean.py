"""Reference Boolean machinery for C09 / C10 (translation validation).  No import of problog.

Truth tables are Python integers used as bit masks over a *column set* of assignments:

* exhaustive mode: the column set is all 2^n assignments of n variables; column a (0 <= a < 2^n) gives variable
  i (0-based) the value (a >> i) & 1  (`var_tables`);
* sampled mode: the column set is an explicit list of m assignments (`tables_from_assignments`).

Everything below is written against that representation, so the same evaluators serve both modes.

Graph format (and-or graphs, possibly cyclic):  {key: ("atom", var) | ("conj", children) | ("disj", children)}
with positive integer keys; a child is a signed key, 0 (TRUE) or None (FALSE).

CNF format: list of clauses, each a list of non-zero signed integers over variables 1..nvars."""


class TooLarge(Exception):
    pass


class Malformed(Exception):
    """The structure handed to the reference is not a well-formed graph/CNF (dangling child, bad literal)."""
    pass


# ------------------------------------------------------------------------------------------------ tables

def var_tables(n):
    """Truth tables of n variables over all 2^n assignments.  Returns (list of n ints, full mask)."""
    nb = 1 << n
    full = (1 << nb) - 1
    out = []
    for i in range(n):
        half = 1 << i
        period = half << 1
        block = ((1 << half) - 1) << half
        out.append(block * (full // ((1 << period) - 1)))
    return out, full


def tables_from_assignments(variables, assignments):
    """assignments: list of dicts {var: bool}.  Returns ({var: int}, full)."""
    tabs = dict((v, 0) for v in variables)
    for j, a in enumerate(assignments):
        bit = 1 << j
        for v in variables:
            if a[v]:
                tabs[v] |= bit
    return tabs, (1 << len(assignments)) - 1


def lowest_column(mask):
    """Index of the lowest set bit (a witness assignment/column) of a non-zero mask."""
    return (mask & -mask).bit_length() - 1


def popcount(x):
    return bin(x).count("1")


def column_assignment(col, order):
    """Exhaustive mode: the assignment {var: bool} of column `col` when `order[i]` is the i-th variable."""
    return dict((v, bool((col >> i) & 1)) for i, v in enumerate(order))


# ------------------------------------------------------------------------------------------------ and-or graphs

def _succ(node):
    if node[0] == "atom":
        return ()
    return [abs(c) for c in node[1] if c is not None and c != 0]


def sccs(graph):
    """Tarjan (iterative).  SCCs are returned children-first (reverse topological order of the condensation)."""
    index = {}
    low = {}
    on = set()
    stack = []
    out = []
    cnt = 0
    for root in sorted(graph):
        if root in index:
            continue
        index[root] = low[root] = cnt
        cnt += 1
        stack.append(root)
        on.add(root)
        work = [(root, iter(_succ(graph[root])))]
        while work:
            v, it = work[-1]
            advanced = False
            for w in it:
                if w not in graph:
                    raise Malformed("node %r has child %r which is not a node" % (v, w))
                if w not in index:
                    index[w] = low[w] = cnt
                    cnt += 1
                    stack.append(w)
                    on.add(w)
                    work.append((w, iter(_succ(graph[w]))))
                    advanced = True
                    break
                elif w in on:
                    if index[w] < low[v]:
                        low[v] = index[w]
            if advanced:
                continue
            work.pop()
            if work:
                p = work[-1][0]
                if low[v] < low[p]:
                    low[p] = low[v]
            if low[v] == index[v]:
                comp = []
                while True:
                    w = stack.pop()
                    on.discard(w)
                    comp.append(w)
                    if w == v:
                        break
                out.append(comp)
    return out


class GraphInfo(object):
    def __init__(self):
        self.nontrivial_sccs = 0  # SCCs with a cycle (size > 1 or a self loop)
        self.largest_scc = 0
        self.neg_edge_in_scc = None  # (parent, child) of a negative edge inside an SCC, if any
        self.iterations = 0


def literal_value(values, child, full):
    if child is None:
        return 0
    if child == 0:
        return full
    if child > 0:
        return values[child]
    return full & ~values[-child]


def least_model(graph, atom_tables, full):
    """Least-model (= perfect model for graphs whose negative edges leave their SCC) value of every node, for
    all columns at once.  SCC by SCC, children first; inside an SCC Kleene iteration from FALSE.

    Returns (values {key: table}, GraphInfo).  When a negative edge lies inside an SCC the least model is not
    defined: info.neg_edge_in_scc is set and values is None."""
    info = GraphInfo()
    comps = sccs(graph)
    comp_of = {}
    for ci, comp in enumerate(comps):
        for v in comp:
            comp_of[v] = ci
    values = {}
    for ci, comp in enumerate(comps):
        cyclic = len(comp) > 1 or comp[0] in _succ(graph[comp[0]])
        if cyclic:
            info.nontrivial_sccs += 1
            info.largest_scc = max(info.largest_scc, len(comp))
            for v in comp:
                for c in graph[v][1]:
                    if c is not None and c < 0 and comp_of[-c] == ci:
                        info.neg_edge_in_scc = (v, c)
                        return None, info
        for v in comp:
            values[v] = 0
        changed = True
        while changed:
            changed = False
            info.iterations += 1
            for v in comp:
                node = graph[v]
                kind = node[0]
                if kind == "atom":
                    new = atom_tables[node[1]]
                elif kind == "conj":
                    new = full
                    for c in node[1]:
                        new &= literal_value(values, c, full)
                        if not new:
                            break
                elif kind == "disj":
                    new = 0
                    for c in node[1]:
                        new |= literal_value(values, c, full)
                else:
                    raise Malformed("node %r has unknown kind %r" % (v, kind))
                if new != values[v]:
                    values[v] = new
                    changed = True
            if not cyclic:
                break
    return values, info


def support_sets(graph):
    """Set of atom variables mentioned below every node of an ACYCLIC graph (frozensets)."""
    out = {}
    for comp in sccs(graph):
        if len(comp) > 1 or comp[0] in _succ(graph[comp[0]]):
            raise Malformed("graph is cyclic at nodes %r" % sorted(comp)[:5])
        v = comp[0]
        node = graph[v]
        if node[0] == "atom":
            out[v] = frozenset([node[1]])
        else:
            s = set()
            for c in _succ(node):
                s |= out[c]
            out[v] = frozenset(s)
    return out


# ------------------------------------------------------------------------------------------------ CNF, table side

def check_cnf(nvars, clauses):
    for c in clauses:
        for l in c:
            if type(l) is not int or l == 0 or abs(l) > nvars:
                raise Malformed("clause %r has literal %r outside 1..%d" % (c, l, nvars))


def lit_table(tables, l, full):
    return tables[l] if l > 0 else full & ~tables[-l]


def clause_table(clause, tables, full):
    t = 0
    for l in clause:
        t |= lit_table(tables, l, full)
    return t


def cnf_table(clauses, tables, full):
    t = full
    for c in clauses:
        t &= clause_table(c, tables, full)
        if not t:
            break
    return t


def unit_propagation_tables(nvars, clauses, fixed, full):
    """Bit-sliced unit propagation: for every column at once, start from the variables in `fixed`
    ({var: table}) and derive forced values of the other variables from the clauses.

    Returns (pos, neg, conflict): pos[v] / neg[v] = columns in which v is forced true / false (logical
    consequences of clauses + fixed values, so every model extending the column agrees with them);
    conflict = columns in which some clause is falsified by forced values (no model extends the column)."""
    pos = [0] * (nvars + 1)
    neg = [0] * (nvars + 1)
    for v, t in fixed.items():
        pos[v] = t & full
        neg[v] = full & ~t
    conflict = 0
    changed = True
    while changed:
        changed = False
        for c in clauses:
            n = len(c)
            # falsified[i] = columns where literal i is forced false
            fals = [neg[l] if l > 0 else pos[-l] for l in c]
            # prefix/suffix products: columns where all literals except i are forced false
            pre = [full] * (n + 1)
            for i in range(n):
                pre[i + 1] = pre[i] & fals[i]
            if pre[n] & ~conflict:
                conflict |= pre[n]
                changed = True
            suf = full
            for i in range(n - 1, -1, -1):
                forced = pre[i] & suf
                suf &= fals[i]
                if forced:
                    l = c[i]
                    if l > 0:
                        if forced & ~pos[l]:
                            pos[l] |= forced
                            changed = True
                    else:
                        if forced & ~neg[-l]:
                            neg[-l] |= forced
                            changed = True
    return pos, neg, conflict


# ------------------------------------------------------------------------------------------------ CNF, search side

def _clean(clauses):
    out = []
    seen = set()
    for c in clauses:
        s = frozenset(c)
        if any(-l in s for l in s):
            continue
        if s in seen:
            continue
        seen.add(s)
        out.append(tuple(sorted(s, key=abs)))
    return out


def _assign(clauses, lit):
    out = []
    for c in clauses:
        if lit in c:
            continue
        if -lit in c:
            c = tuple(x for x in c if x != -lit)
            if not c:
                return None
        out.append(c)
    return out


def _unit_propagate(clauses, assigned):
    """assigned: dict var -> bool, extended in place.  Returns simplified clauses or None on conflict."""
    while True:
        unit = None
        for c in clauses:
            if len(c) == 1:
                unit = c[0]
                break
        if unit is None:
            return clauses
        assigned[abs(unit)] = unit > 0
        clauses = _assign(clauses, unit)
        if clauses is None:
            return None


def _components(clauses):
    parent = {}

    def find(x):
        while parent[x] != x:
            parent[x] = parent[parent[x]]
            x = parent[x]
        return x

    for c in clauses:
        v0 = abs(c[0])
        parent.setdefault(v0, v0)
        for l in c[1:]:
            v = abs(l)
            parent.setdefault(v, v)
            ra, rb = find(v0), find(v)
            if ra != rb:
                parent[ra] = rb
    groups = {}
    for c in clauses:
        groups.setdefault(find(abs(c[0])), []).append(c)
    return list(groups.values())


def count_models(nvars, clauses, assumptions=(), prefer=(), max_nodes=200000):
    """Number of assignments of variables 1..nvars that satisfy all clauses (and the assumption literals).
    DPLL with unit propagation and connected-component decomposition.  Raises TooLarge beyond max_nodes."""
    check_cnf(nvars, clauses)
    budget = [max_nodes]
    rank = dict((v, i) for i, v in enumerate(prefer))

    def count(cls):
        """models of cls over exactly the variables occurring in cls"""
        budget[0] -= 1
        if budget[0] < 0:
            raise TooLarge("model counter budget")
        vars_before = set(abs(l) for c in cls for l in c)
        assigned = {}
        cls = _unit_propagate(cls, assigned)
        if cls is None:
            return 0
        vars_after = set(abs(l) for c in cls for l in c)
        free = len(vars_before) - len(vars_after) - len(assigned)
        total = 1 << free
        if not cls:
            return total
        comps = _components(cls)
        for comp in comps:
            occ = {}
            for c in comp:
                for l in c:
                    occ[abs(l)] = occ.get(abs(l), 0) + 1
            v = min(occ, key=lambda x: (rank.get(x, len(rank)), -occ[x], x))
            n = 0
            for lit in (v, -v):
                sub = _assign(comp, lit)
                if sub is None:
                    continue
                cv = set(abs(l) for c in sub for l in c)
                gap = len(occ) - 1 - len(cv)
                n += count(sub) << gap if sub else 1 << gap
            if n == 0:
                return 0
            total *= n
        return total

    cls = _clean(clauses)
    assigned = {}
    for l in assumptions:
        if assigned.get(abs(l), l > 0) != (l > 0):
            return 0
        assigned[abs(l)] = l > 0
        cls = _assign(cls, l)
        if cls is None:
            return 0
    occurring = set(abs(l) for c in cls for l in c)
    outside = nvars - len(assigned) - len(occurring)
    return count(cls) << outside


def solve(nvars, clauses, assumptions=(), choose=None, max_nodes=200000):
    """One model {var: bool} over 1..nvars extending the assumption literals, or None.  `choose(var)` gives the
    polarity tried first for a branching variable (and the value of unconstrained variables)."""
    check_cnf(nvars, clauses)
    if choose is None:
        choose = lambda v: False
    budget = [max_nodes]

    def rec(cls, assigned):
        budget[0] -= 1
        if budget[0] < 0:
            raise TooLarge("solver budget")
        cls = _unit_propagate(cls, assigned)
        if cls is None:
            return None
        if not cls:
            return assigned
        v = abs(cls[0][0])
        first = v if choose(v) else -v
        for lit in (first, -first):
            sub = _assign(cls, lit)
            if sub is None:
                continue
            a2 = dict(assigned)
            a2[v] = lit > 0
            r = rec(sub, a2)
            if r is not None:
                return r
        return None

    cls = _clean(clauses)
    assigned = {}
    for l in assumptions:
        if assigned.get(abs(l), l > 0) != (l > 0):
            return None
        assigned[abs(l)] = l > 0
        cls = _assign(cls, l)
        if cls is None:
            return None
    res = rec(cls, assigned)
    if res is None:
        return None
    for v in range(1, nvars + 1):
        if v not in res:
            res[v] = bool(choose(v))
    return res


def satisfies(clauses, assignment):
    for c in clauses:
        ok = False
        for l in c:
            if assignment[abs(l)] == (l > 0):
                ok = True
                break
        if not ok:
            return False
    return True


def sample_assignments(nvars, clauses, decision_vars, rng, m):
    """m assignments over 1..nvars drawn with `rng` (a seeded random.Random): roughly half are models found by
    fixing random values of the decision variables and solving for the rest, a quarter are such models with one
    or two variables flipped (near misses), the rest uniformly random."""
    out = []
    nmodels = m // 2
    nflips = m // 4
    models = []
    tries = 0
    while len(models) < nmodels and tries < 2 * nmodels + 20:
        tries += 1
        assum = [v if rng.random() < 0.5 else -v for v in decision_vars]
        mod = solve(nvars, clauses, assum, choose=lambda v: rng.random() < 0.5)
        if mod is None:
            # the constraints exclude this combination: relax - let the solver choose the decision variables
            k = rng.randrange(len(assum) + 1) if assum else 0
            rng.shuffle(assum)
            mod = solve(nvars, clauses, assum[:k // 2], choose=lambda v: rng.random() < 0.5)
        if mod is not None:
            models.append(mod)
    out.extend(models)
    for i in range(nflips):
        if not models:
            break
        a = dict(models[rng.randrange(len(models))])
        for _ in range(1 + rng.randrange(2)):
            v = 1 + rng.randrange(nvars)
            a[v] = not a[v]
        out.append(a)
    while len(out) < m:
        out.append(dict((v, rng.random() < 0.5) for v in range(1, nvars + 1)))
    return out


# ------------------------------------------------------------------------------------------------ NNF circuits

def nnf_model_count(graph, root, nvars, supports=None):
    """Model count over nvars variables of an NNF circuit, assuming decomposable ANDs and deterministic ORs;
    smoothness is NOT assumed (gaps are compensated by powers of two)."""
    if supports is None:
        supports = support_sets(graph)
    if root is None:
        return 0
    if root == 0:
        return 1 << nvars
    cnt = {}
    for comp in sccs(graph):
        v = comp[0]
        node = graph[v]
        if node[0] == "atom":
            cnt[v] = 1  # models of the positive literal over its own variable
        elif node[0] == "conj":
            n = 1
            for c in node[1]:
                n *= _lit_count(cnt, supports, c)
            cnt[v] = n
        else:
            n = 0
            for c in node[1]:
                n += _lit_count(cnt, supports, c) << (len(supports[v]) - _lit_support(supports, c))
            cnt[v] = n
    base = _lit_count(cnt, supports, root)
    return base << (nvars - _lit_support(supports, root))


def _lit_support(supports, c):
    if c is None or c == 0:
        return 0
    return len(supports[abs(c)])


def _lit_count(cnt, supports, c):
    if c is None:
        return 0
    if c == 0:
        return 1
    if c > 0:
        return cnt[c]
    return (1 << len(supports[-c])) - cnt[-c]
